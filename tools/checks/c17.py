"""C17 - readiness notifications reach exactly the registered, interested waiters.

Spec: spec/waiter (Waiter = P-spec; WaiterImpl = I-spec, the intrusive doubly
linked list of pkg/ilist transcribed literally; MCWaiter = closed model running
both in lockstep; TraceWaiter = trace validation incl. linearizability of
concurrent histories with callback events).
Binding: E1 exhaustive TLC; E2 every transition of the TLC state graph replayed
on a real waiter.Queue (P-level: callback counts, channel tokens, take results;
I-level: next/prev pointers incl. stale ones, Events()); E3/E4 sequential and
concurrent histories of the real Queue validated by TLC against the P-spec.
"""
import copy
import json
import os
import vlib
from vlib import cfg, MV

MANIFEST = dict(
    technique='TLA+ P-spec Waiter + I-spec WaiterImpl (pkg/ilist list, PushBack/Remove transcribed) checked in lockstep by TLC (exhaustive, all contract-respecting op sequences up to a bound); every transition of the TLC state graph replayed on the real waiter.Queue; sequential and racing goroutine histories (call/ret + callback events) linearized by TLC against the P-spec',
    text='TLC enumerates every register/unregister/notify/take/new-channel-entry sequence over 3 entries x all masks over {in,out} up to the bound and checks that the linked list is well-formed and equals the registered set, that a notification calls back exactly the registered entries with intersecting mask once each, and that tokens are sticky. The real Queue is driven through every edge of the (smaller-bound) state graph and must show the same callback counts, channel tokens and take results after every step. Seeded concurrent histories (<=4 goroutines x 5 ops, callbacks logged from inside the callback) must be linearizable: every callback belongs to a Notify linearized while the entry was registered with intersecting mask, exactly one per owed entry, none after the return of Unregister, tokens taken exactly once.',
    design='5 C17',
    note='Bounds: 3 entries (callback and channel-backed; a channel entry may be re-created at any step on any existing channel, so entries share channels; one queue), masks over {in,out} (sequential traces: all six event bits), op sequences <= 6 (quick) / 8 (thorough) for TLC, <= 4..7 for the replayed graphs; concurrent histories <= 4 goroutines x 5 ops (DESIGN said 8 goroutines: reduced to keep the TLC search small). Contract misuse (double register, unregister of an unregistered entry, callbacks calling the queue) is excluded. The no-lock/torn-list class of defects is only reachable through real scheduling: callbacks sleep briefly to widen the window, detection is probabilistic per history. Trusted: Go channels/RWMutex, goroutine-state parsing for the quiescent-hang verdict.')

SPEC = ['waiter']
INV = ['TypeOK', 'ListOK', 'Refines']
PROPS = ['MembershipFrame', 'NotifyExact', 'TokenSticky', 'OnlyNotifyCalls']
K0 = (['c1', 'c2'], ['h1'])
K1 = (['c1'], ['h1', 'h2'])
TCFG = cfg(spec='TSpec', constants=dict(CbEntries=MV('{"c1", "c2", "c3"}'), ChEntries=MV('{"h1", "h2", "h3"}')),
           constraint='HWMark', postcondition='Accepted')


def sset(xs):
    return MV('{' + ', '.join('"%s"' % x for x in xs) + '}')


def mc_cfg(kinds, events, maxops):
    return cfg(spec='MCSpec', constants=dict(CbEntries=sset(kinds[0]), ChEntries=sset(kinds[1]),
                                             Events=sset(events), MaxOps=maxops),
               invariants=INV, properties=PROPS)


def in_waiter_code(txt):
    return 'net-protocol/pkg/waiter.' in txt or 'net-protocol/pkg/ilist.' in txt


# ------------------------------------------------------------------ E2
def graph_replay(ctx, drv, tag, kinds, events, maxops, state):
    r = ctx.tlc('MCWaiter', mc_cfg(kinds, events, maxops), SPEC, name='MCWaiter-graph-' + tag, dump_dot=True, must_pass=True,
                coverage=(tag == 'a'))
    if tag == 'a':
        z = ctx.zero_coverage(r)
        if z or not r.cov:
            raise vlib.Inconclusive('vacuity: actions never taken in MCWaiter: %s' % z)
    script, stats = vlib.graph_script(ctx, r, extra=dict(cb=kinds[0], ch=kinds[1]))
    sp = os.path.join(ctx.work, 'waiter-graph-%s.json' % tag)
    vlib.write_json(sp, script)
    out = ctx.run([drv, 'graph', sp], timeout=ctx.pick(300, 1200))
    res = json.loads(out.stdout)
    st = state.setdefault('graph', dict(graph_states=0, graph_edges=0, edges_replayed=0, paths=0, replay_steps=0,
                                        notifies=0, takes=0, callbacks=0))
    for k in ('graph_states', 'graph_edges', 'edges_replayed', 'paths'):
        st[k] += stats[k]
    st['replay_steps'] += res['steps']
    for k in ('notifies', 'takes', 'callbacks'):
        st[k] += res['extra'][k]
    complete = res['paths'] == len(script['paths'])
    if complete:
        ctx.traces += res['paths']
    ctx.log('graph %s: %d states, %d edges, %d paths, %d steps replayed, %d mismatches' % (
        tag, stats['graph_states'], stats['graph_edges'], stats['paths'], res['steps'], len(res['mismatches'])))
    if script['paths']:
        p = max(script['paths'][:50], key=len)
        ctx.sample(dict(kind='graph-path', entries=kinds, steps=[[s['a']] + s['args'] for s in p[:8]]))
    seen = set()
    drift_seen = set()
    for mm in res['mismatches']:
        if mm['kind'] == 'drift':
            key = mm['what'].split('[')[0]
            if key not in drift_seen:
                drift_seen.add(key)
                p = script['paths'][mm['path']][:mm['step'] + 1]
                ctx.model_drift('waiter.Queue differs from I-spec WaiterImpl: %s want=%s got=%s after %s' % (
                    mm['what'], mm.get('want'), mm.get('got'), [[s['a']] + s['args'] for s in p]))
            continue
        if mm['path'] in seen:
            continue
        seen.add(mm['path'])
        path = script['paths'][mm['path']][:mm['step'] + 1]
        steps = [[s['a']] + s['args'] for s in path]
        replay = dict(kind='graph', cb=kinds[0], ch=kinds[1], steps=steps, mismatch=mm,
                      expected_after_last_step={k: script['states'][path[-1]['dst']][k] for k in ('reg', 'calls', 'token')})
        if mm['kind'] == 'spinning':
            state['spinning'].append(replay)
            continue
        if mm['kind'] in ('panic', 'blocked') and not in_waiter_code(str(mm.get('got'))):
            raise vlib.Inconclusive('driver goroutine %s outside waiter code: %s' % (mm['kind'], mm.get('got')))
        # reproduce once on a one-path script before reporting
        mini = dict(states={s['dst']: script['states'][s['dst']] for s in path}, init=script['init'], paths=[path],
                    cb=kinds[0], ch=kinds[1])
        mp = os.path.join(ctx.work, 'waiter-repro.json')
        vlib.write_json(mp, mini)
        rr = json.loads(ctx.run([drv, 'graph', mp], timeout=300).stdout)
        again = [m for m in rr['mismatches'] if m['kind'] == mm['kind'] and m['step'] == mm['step'] and m['what'] == mm['what']]
        if not again:
            raise vlib.Inconclusive('graph mismatch not reproducible: %s' % mm)
        state['violations'] += 1
        replay['script'] = mini      # `vcheck C17 --replay <file>` re-runs exactly this path on the real Queue
        if state['violations'] <= 4:
            ctx.violation('waiter.Queue disagrees with Waiter P-spec at step %d of %s: %s want=%s got=%s' % (
                mm['step'], steps, mm['what'], mm.get('want'), str(mm.get('got'))[:300]), replay)
    if not complete and not res['mismatches']:
        raise vlib.Inconclusive('graph replay stopped early without a mismatch')


# ------------------------------------------------------------------ E3 / E4
def histories(ctx, drv, tag, seed, hists, G, K, state, max_reruns=4):
    rp = os.path.join(ctx.work, 'hist-%s.ndjson' % tag)
    out = ctx.run([drv, 'race', rp, str(seed), str(hists), str(G), str(K)], timeout=ctx.pick(300, 1800))
    summ = json.loads(out.stdout)
    segs = vlib.split_segments(vlib.read_ndjson(rp))
    if summ.get('stopped'):
        # the driver ended early: the last history is incomplete.  What it logged is still real behaviour
        # and is validated below (without the driver's own marker events); the reason is classified here.
        last = segs[-1]
        marks = [e for e in last if e.get('ev') in ('panic', 'hang', 'overrun')]
        segs[-1] = [e for e in last if e.get('ev') not in ('panic', 'hang', 'overrun')]
        if not marks:
            raise vlib.Inconclusive('driver stopped (%s) without a marker event' % summ['stopped'])
        m0 = marks[0]
        if m0['ev'] == 'overrun':
            state['overrun'] = True      # more callbacks than all notifies can owe: TLC rejects the surplus cb below
        elif m0['ev'] == 'hang' and m0.get('spinning'):
            state['spinning'].append(dict(kind=tag, seed=seed, events=last))
        else:
            txt = m0.get('stack', '') + ' '.join(m0.get('stacks', []))
            what = 'history %d: %s' % (len(segs) - 1, 'operation panicked: %s' % m0.get('msg') if m0['ev'] == 'panic'
                                       else 'operations never returned (quiescent, goroutines parked: %s)' % m0.get('states'))
            if not in_waiter_code(txt):
                raise vlib.Inconclusive('driver stopped (%s) outside waiter code: %s\n%s' % (summ['stopped'], what, txt[:1500]))
            state['violations'] += 1
            ctx.violation(what + ' - every Register/Unregister/Notify of a contract-respecting history must return',
                          dict(kind=tag, seed=seed, marker=m0, events=last))
    elif len(segs) != hists:
        raise vlib.Inconclusive('driver produced %d histories, expected %d' % (len(segs), hists))
    acc, rej = vlib.validate_segments(ctx, 'TraceWaiter', TCFG, SPEC, segs, name=tag, max_reruns=max_reruns, timeout=2400)
    ctx.traces += acc
    if state.pop('overrun', False) and not rej:
        raise vlib.Inconclusive('driver reported a callback overrun but TLC accepted every history')
    for si, ln in rej:
        state['violations'] += 1
        e = segs[si][ln] if ln < len(segs[si]) else None
        ctx.violation('%s history %d not explained by the Waiter P-spec: rejected at event %d %s' % (
            'sequential' if G == 1 else 'concurrent', si, ln, json.dumps(e)), dict(kind=tag, seed=seed, history=si, rejected_at=ln, events=segs[si]))
    return segs, summ, set(si for si, _ in rej)


def H(*evs):
    return [dict(ev='reset')] + list(evs)


def call(g, op, e=None, m=None):
    d = dict(ev='call', g=g, op=op)
    if e is not None:
        d['e'] = e
    if m is not None:
        d['m'] = m
    return d


def ret(g, ok=None):
    d = dict(ev='ret', g=g)
    if ok is not None:
        d['ok'] = ok
    return d


def cb(g, e):
    return dict(ev='cb', g=g, e=e)


REG_C1 = [call(0, 'register', 'c1', ['in']), ret(0)]
REG_H1 = [call(0, 'register', 'h1', ['in']), ret(0)]
# hand-written histories: the accepted ones pin down what the real code may legitimately do,
# the rejected ones exercise one constraint of TraceWaiter each
GOOD = [
    # a callback may run after another goroutine's Unregister *call*, before its return
    H(*REG_C1, call(1, 'notify', m=['in']), call(0, 'unregister', 'c1'), cb(1, 'c1'), ret(1), ret(0),
      dict(ev='obs', calls=dict(c1=1))),
    # ... and after the return if a later Register call precedes it
    H(*REG_C1, call(1, 'notify', m=['in']), call(0, 'unregister', 'c1'), ret(0), call(0, 'register', 'c1', ['in']),
      cb(1, 'c1'), ret(0), ret(1)),
    # a Notify overlapping a Register may or may not see the entry
    H(call(0, 'register', 'c1', ['in', 'out']), call(1, 'notify', m=['out']), ret(1), ret(0)),
    H(call(0, 'register', 'c1', ['in', 'out']), call(1, 'notify', m=['out']), cb(1, 'c1'), ret(1), ret(0)),
    # a take racing with a Notify may miss the token, which then stays
    H(*REG_H1, call(1, 'notify', m=['in']), call(2, 'take', 'h1'), ret(2, False), ret(1), call(2, 'take', 'h1'), ret(2, True),
      call(2, 'take', 'h1'), ret(2, False), dict(ev='obs', tokens=dict(h1=0))),
    # a second entry created on the shared, non-empty channel: the pending token stays for the waiter
    H(*REG_H1, call(1, 'notify', m=['in']), ret(1), dict(ev='new', g=2, e='h2', c='h1'), dict(ev='obs', tokens=dict(h1=1, h2=0)),
      call(2, 'register', 'h2', ['out']), ret(2), call(1, 'notify', m=['out']), ret(1), call(0, 'take', 'h1'), ret(0, True),
      call(0, 'take', 'h1'), ret(0, False), call(0, 'take', 'h2'), ret(0, False)),
    # two notifies, one token
    H(*REG_H1, call(1, 'notify', m=['in']), ret(1), call(1, 'notify', m=['in', 'out']), ret(1), dict(ev='obs', tokens=dict(h1=1)),
      call(0, 'unregister', 'h1'), ret(0), call(2, 'take', 'h1'), ret(2, True)),
]
BAD = [
    ('AfterUnregister: cb after ret(Unregister)',
     H(*REG_C1, call(1, 'notify', m=['in']), call(0, 'unregister', 'c1'), ret(0), cb(1, 'c1'), ret(1))),
    ('owed callback missing',
     H(*REG_C1, call(1, 'notify', m=['in']), ret(1))),
    ('token lost',
     H(*REG_H1, call(1, 'notify', m=['in']), ret(1), call(2, 'take', 'h1'), ret(2, False))),
    ('token eaten by NewChannelEntry on the shared channel',
     H(*REG_H1, call(1, 'notify', m=['in']), ret(1), dict(ev='new', g=2, e='h2', c='h1'), call(0, 'take', 'h1'), ret(0, False))),
    ('callback twice',
     H(*REG_C1, call(1, 'notify', m=['in']), cb(1, 'c1'), cb(1, 'c1'), ret(1))),
    ('callback with non-intersecting mask',
     H(call(0, 'register', 'c1', ['out']), ret(0), call(1, 'notify', m=['in']), cb(1, 'c1'), ret(1))),
    ('token taken twice',
     H(*REG_H1, call(1, 'notify', m=['in']), ret(1), call(1, 'notify', m=['in']), ret(1), call(2, 'take', 'h1'), ret(2, True),
       call(2, 'take', 'h1'), ret(2, True))),
    ('neighbour lost by an unregistration',
     H(*REG_C1, call(1, 'register', 'c2', ['in']), ret(1), call(0, 'unregister', 'c1'), ret(0), call(2, 'notify', m=['in']), ret(2))),
    ('callback of an entry registered only after the Notify returned',
     H(call(1, 'notify', m=['in']), cb(1, 'c1'), ret(1), *REG_C1)),
    ('final callback count',
     H(*REG_C1, call(1, 'notify', m=['in']), cb(1, 'c1'), ret(1), dict(ev='obs', calls=dict(c1=2)))),
]


def safe_cb(seg):
    """Index of a cb event whose removal cannot be explained away: no register/unregister of the
    same entry is in flight anywhere between the call and the ret of the Notify that ran it."""
    for i, e in enumerate(seg):
        if e['ev'] != 'cb':
            continue
        c = max(k for k in range(i) if seg[k]['ev'] == 'call' and seg[k]['g'] == e['g'])
        r = min(k for k in range(i, len(seg)) if seg[k]['ev'] == 'ret' and seg[k]['g'] == e['g'])
        pending = {}
        clash = False
        for k, x in enumerate(seg[:r + 1]):
            if x['ev'] == 'call':
                pending[x['g']] = x
            elif x['ev'] == 'ret':
                pending.pop(x['g'], None)
            if k >= c and any(y.get('e') == e['e'] and y['op'] in ('register', 'unregister') for y in pending.values()):
                clash = True
        if not clash:
            return i
    return None


def selftests(ctx, segs, rejected, seqsegs):
    bad = BAD if ctx.thorough() else [BAD[0], BAD[3]]
    done = []
    tests = []
    # corrupt real histories: drop a callback event (concurrent history), flip a take result (sequential one)
    for si, s in enumerate(segs):
        i = None if si in rejected else safe_cb(s)
        if i is not None:
            t = copy.deepcopy(s)
            del t[i]
            tests.append(('real concurrent history, one cb event dropped', t))
            break
    if not tests:
        raise vlib.Inconclusive('vacuity: no recorded concurrent history contains a usable callback event')
    if ctx.thorough():
        for s in seqsegs:
            tk = [i for i, e in enumerate(s) if e['ev'] == 'ret' and 'ok' in e]
            if tk:
                t = copy.deepcopy(s)
                t[tk[0]]['ok'] = not t[tk[0]]['ok']
                tests.append(('real sequential history, take result flipped', t))
                break
    tests += list(bad)
    for name, seg in tests:
        acc, rej = vlib.validate_segments(ctx, 'TraceWaiter', TCFG, SPEC, [seg], name='self-bad', count=False)
        if not rej:
            raise vlib.Inconclusive('binding self-test failed: corrupted history accepted (%s)' % name)
        done.append('%s: rejected at event %d' % (name, rej[0][1]))
    ctx.extra['binding_selftest'] = done


def replay(ctx, obj):
    """Re-run a recorded graph counterexample (one path) on the real Queue."""
    rp = obj.get('replay', {})
    if rp.get('kind') != 'graph' or 'script' not in rp:
        raise vlib.Inconclusive('only graph replays can be re-run; concurrent histories are schedule dependent (the recorded events are the evidence)')
    drv = ctx.go_build('waiterd')
    mp = os.path.join(ctx.work, 'waiter-replay.json')
    vlib.write_json(mp, rp['script'])
    rr = json.loads(ctx.run([drv, 'graph', mp], timeout=300).stdout)
    ctx.traces += 1
    ctx.sample(dict(kind='graph-path', steps=rp['steps']))
    ctx.extra['evaluations'] = 1
    for mm in rr['mismatches']:
        if mm['kind'] != 'drift':
            ctx.violation('replayed: %s want=%s got=%s' % (mm['what'], mm.get('want'), str(mm.get('got'))[:300]), rp)
            break


def run(ctx):
    drv = ctx.go_build('waiterd')
    state = dict(violations=0, spinning=[])

    # ---- E1: closed model, P-spec and I-spec in lockstep, all op sequences up to the bound
    for tag, kinds, n in ctx.pick([('a', K0, 6)], [('a', K0, 8), ('b', K1, 7)]):
        # (the vacuity guard - per-action coverage - runs on graph model `a` below: same module, same actions)
        ctx.tlc('MCWaiter', mc_cfg(kinds, ['in', 'out'], n), SPEC, name='MCWaiter-%s%d' % (tag, n), must_pass=True, timeout=3000)
    ctx.extra['exhaustive'] = True

    # ---- E2: every transition of the state graph replayed on the real Queue
    graphs = ctx.pick([('a', K0, ['in', 'out'], 4), ('b', K1, ['in'], 5)],
                      [('a', K0, ['in', 'out'], 5), ('b', K0, ['in'], 7), ('c', K1, ['in', 'out'], 5), ('d', K1, ['in'], 7)])
    for tag, kinds, events, n in graphs:
        graph_replay(ctx, drv, tag, kinds, events, n, state)
        if state['violations']:
            break
    g = state.get('graph', {})
    ctx.extra.update(g)
    if g.get('graph_edges'):
        ctx.extra['replayed_transition_fraction'] = round(g['edges_replayed'] / g['graph_edges'], 4)
    if not state['violations'] and not state['spinning'] and (g.get('callbacks', 0) == 0 or g.get('takes', 0) == 0):
        raise vlib.Inconclusive('vacuity: graph replay saw no callbacks / takes')

    # ---- E3: sequential histories (one goroutine, all six event bits, observation after every op)
    nseq = ctx.pick(30, 300)
    seqsegs, _, _ = histories(ctx, drv, 'seq', ctx.seed, nseq, 1, 24, state)
    ctx.extra['seq_histories'] = nseq

    # ---- E4: concurrent histories, linearized by TLC
    nrace = ctx.pick(64, 2000)
    segs, summ, rejected = histories(ctx, drv, 'race', ctx.seed, nrace, 4, 5, state)
    ctx.extra['race_histories'] = len(segs)
    ctx.extra['race_overlapping_histories'] = summ.get('overlapping')
    ctx.extra['race_callbacks'] = summ.get('callbacks')
    for s in segs:
        if any(e['ev'] == 'cb' for e in s):
            ctx.sample(dict(kind='race-history', events=s[:14]))
            break
    if not summ.get('stopped') and (not summ.get('overlapping') or not summ.get('callbacks')):
        raise vlib.Inconclusive('vacuity: no overlapping operations / no callbacks in the concurrent histories')

    if state['spinning'] and not state['violations']:
        raise vlib.Inconclusive('an operation of the sequential replay did not return (goroutine busy, not parked): %s' % (
            json.dumps(state['spinning'][0])[:1500]))
    if state['violations']:
        return

    # ---- vacuity guard on the trace spec (every action of TraceWaiter is exercised by real histories) and
    #      soundness self-test (hand-written legitimate histories must be accepted), one TLC run
    sample = [e for s in segs[:12] for e in s]
    ngood = len(sample)
    sample += [e for s in GOOD for e in s]
    rc = ctx.tlc('TraceWaiter', TCFG, SPEC, name='race-coverage', workers=1, dfs=True, coverage=True, count=False,
                 files={'trace.ndjson': '\n'.join(json.dumps(e) for e in sample) + '\n'})
    if not rc.ok:
        import re
        m = re.search(r'"REJECTED_AT", (\d+)', rc.out)
        if m and int(m.group(1)) > ngood:
            raise vlib.Inconclusive('soundness self-test: a legitimate hand-written history is rejected (trace line %s)' % m.group(1))
        raise vlib.Inconclusive('coverage run of TraceWaiter did not accept already accepted histories')
    z = ctx.zero_coverage(rc)
    if z or not rc.cov:
        raise vlib.Inconclusive('vacuity: TraceWaiter actions never taken on real histories: %s' % z)
    ctx.extra['soundness_selftest'] = '%d legitimate hand-written histories accepted' % len(GOOD)

    # ---- binding / soundness self-tests
    selftests(ctx, segs, rejected, seqsegs)
    ctx.assumptions += ['contract: an entry is registered only while unregistered and unregistered only while registered (each entry has one owning goroutine); callbacks do not call the queue',
                        'the event log is mutex-serialised: call logged before invoking, ret after return, cb from inside the callback',
                        'constants: 3 entries, masks over {in,out} for the exhaustive model; <= 4 goroutines x 5 ops per concurrent history']
