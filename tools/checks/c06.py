"""C06 - every frame the stack emits is well-formed, checksummed and correctly addressed.

Spec: spec/wire/Wire.tla (RFC-derived decoder + WellFormed, written over byte
sequences, independent of /repo/protocol/header and of harness/wire),
spec/wire/TraceWire.tla (P-spec as trace validator: WellFormed + IpIdFresh,
SrcByRoute, PortsRight, DstMac over the abstract host state rebuilt from the
logged configuration / socket events), spec/wire/WireVec.tla (hand-assembled
RFC example packets and corrupted variants: the decoder is not vacuous).
Binding: harness/wired drives real stacks (single hosts with injected traffic
and raw TCP peers, pairs of stacks joined by tapped wires, fd-based Ethernet
endpoints over socketpair(2)) and records every emitted frame byte for byte;
TLC is the decoder and the judge.

CAPTURE FORMAT (ndjson, one JSON object per line; other drivers may produce it
and call `validate_capture(ctx, path)`; addresses and MACs are lists of byte
values, an absent address is []):

  {"ev":"reset","state":BOOL}     starts an independent segment.  state=true promises that the
                                  configuration/socket events below are complete for the segment: then
                                  SrcByRoute, PortsRight and DstMac are judged too.  state=false (default):
                                  only WellFormed and IpIdFresh are judged (needs only nic + emit events).
  {"ev":"nic","host":H,"nic":N,"kind":"ip"|"eth","mac":[6]|[],"resolve":BOOL,"offload":BOOL}
                                  kind "ip": frames of this NIC are network-layer packets and carry their
                                  EtherType in `proto`; kind "eth": frames are whole Ethernet frames (proto 0).
                                  offload=true: checksum-offload/loopback link, transport checksums exempt.
                                  (a frame of an undeclared NIC is judged as kind "ip", no offload)
  {"ev":"addr","host":H,"nic":N,"addr":[4|16]}
  {"ev":"routes","host":H,"routes":[{"dst":[..],"mask":[..],"gw":[..]|[],"nic":N},...]}   whole ordered table
  {"ev":"neigh","host":H,"nic":N,"addr":[..],"mac":[6]}            static neighbour entry
  {"ev":"sock","host":H,"s":ID,"proto":6|17|1|58}
  {"ev":"bind","host":H,"s":ID,"nic":N|0,"addr":[..]|[],"port":P}  after a successful bind (P = port obtained)
  {"ev":"connect","host":H,"s":ID,"nic":N|0,"addr":[..],"port":P}  BEFORE the connect call
  {"ev":"sendto","host":H,"s":ID,"nic":N|0,"addr":[..],"port":P}   BEFORE a write with explicit destination
  {"ev":"local","host":H,"s":ID,"addr":[..]|[],"port":P}           local address/port the API reports afterwards
                                  (only fills in what is still unknown: ephemeral port, address chosen by connect)
  {"ev":"rx","host":H,"nic":N,"proto":ETHERTYPE|0,"raw":[bytes],"smac":[6]|[]}   frame delivered TO the host
  {"ev":"emit","host":H,"nic":N,"proto":ETHERTYPE|0,"raw":[bytes],"rmac":[6]|[]} frame EMITTED by the stack
                                  (rmac: link destination the stack asked for, "ip" NICs only)
  {"ev":"note",...}               ignored
Events must appear in causal order (an `rx` before the answers it triggers, an
`emit` when the frame leaves the stack).  Extra fields are ignored (harness/wired adds a
label `i` to emit events, used for coverage statistics only).  A file that does not start
with a `reset` event is taken as one segment with state=false, so the smallest useful
capture of another driver is just its `emit` events (plus a `nic` event for every NIC that
is an Ethernet or a checksum-offload link).

    import checks.c06 as c06
    res = c06.validate_capture(ctx, '/verif/.work/<run>/frames.ndjson', what='C01 capture')
    # -> dict(frames, segments, accepted_segments, tlc_wall_s, rejected=[dict(segment, event, clauses, frame(hex), ...)])
    # every rejected frame has already been reported through ctx.violation (report=False to do it yourself)
"""
import copy
import json
import os
import re
import time
import vlib
from vlib import cfg

MANIFEST = dict(
    technique='RFC-derived frame decoder written in TLA+ (Wire.tla) checked against hand-assembled example packets (TLC, ASSUME level); P-spec TraceWire validates byte-exact captures of every frame real stacks emit (trace validation: TLC decodes, checksums and judges each frame against the abstract host state rebuilt from logged API/config events)',
    text='harness/wired drives real stacks: single hosts (UDP writes of lengths 0..MTU and beyond from bound/connected/unbound sockets, v4/v6, several NICs/routes incl. gateway routes and two addresses per NIC; dual-stack IPv6 sockets to v4-mapped peers (UDP sendto/connected at the 16-bit limits of both families, TCP active and passive); dense payloads crafted so that the Internet checksum carries twice; echo replies; ARP request/reply; NDP solicit/advert; ping sockets; RST replies to strays; active opens answered by a raw peer with every MSS/WS/TS/SACK-permitted combination; listeners receiving SYNs with every combination; out-of-order data provoking 1-4 SACK blocks), PAIRS of real stacks joined by tapped wires (MTU 68..1500, IPv4/IPv6, data both ways, held-back frames forcing SACK, SYN options stripped in flight to get connections without timestamps/SACK, FIN both ways, gateway routes, real ARP/NDP resolution), next-hop scenarios (nothing pre-resolved, default route via a gateway, a responder on the wire answering ARP/NDP for the gateway and - proxy-ARP style - for every other address with a different MAC; UDP/TCP/ping to off-link destinations; the gateway then changes its MAC) and fd-based Ethernet endpoints over socketpair(2). Every emitted frame is recorded byte for byte; TLC decodes it with the TLA+ decoder and requires WellFormed (lengths, IPv4 header checksum, ICMP/UDP/TCP checksums with pseudo-header, strict TCP option walk), IpIdFresh, SrcByRoute, PortsRight and DstMac (link destination = the MAC most recently learnt for the next hop of the first matching route entry; ARP requests / neighbour solicitations only for next hops).',
    design='5 C06',
    note='Deviations from DESIGN C06: no separate Stack.tla (the abstract host state - nics, addrs, routes, neigh, socks - is rebuilt inside TraceWire from the logged events); WellFormed takes the EtherType (0 = Ethernet frame) instead of a link kind; ARP/NDP get their own instances of the addressing clauses (sender fields = NIC MAC / an address of the NIC, replies mirror the request, solicitation goes to the solicited-node address); frames of other checks arrive through validate_capture() instead of being aggregated here. Frames of checksum-offload links are exempt from transport-checksum clauses (as the code intends). SrcByRoute accepts any address of the NIC chosen by the first matching route entry (or the mirrored addresses of a packet being answered); the property does not say which of several addresses. NDP solicitations to a solicited-node multicast address may use the broadcast MAC (what the stack does) or the RFC 2464 multicast MAC. Forwarded packets are not driven. Frames are judged one by one: a frame that should have been emitted but was not is outside C06. PortsRight was strengthened in round 8 by NowRight: a datagram emitted while a write with an explicit destination is in progress (sendto .. wend events) goes to exactly that destination; judged on in-memory links without address resolution only (elsewhere the capture is asynchronous). Connected UDP sockets also write with explicit destinations (connected peer, other port).')

SPEC = ['wire']

# ------------------------------------------------------------------ topology of the sweeps
M11, M12 = '02:00:00:00:01:01', '02:00:00:00:01:02'
PEER1, GW1, PEER2, GW2 = '02:00:00:00:09:09', '02:00:00:00:09:fe', '02:00:00:00:0a:09', '02:00:00:00:0a:fe'
MASK24, MASK16, MASK0 = '255.255.255.0', '255.255.0.0', '0.0.0.0'
MASK64, MASK0_6 = 'ffff:ffff:ffff:ffff::', '::'


def single_host(rng, mtu=None, resolve=None, kind='ip', offload=False, sack=True):
    mtu = mtu or rng.choice([1500, 1500, 576, 296])
    resolve = rng.random() < 0.6 if resolve is None else resolve
    if kind == 'eth':
        resolve = True
    nics = [dict(id=1, mtu=mtu, mac=M11, kind=kind, resolve=resolve, offload=offload, addr4=['10.0.0.1', '10.0.0.2'], addr6=['fd00::1', 'fd00::2']),
            dict(id=2, mtu=mtu, mac=M12, kind=kind, resolve=resolve, offload=offload, addr4=['10.0.1.1', '10.0.1.3'], addr6=['fd01::1'])]
    routes = [dict(dst='10.0.0.0', mask=MASK24, gw='', nic=1), dict(dst='10.0.1.0', mask=MASK24, gw='', nic=2),
              dict(dst='10.9.0.0', mask=MASK16, gw='10.0.1.254', nic=2), dict(dst='0.0.0.0', mask=MASK0, gw='10.0.0.254', nic=1),
              dict(dst='fd00::', mask=MASK64, gw='', nic=1), dict(dst='fd01::', mask=MASK64, gw='', nic=2),
              dict(dst='::', mask=MASK0_6, gw='fd00::fe', nic=1)]
    neigh = []
    if resolve:
        neigh = [dict(nic=1, addr='10.0.0.9', mac=PEER1), dict(nic=1, addr='10.0.0.254', mac=GW1),
                 dict(nic=1, addr='fd00::9', mac=PEER1), dict(nic=1, addr='fd00::fe', mac=GW1),
                 dict(nic=2, addr='10.0.1.9', mac=PEER2), dict(nic=2, addr='10.0.1.254', mac=GW2), dict(nic=2, addr='fd01::9', mac=PEER2)]
    return dict(id=1, nics=nics, routes=routes, neigh=neigh, sack=sack)


# peers the driver impersonates: (address, nic it is reached through, source MAC of its frames, the stack's primary address there)
PEERS4 = [('10.0.0.9', 1, PEER1, '10.0.0.1'), ('172.16.5.5', 1, GW1, '10.0.0.1'), ('10.0.1.9', 2, PEER2, '10.0.1.1'), ('10.9.3.3', 2, GW2, '10.0.1.1')]
PEERS6 = [('fd00::9', 1, PEER1, 'fd00::1'), ('2001:db8::5', 1, GW1, 'fd00::1'), ('fd01::9', 2, PEER2, 'fd01::1')]
OWN4 = {1: ['10.0.0.1', '10.0.0.2'], 2: ['10.0.1.1', '10.0.1.3']}
OWN6 = {1: ['fd00::1', 'fd00::2'], 2: ['fd01::1']}


def lens_upto(rng, top, k):
    base = [0, 1, 2, 3, 4, 5, 7, 8, 9, 15, 16, 17, 31, 32, 33, 63, 64, 65, 127, 128, 129, 255, 256, 257, 511, 512, 513, 1023, 1024, 1025]
    c = [x for x in base if x <= top] + [top, top - 1, top - 2, top - 3]
    out = [rng.choice(c) if rng.random() < 0.7 else rng.randrange(0, top + 1) for _ in range(k)]
    return [x for x in out if x >= 0]


def fam_udp(rng, thorough):
    h = single_host(rng)
    mtu = h['nics'][0]['mtu']
    ops = []
    sid = 0
    for k in range(rng.choice([2, 3])):
        v = (4, 6)[k] if k < 2 else rng.choice([4, 6])
        peers = PEERS4 if v == 4 else PEERS6
        hdr = 28 if v == 4 else 48
        sid += 1
        mode = rng.choice(['bound', 'boundaddr', 'conn', 'unbound', 'boundnic', 'boundconn'])
        ops.append(dict(op='sock', s=sid, proto='udp', v=v))
        port = rng.choice([5000, 53, 65535, 1024]) + sid
        if mode in ('bound', 'boundconn'):
            ops.append(dict(op='bind', s=sid, addr='', port=port))
            cands = peers
        elif mode == 'boundaddr':
            nic = rng.choice([1, 2])
            a = rng.choice((OWN4 if v == 4 else OWN6)[nic])
            ops.append(dict(op='bind', s=sid, addr=a, port=port))
            cands = [p for p in peers if p[1] == nic]
        elif mode == 'boundnic':
            nic = rng.choice([1, 2])
            ops.append(dict(op='bind', s=sid, nic=nic, addr='', port=port))
            cands = [p for p in peers if p[1] == nic]
        else:
            cands = peers
        sizes = [0, 1, 2, 3] + lens_upto(rng, mtu - hdr, rng.choice([2, 4, 6])) + [mtu - hdr - 1, mtu - hdr]
        if rng.random() < 0.3:
            sizes.append(mtu - hdr + rng.choice([1, 2, 100]))           # beyond the MTU: the stack does not fragment
        if thorough and rng.random() < 0.1:
            sizes.append(rng.choice([4000, 9001]))
        if mode in ('conn', 'boundconn'):
            p = rng.choice(cands)
            cport = rng.choice([7, 9, 65535])
            ops.append(dict(op='connect', s=sid, addr=p[0], port=cport))
            for n in sizes:
                w = dict(op='write', s=sid, n=n, seed=rng.randrange(1 << 24))
                if rng.random() < 0.35:
                    # a connected socket may still name a destination per datagram (here: the connected peer's address, another
                    # port or the same one): the datagram goes where THIS write says
                    q = p
                    w['to'] = dict(addr=q[0], port=rng.choice([x for x in (7, 9, 65535, 8) if x != cport] + [cport]))
                ops.append(w)
        else:
            for n in sizes:
                p = rng.choice(cands)
                ops.append(dict(op='write', s=sid, n=n, seed=rng.randrange(1 << 24), to=dict(addr=p[0], port=rng.choice([7, 9, 65535]))))
    return dict(name='udp', hosts=[h], ops=ops)


def fam_echo(rng, thorough):
    h = single_host(rng)
    mtu = h['nics'][0]['mtu']
    ops = []
    for j in range(rng.choice([6, 8])):
        v = (4, 4, 6, 6)[j] if j < 4 else rng.choice([4, 6])
        p = rng.choice(PEERS4 if v == 4 else PEERS6)
        dst = rng.choice((OWN4 if v == 4 else OWN6)[p[1]])
        n = lens_upto(rng, mtu - (28 if v == 4 else 48), 1)[0]
        if j < 4:
            n = n - n % 2 + j % 2                      # odd and even for sure
            if n > mtu - (28 if v == 4 else 48):
                n -= 2
        ops.append(dict(op='inject', nic=p[1], kind='echo', src=p[0], dst=dst, smac=p[2], ident=rng.choice([0, 1, 255, 256, 65535, rng.randrange(65536)]),
                        seq=rng.randrange(65536), n=n, seed=rng.randrange(1 << 24)))
        if j % 4 == 3:
            ops.append(dict(op='settle', ms=5))
    # ping sockets: echo requests originated by the stack
    for v, proto in ((4, 'ping4'), (6, 'ping6')):
        if True:
            p = rng.choice(PEERS4 if v == 4 else PEERS6)
            sid = 10 + v
            ops.append(dict(op='sock', s=sid, proto=proto, v=v))
            if rng.random() < 0.5:
                ops.append(dict(op='bind', s=sid, addr='', port=rng.choice([1, 77, 65535])))
            for n in lens_upto(rng, 300, 2):
                ops.append(dict(op='write', s=sid, n=n, seq=rng.randrange(65536), seed=rng.randrange(1 << 24), to=dict(addr=p[0], port=0)))
    ops.append(dict(op='settle', ms=10))
    return dict(name='echo', hosts=[h], ops=ops)


def fam_resolve(rng, thorough, kind='ip'):
    """ARP request/reply, NDP solicit/advert; unresolved neighbours answered by the driver."""
    h = single_host(rng, resolve=True, kind=kind)
    ops = []
    # requests for our addresses -> replies / adverts
    for _ in range(rng.choice([2, 3])):
        nic = rng.choice([1, 2])
        who = ('10.0.0.9', PEER1) if nic == 1 else ('10.0.1.9', PEER2)
        ops.append(dict(op='inject', nic=nic, kind='arp', arpop=1, sha=who[1], spa=who[0], tpa=rng.choice(OWN4[nic]), smac=who[1]))
    for _ in range(rng.choice([1, 2])):
        nic = rng.choice([1, 2])
        who = ('fd00::9', PEER1) if nic == 1 else ('fd01::9', PEER2)
        ops.append(dict(op='inject', nic=nic, kind='ns', src=who[0], target=rng.choice(OWN6[nic]), smac=who[1]))
    # unresolved neighbours: the write triggers a request; the driver answers; the datagram follows
    newmac = '02:00:00:00:07:%02x' % rng.randrange(256)
    ops.append(dict(op='sock', s=1, proto='udp', v=4))
    ops.append(dict(op='bind', s=1, addr='', port=4000))
    tgt = '10.0.0.%d' % rng.randrange(20, 250)
    ops.append(dict(op='write', s=1, n=rng.choice([0, 1, 9, 100]), seed=1, to=dict(addr=tgt, port=7),
                    answer=dict(nic=1, kind='arp', arpop=2, sha=newmac, spa=tgt, tha=M11, tpa='10.0.0.1', smac=newmac)))
    ops.append(dict(op='write', s=1, n=rng.choice([2, 33]), seed=2, to=dict(addr=tgt, port=7)))
    ops.append(dict(op='sock', s=2, proto='udp', v=6))
    tgt6 = 'fd00::%x' % rng.randrange(0x20, 0xf0)
    ops.append(dict(op='write', s=2, n=rng.choice([0, 1, 9, 100]), seed=3, to=dict(addr=tgt6, port=7),
                    answer=dict(nic=1, kind='na', src=tgt6, dst='fd00::1', target=tgt6, smac=newmac)))
    ops.append(dict(op='write', s=2, n=rng.choice([2, 33]), seed=4, to=dict(addr=tgt6, port=7)))
    ops.append(dict(op='settle', ms=10))
    return dict(name='resolve-' + kind, hosts=[h], ops=ops)


def fam_rst(rng, thorough):
    h = single_host(rng)
    ops = []
    for j in range(rng.choice([6, 10])):
        v = (4, 6)[j] if j < 2 else rng.choice([4, 4, 6])
        p = rng.choice(PEERS4 if v == 4 else PEERS6)
        dst = rng.choice((OWN4 if v == 4 else OWN6)[p[1]])
        fl = rng.choice(['S', 'A', 'PA', 'F', 'FA', 'SA', 'A'])
        ops.append(dict(op='inject', nic=p[1], kind='tcp', src=p[0], dst=dst, smac=p[2], sport=rng.choice([1, 1025, 40000, 65535]),
                        dport=rng.choice([1, 80, 8080, 65535]), flags=fl, seqhi=rng.randrange(65536), seqlo=rng.randrange(65536),
                        ackhi=rng.randrange(65536), acklo=rng.randrange(65536), n=rng.choice([0, 0, 1, 2, 33, 100]) if 'S' not in fl else 0,
                        seed=rng.randrange(1 << 24), opts=dict(mss=1460, ts=True, tsval=5) if fl == 'S' and rng.random() < 0.5 else None))
    ops.append(dict(op='settle', ms=10))
    return dict(name='rst', hosts=[h], ops=ops)


def syn_combo(rng, i):
    o = {}
    if i & 1:
        o['mss'] = rng.choice([536, 1460, 100, 65535, 1])
    if i & 2:
        o['ws'] = rng.choice([0, 1, 7, 14])
    if i & 4:
        o['sackperm'] = True
    if i & 8:
        o['ts'] = True
        o['tsval'] = rng.randrange(1, 1 << 30)
    return o


def ooo_ops(rng, pid, blocks):
    """out-of-order data from the raw peer: `blocks` disjoint islands, then the holes are filled."""
    ops = []
    gap = 10
    isl = [(100 * (i + 1), gap) for i in range(blocks)]
    order = list(isl)
    rng.shuffle(order)
    for off, n in order:
        ops.append(dict(op='rdata', p=pid, off=off, n=n, seed=off))
    ops.append(dict(op='settle', ms=3))
    ops.append(dict(op='rdata', p=pid, off=0, n=100, seed=0))
    for i in range(blocks - 1):
        ops.append(dict(op='rdata', p=pid, off=100 * (i + 1) + gap, n=100 - gap, seed=i))
    ops.append(dict(op='rdata', p=pid, off=100 * blocks + gap, n=1, seed=9, adv=True))
    return ops


def tcp_sizes(rng, eff, k):
    """payload lengths around the effective per-segment payload `eff` (at most ~8 segments each)"""
    c = [1, 2, 3, 4, 5, 7, 8, 63, 64, 65, eff - 2, eff - 1, eff, eff + 1, eff + 2, 2 * eff, 2 * eff + 1, 3 * eff + 5]
    c = [x for x in c if 0 < x <= max(8 * eff, 8)]
    return [rng.choice(c) for _ in range(k)]


def eff_payload(mtu, v, combo):
    """payload bytes per data segment: route MSS capped by the peer's MSS option (536 when absent), minus timestamps"""
    mss = min(mtu - (40 if v == 4 else 60), combo.get('mss', 536))
    return max(1, mss - (12 if combo.get('ts') else 0))


def fam_tcp_passive(rng, thorough, combos, sack=True):
    h = single_host(rng, sack=sack)
    mtu = h['nics'][0]['mtu']
    ops = []
    pid = 0
    for ci in combos:
        v = (4, 6)[pid] if pid < 2 else rng.choice([4, 4, 6])
        p = rng.choice(PEERS4 if v == 4 else PEERS6)
        own = rng.choice((OWN4 if v == 4 else OWN6)[p[1]])
        pid += 1
        ls, cs = 100 + pid, 200 + pid
        port = 80 + pid
        ops.append(dict(op='sock', s=ls, proto='tcp', v=v))
        ops.append(dict(op='bind', s=ls, addr=rng.choice(['', own]), port=port))
        ops.append(dict(op='listen', s=ls))
        ops.append(dict(op='rpeer', p=pid, nic=p[1], src=p[0], sport=rng.choice([1024, 40000, 65535]) - pid, dst=own, dport=port, smac=p[2],
                        isn=rng.randrange(1 << 31), autoack=True))
        combo = syn_combo(rng, ci)
        ops.append(dict(op='rsyn', p=pid, opts=combo))
        ops.append(dict(op='rack', p=pid))
        ops.append(dict(op='accept', s=ls, **{'as': cs}))
        total = 0
        for n in [1, 2] + tcp_sizes(rng, eff_payload(mtu, v, combo), rng.choice([2, 3])):
            ops.append(dict(op='write', s=cs, n=n, seed=rng.randrange(1 << 24)))
            total += n
            ops.append(dict(op='rwait', p=pid, bytes=total))
        nblk = 4 if ci & 4 else rng.choice([1, 2])
        ops += ooo_ops(rng, pid, nblk)
        ops.append(dict(op='read', s=cs, n=100 * nblk + 11, ms=1000))      # drain: a close with unread data resets instead of FIN
        ops.append(dict(op='settle', ms=3))
        if rng.random() < 0.5:
            ops.append(dict(op='rfin', p=pid))
            ops.append(dict(op='settle', ms=3))
            ops.append(dict(op='close', s=cs))
        else:
            ops.append(dict(op='close', s=cs))
            ops.append(dict(op='settle', ms=3))
            ops.append(dict(op='rfin', p=pid))
        ops.append(dict(op='close', s=ls))
    ops.append(dict(op='settle', ms=10))
    return dict(name='tcp-passive', hosts=[h], ops=ops)


def fam_tcp_active(rng, thorough, combos, sack=True):
    h = single_host(rng, sack=sack)
    mtu = h['nics'][0]['mtu']
    ops = []
    pid = 0
    for ci in combos:
        v = (4, 6)[pid] if pid < 2 else rng.choice([4, 4, 6])
        p = rng.choice(PEERS4 if v == 4 else PEERS6)
        pid += 1
        cs = 300 + pid
        ops.append(dict(op='sock', s=cs, proto='tcp', v=v))
        local = p[3]
        mode = rng.choice(['unbound', 'boundaddr', 'boundport'])
        if mode == 'boundaddr':
            local = rng.choice((OWN4 if v == 4 else OWN6)[p[1]])
            ops.append(dict(op='bind', s=cs, addr=local, port=rng.choice([0, 30000 + pid])))
        elif mode == 'boundport':
            ops.append(dict(op='bind', s=cs, addr='', port=31000 + pid))
        rport = rng.choice([80, 8080, 65535]) - pid
        ops.append(dict(op='rpeer', p=pid, nic=p[1], src=p[0], sport=rport, dst=local, dport=0, smac=p[2], isn=rng.randrange(1 << 31), autoack=True))
        ops.append(dict(op='connect', s=cs, addr=p[0], port=rport))
        combo = syn_combo(rng, ci)
        ops.append(dict(op='rsynack', p=pid, opts=combo))
        ops.append(dict(op='connect_wait', s=cs))
        total = 0
        for n in [1, 2] + tcp_sizes(rng, eff_payload(mtu, v, combo), rng.choice([2, 3])):
            ops.append(dict(op='write', s=cs, n=n, seed=rng.randrange(1 << 24)))
            total += n
            ops.append(dict(op='rwait', p=pid, bytes=total))
        nblk = 4 if ci & 4 else rng.choice([1, 2])
        ops += ooo_ops(rng, pid, nblk)
        ops.append(dict(op='read', s=cs, n=100 * nblk + 11, ms=1000))      # drain: a close with unread data resets instead of FIN
        ops.append(dict(op='settle', ms=3))
        if rng.random() < 0.5:
            ops.append(dict(op='shutdown', s=cs))
            ops.append(dict(op='settle', ms=3))
            ops.append(dict(op='rfin', p=pid))
        else:
            ops.append(dict(op='rfin', p=pid))
            ops.append(dict(op='settle', ms=3))
        ops.append(dict(op='close', s=cs))
    ops.append(dict(op='settle', ms=10))
    return dict(name='tcp-active', hosts=[h], ops=ops)


def fam_offload(rng, thorough):
    """checksum-offload (loopback-like) link: transport checksums are the link's business."""
    h = single_host(rng, offload=True, resolve=False)
    ops = [dict(op='sock', s=1, proto='udp', v=4), dict(op='sock', s=2, proto='udp', v=6), dict(op='sock', s=3, proto='tcp', v=4)]
    for n in lens_upto(rng, 400, 3):
        ops.append(dict(op='write', s=1, n=n, seed=n, to=dict(addr='10.0.0.9', port=7)))
        ops.append(dict(op='write', s=2, n=n, seed=n, to=dict(addr='fd00::9', port=7)))
    ops.append(dict(op='connect', s=3, addr='10.0.0.9', port=80))
    ops.append(dict(op='inject', nic=1, kind='tcp', src='10.0.0.9', dst='10.0.0.1', sport=5, dport=6, flags='S', seqhi=1, seqlo=2, n=0))
    ops.append(dict(op='inject', nic=1, kind='echo', src='10.0.0.9', dst='10.0.0.1', ident=3, seq=4, n=rng.choice([0, 1, 56, 57])))
    ops.append(dict(op='settle', ms=10))
    return dict(name='offload', hosts=[h], ops=ops)


# ------------------------------------------------------------------ pairs of real stacks
MA, MB = '02:00:00:00:aa:01', '02:00:00:00:bb:01'


def fam_pair(rng, thorough, kind=None, v=None, mtu=None):
    kind = kind or rng.choice(['ip', 'ip', 'eth'])
    v = v or rng.choice([4, 4, 6])
    mtu = mtu or (rng.choice([68, 100, 576, 1500]) if v == 4 else rng.choice([576, 1280, 1500]))
    resolve = True if kind == 'eth' else rng.random() < 0.6
    static = resolve and rng.random() < 0.4
    via_gw = v == 4 and rng.random() < 0.35
    a = dict(id=1, sack=True, nics=[dict(id=1, mtu=mtu, mac=MA, kind=kind, resolve=resolve, addr4=['10.0.0.1', '10.0.0.3'], addr6=['fd00::1', 'fd00::3'])],
             routes=[dict(dst='10.0.0.0', mask=MASK24, gw='', nic=1), dict(dst='0.0.0.0', mask=MASK0, gw='10.0.0.254', nic=1),
                     dict(dst='fd00::', mask=MASK64, gw='', nic=1)], neigh=[])
    b = dict(id=2, sack=True, nics=[dict(id=1, mtu=mtu, mac=MB, kind=kind, resolve=resolve, addr4=['10.0.0.2', '10.0.0.254', '10.0.5.2'], addr6=['fd00::2'])],
             routes=[dict(dst='10.0.0.0', mask=MASK24, gw='', nic=1), dict(dst='fd00::', mask=MASK64, gw='', nic=1)], neigh=[])
    if static:
        a['neigh'] = [dict(nic=1, addr=x, mac=MB) for x in ('10.0.0.2', '10.0.0.254', 'fd00::2')]
        b['neigh'] = [dict(nic=1, addr=x, mac=MA) for x in ('10.0.0.1', '10.0.0.3', 'fd00::1', 'fd00::3')]
    mss = mtu - (40 if v == 4 else 60)
    wire_ = dict(a=[1, 1], b=[2, 1])
    flavour = rng.choice(['plain', 'plain', 'nots', 'nosack', 'hold', 'hold', 'holdnots'])
    if flavour in ('nots', 'holdnots'):
        wire_['stripts'] = True
    if flavour == 'nosack':
        wire_['stripsack'] = True
    big = 0
    if flavour in ('hold', 'holdnots'):
        wire_['hold'] = sorted(rng.sample([2, 3, 4, 5, 6, 7], rng.choice([1, 2, 3])))
        if rng.random() < 0.5:
            wire_['holdba'] = sorted(rng.sample([2, 3, 4, 5, 6], rng.choice([1, 2])))
        wire_['holdms'] = rng.choice([8, 15, 30])
        big = 9
    srv = ('10.0.5.2' if via_gw else '10.0.0.2') if v == 4 else 'fd00::2'
    ops = [dict(h=2, op='sock', s=1, proto='tcp', v=v), dict(h=2, op='bind', s=1, addr=rng.choice(['', srv]), port=80), dict(h=2, op='listen', s=1),
           dict(h=1, op='sock', s=1, proto='tcp', v=v)]
    if rng.random() < 0.4:
        ops.append(dict(h=1, op='bind', s=1, addr='10.0.0.3' if v == 4 else 'fd00::3', port=rng.choice([0, 33000])))
    ops += [dict(h=1, op='connect', s=1, addr=srv, port=80, wait=True), dict(h=2, op='accept', s=1, **{'as': 2})]
    eff = max(1, mss - (0 if 'stripts' in wire_ else 12))      # payload per data segment
    if mtu <= 100:
        eff = 1                                                 # the sender reserves room for SACK blocks: 1-byte segments
    sizes = [1, 2, 3] + tcp_sizes(rng, eff, rng.choice([2, 4]))
    rng.shuffle(sizes)
    cap = 8 * eff
    for n in sizes:
        ops.append(dict(h=1, op='write', s=1, n=n, seed=rng.randrange(1 << 24)))
        ops.append(dict(h=2, op='read', s=2, n=n))
    if big:
        n = big * eff + rng.choice([0, 1, 2])
        ops.append(dict(h=1, op='write', s=1, n=n, seed=rng.randrange(1 << 24)))
        ops.append(dict(h=2, op='read', s=2, n=n))
    for n in [1, 2] + tcp_sizes(rng, eff, 2):
        ops.append(dict(h=2, op='write', s=2, n=n, seed=rng.randrange(1 << 24)))
        ops.append(dict(h=1, op='read', s=1, n=n))
    if big and 'holdba' in wire_:
        n = big * eff + 1
        ops.append(dict(h=2, op='write', s=2, n=n, seed=rng.randrange(1 << 24)))
        ops.append(dict(h=1, op='read', s=1, n=n))
    if rng.random() < 0.5:
        ops += [dict(h=1, op='shutdown', s=1), dict(h=2, op='read', s=2, n=1, ms=500), dict(h=2, op='close', s=2), dict(h=1, op='read', s=1, n=1, ms=500), dict(h=1, op='close', s=1)]
    else:
        ops += [dict(h=2, op='shutdown', s=2), dict(h=1, op='read', s=1, n=1, ms=500), dict(h=1, op='close', s=1), dict(h=2, op='read', s=2, n=1, ms=500), dict(h=2, op='close', s=2)]
    ops.append(dict(op='settle', ms=10))
    return dict(name='pair-%s-v%d-mtu%d-%s%s' % (kind, v, mtu, flavour, '-gw' if via_gw else ''), hosts=[a, b], wires=[wire_], ops=ops)


def fam_eth_single(rng, thorough):
    """single host behind an fd-based Ethernet endpoint: UDP, echo, RST, ARP with Ethernet framing."""
    h = single_host(rng, kind='eth', mtu=rng.choice([1500, 576]))
    ops = [dict(op='sock', s=1, proto='udp', v=4), dict(op='bind', s=1, addr='', port=6000), dict(op='sock', s=2, proto='udp', v=6)]
    for n in lens_upto(rng, 1000, 4):
        p = rng.choice(PEERS4)
        ops.append(dict(op='write', s=1, n=n, seed=n, to=dict(addr=p[0], port=7)))
        p = rng.choice(PEERS6)
        ops.append(dict(op='write', s=2, n=n, seed=n, to=dict(addr=p[0], port=7)))
    for j in range(4):
        v = (4, 6)[j % 2]
        p = rng.choice(PEERS4 if v == 4 else PEERS6)
        dst = rng.choice((OWN4 if v == 4 else OWN6)[p[1]])
        ops.append(dict(op='inject', nic=p[1], kind='echo', src=p[0], dst=dst, smac=p[2], ident=rng.randrange(65536), seq=rng.randrange(65536),
                        n=rng.choice([0, 1, 2, 55, 56, 57, 300, 301]), seed=7))
        ops.append(dict(op='inject', nic=p[1], kind='tcp', src=p[0], dst=dst, smac=p[2], sport=999, dport=rng.choice([1, 81]), flags=rng.choice(['S', 'A', 'PA']),
                        seqhi=1, seqlo=1, ackhi=2, acklo=2, n=0))
    # MULTI-VIEW payloads: the fd-based endpoint reads a frame into views of 128, 256, 512, 1024... bytes, and an
    # ICMPv6 echo reply carries the request's views as its payload: requests whose frame spills into the 2nd, 3rd
    # and 4th view (62 + n bytes) must come back whole (ICMPv4 flattens, sent alongside for symmetry)
    mtu = h['nics'][0]['mtu']
    for n in [67, rng.choice([68, 200, 301]), 323, rng.choice([400, 513]), min(835, mtu - 48), mtu - 48 - rng.choice([0, 1])]:
        ops.append(dict(op='inject', nic=1, kind='echo', src='fd00::9', dst=rng.choice(OWN6[1]), smac=PEER1, ident=rng.randrange(65536), seq=n, n=n, seed=n))
    for n in [87, 343, mtu - 28]:
        ops.append(dict(op='inject', nic=1, kind='echo', src='10.0.0.9', dst=rng.choice(OWN4[1]), smac=PEER1, ident=rng.randrange(65536), seq=n, n=n, seed=n))
    ops.append(dict(op='inject', nic=1, kind='arp', arpop=1, sha=PEER1, spa='10.0.0.9', tpa='10.0.0.2', smac=PEER1))
    ops.append(dict(op='inject', nic=1, kind='ns', src='fd00::9', target='fd00::1', smac=PEER1))
    ops.append(dict(op='settle', ms=15))
    return dict(name='eth-single', hosts=[h], ops=ops)


GWM, HOSTM, PROXYM, GWM2 = '02:00:00:00:0c:01', '02:00:00:00:0c:07', '02:00:00:00:0c:ee', '02:00:00:00:0c:02'


def fam_gateway(rng, thorough, kind='ip'):
    """Next-hop resolution: one resolving NIC, [subnet on-link, default via a gateway] for v4 and v6, nothing
    pre-resolved.  A responder on the wire answers ARP/NDP for the gateway and an on-link host with their MACs
    and (proxy-ARP style) for ANY other address with a third MAC.  Locally originated traffic to OFF-link
    destinations must be resolved through, and addressed to, the gateway; then the gateway changes its MAC."""
    mtu = rng.choice([1500, 576])
    table = {'10.0.0.1': GWM, '10.0.0.7': HOSTM, 'fd00::1': GWM, 'fd00::7': HOSTM}
    nic = dict(id=1, mtu=mtu, mac=M11, kind=kind, resolve=True, addr4=['10.0.0.2', '10.0.0.3'], addr6=['fd00::2'],
               responder=dict(table=table, proxy=PROXYM))
    h = dict(id=1, sack=True, nics=[nic], neigh=[],
             routes=[dict(dst='10.0.0.0', mask=MASK24, gw='', nic=1), dict(dst='0.0.0.0', mask=MASK0, gw='10.0.0.1', nic=1),
                     dict(dst='fd00::', mask=MASK64, gw='', nic=1), dict(dst='::', mask=MASK0_6, gw='fd00::1', nic=1)])
    far4 = ['192.0.2.9', '198.51.100.%d' % rng.randrange(1, 250), '10.0.9.9']
    far6 = ['2001:db8::9', '2001:db8:1::%x' % rng.randrange(1, 0xfff)]
    ops = []
    order = ['udp4', 'udp6', 'tcp4', 'tcp6', 'ping4', 'ping6', 'conn4']
    rng.shuffle(order)
    sid = 0
    for what in order:
        sid += 1
        v = 6 if what.endswith('6') else 4
        far, near = (far6, 'fd00::7') if v == 6 else (far4, '10.0.0.7')
        if what.startswith('udp'):
            ops.append(dict(op='sock', s=sid, proto='udp', v=v))
            ops.append(dict(op='bind', s=sid, addr='', port=4000 + sid))
            for d in [rng.choice(far), near, rng.choice(far)]:
                ops.append(dict(op='write', s=sid, n=rng.choice([0, 1, 2, 33, 100]), seed=sid, to=dict(addr=d, port=7)))
        elif what == 'conn4':
            ops.append(dict(op='sock', s=sid, proto='udp', v=4))
            ops.append(dict(op='connect', s=sid, addr=rng.choice(far4), port=9))
            ops.append(dict(op='write', s=sid, n=rng.choice([1, 64]), seed=sid))
        elif what.startswith('ping'):
            ops.append(dict(op='sock', s=sid, proto=what, v=v))
            ops.append(dict(op='write', s=sid, n=rng.choice([0, 1, 56]), seq=sid, seed=sid, to=dict(addr=rng.choice(far), port=0)))
        else:
            d = rng.choice(far)
            ops.append(dict(op='sock', s=sid, proto='tcp', v=v))
            ops.append(dict(op='rpeer', p=sid, nic=1, src=d, sport=80, dst='fd00::2' if v == 6 else '10.0.0.2', dport=0, smac=GWM, isn=rng.randrange(1 << 31), autoack=True))
            ops.append(dict(op='connect', s=sid, addr=d, port=80))
            ops.append(dict(op='rsynack', p=sid, opts=syn_combo(rng, 15)))
            ops.append(dict(op='connect_wait', s=sid))
            ops.append(dict(op='write', s=sid, n=rng.choice([1, 2, 100]), seed=sid))
            ops.append(dict(op='rwait', p=sid, bytes=1))
            ops.append(dict(op='close', s=sid))
        ops.append(dict(op='settle', ms=3))
    if kind == 'ip':
        # the gateway announces a new MAC (gratuitous ARP reply / unsolicited advertisement): the most recent claim counts
        ops.append(dict(op='inject', nic=1, kind='arp', arpop=2, sha=GWM2, spa='10.0.0.1', tha=M11, tpa='10.0.0.2', smac=GWM2))
        ops.append(dict(op='inject', nic=1, kind='na', src='fd00::1', dst='fd00::2', target='fd00::1', smac=GWM2))
        sid += 1
        ops.append(dict(op='sock', s=sid, proto='udp', v=4))
        ops.append(dict(op='write', s=sid, n=5, seed=1, to=dict(addr=rng.choice(far4), port=7)))
        sid += 1
        ops.append(dict(op='sock', s=sid, proto='udp', v=6))
        ops.append(dict(op='write', s=sid, n=6, seed=2, to=dict(addr=rng.choice(far6), port=7)))
    ops.append(dict(op='settle', ms=10))
    return dict(name='gateway-' + kind, hosts=[h], ops=ops)


# ------------------------------------------------------------------ payloads that make the Internet checksum carry twice
def _ws(b):
    """plain sum of the big-endian 16-bit words of b (odd byte padded on the right)"""
    b = list(b)
    if len(b) % 2:
        b.append(0)
    return sum(b[i] * 256 + b[i + 1] for i in range(0, len(b), 2))


def _fold(v):
    while v >> 16:
        v = (v & 0xffff) + (v >> 16)
    return v


def _abytes(a):
    import ipaddress
    return list(ipaddress.ip_address(a).packed)


def _pseudo_init(src, dst, proto, length=None):
    """16-bit sum an implementation carries into the payload when it sums pseudo-header first
    (length only where the implementation adds it before the payload: ICMPv6)"""
    x = _fold(_ws(_abytes(src)))
    x = _fold(x + _ws(_abytes(dst)))
    x = _fold(x + proto)
    if length is not None:
        x = _fold(x + length)
    return x


DENSE = [0xff, 0xff, 0xfe, 0xfd] + list(range(0x80, 0x100))


def dense(rng, n):
    return [rng.choice(DENSE) if rng.random() < 0.5 else rng.choice([0xff, 0xfe, 0xfd]) for _ in range(n)]


def carry_payloads(rng, n, init):
    """Dense payloads of n bytes whose running 32-bit sum (starting from `init`) ends with
    low16 + high16 in 0xffff+1 .. 0xffff+H: exactly where an implementation that folds the carries
    only once loses the end-around carry.  The last full 16-bit word is solved for; variants sit
    at both ends and in the middle of the window, plus one just outside."""
    out = []
    body = dense(rng, n)
    pos = (n // 2 - 1) * 2                       # offset of the last full word
    rest = body[:pos] + body[pos + 2:]
    base = init + _ws(body[:pos] + [0, 0] + body[pos + 2:])
    hs, ls = divmod(base, 65536)
    for k in sorted(set([0, 1, hs // 2, max(hs - 1, 0), hs])):   # k = hs is just outside the window
        w = 65535 - ls - k
        if 0 <= w <= 65535:
            b = list(body)
            b[pos], b[pos + 1] = w >> 8, w & 255
            out.append(b)
    return out


DN4, DP4 = '223.254.253.252', '223.255.254.253'
DN6, DP6 = 'fdff:ffff:ffff:ffff:ffff:ffff:ffff:fffe', 'fdff:ffff:ffff:ffff:ffff:ffff:fffe:fffd'


def fam_dense(rng, thorough):
    """Checksum carry family: high-valued addresses and ports, long payloads of 0xff/0xfe-heavy bytes, and
    payloads crafted so that the sum carries twice, through every checksum path the stack has: UDP v4/v6
    (MTU-sized and beyond), TCP segments v4/v6, echo replies v4/v6 and ping sockets v4/v6."""
    mtu = 1500
    nic = dict(id=1, mtu=mtu, mac=M11, kind='ip', resolve=False, addr4=[DN4], addr6=[DN6])
    h = dict(id=1, sack=True, nics=[nic], neigh=[], routes=[dict(dst='0.0.0.0', mask=MASK0, gw='', nic=1), dict(dst='::', mask=MASK0_6, gw='', nic=1)])
    ops = []
    # UDP: the implementation sums pseudo-header (without length), then the payload
    for v, sid, src, dst, proto_hdr in ((4, 1, DN4, DP4, 28), (6, 2, DN6, DP6, 48)):
        ops.append(dict(op='sock', s=sid, proto='udp', v=v))
        ops.append(dict(op='bind', s=sid, addr='', port=65535 - v))
        init = _pseudo_init(src, dst, 17)
        for n in [mtu - proto_hdr, rng.choice([1000, 1001, 513]), rng.choice([3000, 4001]), rng.choice([64, 65, 200])]:
            for b in carry_payloads(rng, n, init)[:4 if n < 2000 else 2]:
                ops.append(dict(op='write', s=sid, n=n, data=b, to=dict(addr=dst, port=65534)))
        for _ in range(3):
            n = rng.choice([mtu - proto_hdr, mtu - proto_hdr - 1, 1200])
            ops.append(dict(op='write', s=sid, n=n, data=dense(rng, n), to=dict(addr=dst, port=65534)))
    # echo replies: ICMPv4 sums the data alone; ICMPv6 sums pseudo-header with length and next header first
    for n in [mtu - 28, rng.choice([600, 601])]:
        for b in carry_payloads(rng, n, 0)[:3]:
            ops.append(dict(op='inject', nic=1, kind='echo', src=DP4, dst=DN4, ident=0xfffe, seq=0xfffd, n=n, data=b))
        ops.append(dict(op='settle', ms=3))
    for n in [mtu - 48, rng.choice([600, 601])]:
        for b in carry_payloads(rng, n, _pseudo_init(DN6, DP6, 58, 8 + n))[:3]:
            ops.append(dict(op='inject', nic=1, kind='echo', src=DP6, dst=DN6, ident=0xfffe, seq=0xfffd, n=n, data=b))
        ops.append(dict(op='settle', ms=3))
    # ping sockets (echo requests)
    for v, sid, proto, src, dst in ((4, 3, 'ping4', DN4, DP4), (6, 4, 'ping6', DN6, DP6)):
        ops.append(dict(op='sock', s=sid, proto=proto, v=v))
        n = rng.choice([1200, 1201, 800])
        init = 0 if v == 4 else _pseudo_init(src, dst, 58, 8 + n)
        for b in carry_payloads(rng, n, init)[:3]:
            ops.append(dict(op='write', s=sid, n=n, data=b, seq=0xfffc, to=dict(addr=dst, port=0)))
    # TCP: one write = one segment (payload <= MSS, acknowledged before the next one)
    pid = 0
    for v, src, dst in ((4, DN4, DP4), (6, DN6, DP6)):
        pid += 1
        cs = 20 + pid
        combo = dict(mss=1460)                      # no timestamps: the whole MSS is payload
        ops.append(dict(op='sock', s=cs, proto='tcp', v=v))
        ops.append(dict(op='bind', s=cs, addr='', port=65533 - pid))
        ops.append(dict(op='rpeer', p=pid, nic=1, src=dst, sport=65530, dst=src, dport=0, isn=0xfffffff0, autoack=True))
        ops.append(dict(op='connect', s=cs, addr=dst, port=65530))
        ops.append(dict(op='rsynack', p=pid, opts=combo))
        ops.append(dict(op='connect_wait', s=cs))
        init = _pseudo_init(src, dst, 6)
        total = 0
        for n in [mtu - (40 if v == 4 else 60), rng.choice([700, 701])]:
            for b in carry_payloads(rng, n, init)[:3]:
                ops.append(dict(op='write', s=cs, n=n, data=b))
                total += n
                ops.append(dict(op='rwait', p=pid, bytes=total))
        ops.append(dict(op='close', s=cs))
    ops.append(dict(op='settle', ms=10))
    return dict(name='dense', hosts=[h], ops=ops)


def fam_mapped(rng, thorough):
    """Cross-family paths: dual-stack IPv6 sockets talking to v4-MAPPED peers (::ffff:a.b.c.d) emit IPv4 packets.
    UDP sendto and connected (ordinary sizes and the 16-bit limits of BOTH families on a 64 KiB link: what
    exceeds the IPv4 limit must be refused, never emitted with wrapped length fields), TCP active open to a
    mapped peer and a dual-stack listener accepting an IPv4 connection."""
    h = single_host(rng, mtu=65535, resolve=False)
    m9 = '::ffff:10.0.0.9'

    def combo(i):
        c = syn_combo(rng, i)
        if 'mss' in c:
            c['mss'] = rng.choice([536, 1460])
        return c
    ops = [dict(op='sock', s=1, proto='udp', v=6), dict(op='bind', s=1, addr='', port=5006)]
    for n in [0, 1, 2, rng.choice([33, 512, 1472]), 65507 if not thorough else rng.choice([65506, 65507]), 65508, 65527, 65528, 65535]:
        ops.append(dict(op='write', s=1, n=n, seed=n, to=dict(addr=m9, port=7)))
    ops.append(dict(op='write', s=1, n=rng.choice([3, 100]), seed=1, to=dict(addr='fd00::9', port=7)))          # the same socket, native v6
    ops += [dict(op='sock', s=2, proto='udp', v=6), dict(op='connect', s=2, addr='::ffff:172.16.5.5', port=9)]
    for n in [1, rng.choice([64, 999]), 65508, rng.choice([65515, 65527]), 65528]:
        ops.append(dict(op='write', s=2, n=n, seed=n))
    ops += [dict(op='sock', s=3, proto='udp', v=6), dict(op='bind', s=3, addr='::ffff:10.0.0.2', port=5007)]          # bound to a mapped local address
    ops.append(dict(op='write', s=3, n=rng.choice([5, 6]), seed=3, to=dict(addr=m9, port=7)))
    # TCP: v6 socket -> mapped peer (the raw peer speaks IPv4)
    ops += [dict(op='sock', s=4, proto='tcp', v=6),
            dict(op='rpeer', p=1, nic=1, src='10.0.0.9', sport=8081, dst='10.0.0.1', dport=0, isn=rng.randrange(1 << 31), autoack=True),
            dict(op='connect', s=4, addr=m9, port=8081), dict(op='rsynack', p=1, opts=combo(rng.choice([1, 9, 15]))), dict(op='connect_wait', s=4)]
    total = 0
    for n in [1, 2, rng.choice([100, 535, 536])]:
        total += n
        ops += [dict(op='write', s=4, n=n, seed=n), dict(op='rwait', p=1, bytes=total)]
    ops.append(dict(op='close', s=4))
    # dual-stack listener, IPv4 client
    ops += [dict(op='sock', s=5, proto='tcp', v=6), dict(op='bind', s=5, addr='', port=8086), dict(op='listen', s=5),
            dict(op='rpeer', p=2, nic=1, src='10.0.0.9', sport=40404, dst='10.0.0.2', dport=8086, isn=rng.randrange(1 << 31), autoack=True),
            dict(op='rsyn', p=2, opts=combo(rng.choice([5, 13, 15]))), dict(op='rack', p=2), dict(op='accept', s=5, **{'as': 6})]
    total = 0
    for n in [1, 2, rng.choice([99, 300])]:
        total += n
        ops += [dict(op='write', s=6, n=n, seed=n), dict(op='rwait', p=2, bytes=total)]
    ops += [dict(op='close', s=6), dict(op='close', s=5), dict(op='settle', ms=10)]
    return dict(name='mapped', hosts=[h], ops=ops)


JUMBO_MTUS = [65536, 131072, 65537, 65535]


def fam_jumbo(rng, thorough, k):
    """Links whose MTU is at or beyond what the 16-bit length fields can express (65535, 65536, 65537, 131072):
    no frame may exceed the fields.  Always: an IPv4 TCP connection to a raw peer announcing a huge MSS, one write
    larger than a full segment (the peer acknowledges; its window covers a full segment).  In rotation: the same
    over IPv6, maximal UDP datagrams v4/v6, maximal and over-sized pings v4/v6 (the over-sized ones must be refused: regression of F30), a maximal echo request to answer."""
    mtu = JUMBO_MTUS[k % 4]
    h = single_host(rng, mtu=mtu, resolve=False)
    ops = []
    extras = ['ping4', 'ping6', 'tcp6', 'udp4', 'udp6', 'echo4', 'echo6']
    extra = extras[k % len(extras)]
    pid = 0
    for v in [4] + ([6] if extra == 'tcp6' else []):
        pid += 1
        cs = 30 + pid
        peer, local = ('10.0.0.9', '10.0.0.1') if v == 4 else ('fd00::9', 'fd00::1')
        # an MSS that does not limit the link: the segment size is then what the stack derives from the MTU
        combo = dict(mss=rng.choice(([65535, 65496] if k % 4 != 3 else [65535, 65495]) if v == 4 else [65535, 65476, 65475]))
        if (k // 4) % 2 == 1:
            combo.update(ts=True, tsval=rng.randrange(1, 1 << 30), sackperm=True)
        ops += [dict(op='sock', s=cs, proto='tcp', v=v),
                dict(op='rpeer', p=pid, nic=1, src=peer, sport=9000 + pid, dst=local, dport=0, isn=rng.randrange(1 << 31), autoack=True),
                dict(op='connect', s=cs, addr=peer, port=9000 + pid), dict(op='rsynack', p=pid, opts=combo), dict(op='connect_wait', s=cs)]
        n = 65535 + rng.choice([0, 1, 100])          # more than any full segment: the first segment is full-sized
        ops += [dict(op='write', s=cs, n=3, seed=1), dict(op='rwait', p=pid, bytes=3),
                dict(op='write', s=cs, n=n, seed=rng.randrange(1 << 24)), dict(op='rwait', p=pid, bytes=3 + n), dict(op='close', s=cs)]
    if extra in ('udp4', 'udp6'):
        v = int(extra[-1])
        ops += [dict(op='sock', s=1, proto='udp', v=v), dict(op='bind', s=1, addr='', port=5100)]
        for n in ([65507, 65508] if v == 4 else [65527, 65528]) + [65535, 7]:
            ops.append(dict(op='write', s=1, n=n, seed=n, to=dict(addr='10.0.0.9' if v == 4 else 'fd00::9', port=7)))
    if extra in ('ping4', 'ping6'):
        v = int(extra[-1])
        ops.append(dict(op='sock', s=2, proto=extra, v=v))
        for n in ([65507, 65508] if v == 4 else [65527, 65528]) + [65535, 9]:            # n payload bytes after the 8-byte echo header
            ops.append(dict(op='write', s=2, n=n, seq=n & 0xffff, seed=n, to=dict(addr='10.0.0.9' if v == 4 else 'fd00::9', port=0)))
    if extra in ('echo4', 'echo6'):
        v = int(extra[-1])
        ops.append(dict(op='inject', nic=1, kind='echo', src='10.0.0.9' if v == 4 else 'fd00::9', dst='10.0.0.1' if v == 4 else 'fd00::1',
                        ident=5, seq=6, n=65507 if v == 4 else 65527, seed=5))
    ops.append(dict(op='settle', ms=15))
    return dict(name='jumbo-%d-%s' % (mtu, extra), hosts=[h], ops=ops)


def fam_udp_big(rng, thorough):
    """datagrams at the 16-bit length limits on a 64 KiB link (F3 territory): the length fields must not wrap"""
    h = single_host(rng, mtu=65535, resolve=False)
    ops = [dict(op='sock', s=1, proto='udp', v=4), dict(op='bind', s=1, addr='', port=5000), dict(op='sock', s=2, proto='udp', v=6), dict(op='bind', s=2, addr='', port=5001)]
    for n in rng.sample([65506, 65507, 65000], 2) + [65508, 65535]:          # the last two must be refused
        ops.append(dict(op='write', s=1, n=n, seed=n, to=dict(addr='10.0.0.9', port=7)))
    for n in [rng.choice([65526, 65527]), 65528]:
        ops.append(dict(op='write', s=2, n=n, seed=n, to=dict(addr='fd00::9', port=7)))
    return dict(name='udp-big', hosts=[h], ops=ops)


def gen_scenarios(ctx, budget_frames):
    """Round-robin over the families until the expected number of frames reaches the budget."""
    rng = ctx.rng
    th = ctx.thorough()
    out = []
    est = 0
    combos = list(range(16))
    k = 0
    while est < budget_frames:
        rng.shuffle(combos)
        round_ = [
            (fam_udp(rng, th), 15), (fam_echo(rng, th), 12), (fam_resolve(rng, th, 'ip'), 10), (fam_rst(rng, th), 8),
            (fam_tcp_passive(rng, th, combos[0:4]), 50), (fam_tcp_passive(rng, th, combos[4:8]), 50),
            (fam_tcp_active(rng, th, combos[8:12]), 50), (fam_tcp_active(rng, th, combos[12:16]), 50),
            (fam_tcp_passive(rng, th, combos[8:12] + combos[12:14], sack=k % 2 == 1), 60), (fam_tcp_active(rng, th, combos[0:4], sack=False), 50),
            (fam_offload(rng, th), 9), (fam_eth_single(rng, th), 26), (fam_resolve(rng, th, 'eth'), 10),
            (fam_pair(rng, th, kind='ip', v=4, mtu=[68, 576, 1500][k % 3]), 60), (fam_pair(rng, th, kind='ip', v=6), 40),
            (fam_pair(rng, th, kind='eth', v=rng.choice([4, 6])), 45), (fam_pair(rng, th), 45),
            (fam_gateway(rng, th, 'ip'), 40), (fam_gateway(rng, th, 'eth'), 36), (fam_dense(rng, th), 95), (fam_mapped(rng, th), 40), (fam_jumbo(rng, th, k), 12),
        ]
        if th and k % 8 == 0:
            round_.append((fam_udp_big(rng, th), 3))
        for sc, e in round_:
            out.append(sc)
            est += e
        k += 1
    return out


# ------------------------------------------------------------------ TLC side
KNOWN_IDS = ('F12', 'F13')          # shapes spelled out in TraceWire!KnownShape


def known_ids(ctx):
    return sorted(k for k in KNOWN_IDS if ctx.known(k))


def tcfg(ctx, explain=False):
    return cfg(spec='TSpec', constants=dict(Explain=explain, Known=set(known_ids(ctx))), constraint='HWMark', postcondition='Accepted')


def slim(ev):
    """what TLC needs of an event"""
    return {k: v for k, v in ev.items() if k not in ('i', 'name', 'mtu', 'op', 'err', 'what')}


def nframes(seg):
    return sum(1 for e in seg if e['ev'] == 'emit')


def seg_cost(seg):
    return sum(len(e.get('raw', ())) + 60 for e in seg)


def chunks(segs, nchunks, max_cost):
    """split the segment list into about nchunks consecutive chunks of at most max_cost each"""
    total = sum(seg_cost(s) for s in segs)
    target = min(max_cost, max(1, -(-total // max(nchunks, 1))))
    cur, cost, idx = [], 0, []
    for i, s in enumerate(segs):
        c = seg_cost(s)
        if cur and cost + c > target * 1.1:
            yield idx, cur
            cur, cost, idx = [], 0, []
        cur.append(s)
        idx.append(i)
        cost += c
    if cur:
        yield idx, cur


def tlc_trace(ctx, segs, name, explain=False, timeout=3000, count=True):
    """One TLC start over the concatenation of `segs`.  Returns (result, locate) where
    locate(line) -> (segment index, event index) for 1-based trace lines."""
    starts, evs = [], []
    for s_ in segs:
        starts.append(len(evs) + 1)
        evs += s_
    fs = {'trace.ndjson': '\n'.join(json.dumps(slim(e)) for e in evs) + '\n'}
    r = ctx.tlc('TraceWire', tcfg(ctx, explain), SPEC, name=name, files=fs, workers=1, dfs=True, timeout=timeout, count=count)

    def locate(line):
        k = max(j for j, st in enumerate(starts) if st <= line)
        return k, line - starts[k]
    return r, locate


def failed_lines(r, locate):
    out = []
    for m in re.finditer(r'<<"FAILED", (\d+), \{([^}]*)\}>>', r.out):
        si, ei = locate(int(m.group(1)))
        out.append((si, ei, sorted(x.strip().strip('"') for x in m.group(2).split(','))))
    return out


def known_lines(r, locate):
    return [(m.group(2),) + locate(int(m.group(1))) for m in re.finditer(r'<<"KNOWN", (\d+), "(\w+)">>', r.out)]


def judge(ctx, segs, name):
    """TLC judges one list of segments.  Strict run first (the P-spec rejects the first bad frame);
    only if it rejects, a second run in Explain mode names every bad frame and its clauses.
    Returns (failures [(seg, event, clauses)], known [(id, seg, event)])."""
    r, loc = tlc_trace(ctx, segs, name)
    if r.ok:
        return [], known_lines(r, loc)
    if r.kind != 'postcondition':
        raise vlib.Inconclusive('trace validation %s: unexpected TLC verdict %s %s\n%s' % (name, r.kind, r.violated, r.out[-2000:]))
    m = re.search(r'"REJECTED_AT", (\d+)', r.out)
    if not m:
        raise vlib.Inconclusive('trace validation %s rejected without mark:\n%s' % (name, r.out[-2000:]))
    first = loc(int(m.group(1)))
    r2, loc2 = tlc_trace(ctx, segs, name + '-explain', explain=True, count=False)
    fl = failed_lines(r2, loc2)
    if not r2.ok or not fl:
        # rejected at something that is not a judged frame (malformed capture): say where
        ev = segs[first[0]][first[1]] if first[1] < len(segs[first[0]]) else {}
        raise vlib.Inconclusive('capture %s not consumable at segment %d event %d (%s): %s' % (name, first[0], first[1], ev.get('ev'), r2.out[-1500:]))
    return fl, known_lines(r2, loc2)


def validate(ctx, segs, name, max_cost=600000, extra_jobs=()):
    """chunks in parallel (one strict TLC each); returns (failures [(seg_index, event_index, clauses)],
    wall seconds, known [(id, seg_index, event_index)], results of extra_jobs)"""
    from concurrent.futures import ThreadPoolExecutor
    t0 = time.time()
    par = max(1, min(ctx.workers, 6))
    cl = list(chunks(segs, par, max_cost))

    badsegs = set()

    def one(job):
        ci, (idx, ch) = job
        if len(badsegs) >= 12:          # more than enough to report: do not grind through a broken tree
            ctx.extra['unexamined_chunks'] = ctx.extra.get('unexamined_chunks', 0) + 1
            return [], []
        fl, kn = judge(ctx, ch, '%s-%d' % (name, ci))
        badsegs.update(idx[si] for si, _, _ in fl)
        return [(idx[si], ei, c) for si, ei, c in fl], [(k, idx[si], ei) for k, si, ei in kn]
    fails, known = [], []
    with ThreadPoolExecutor(max_workers=par + len(extra_jobs)) as ex:
        futs = [ex.submit(j) for j in extra_jobs]
        for fl, kn in ex.map(one, enumerate(cl)):
            fails += fl
            known += kn
        extra = [f.result() for f in futs]
    return fails, time.time() - t0, known, extra


def _l3(ev):
    raw = ev.get('raw') or []
    if ev.get('proto') == 0 and len(raw) >= 14:
        return raw[12] * 256 + raw[13], raw[14:]
    return ev.get('proto'), raw


def classify(ev, clauses):
    """the shapes of findings already recorded (see known_findings.json); judged on the frame bytes"""
    lab = ev.get('i') or ''
    typ, p = _l3(ev)
    if 'icmp6 t128' in lab and clauses == ['icmp6.checksum']:
        return 'F12'
    if lab.startswith('eth/icmp6 t135') and clauses == ['eth.src']:
        return 'F13'
    return None


def hexs(raw):
    return ''.join('%02x' % b for b in raw)


def report_known(ctx, segs, known):
    """one KNOWN-FINDING line per finding id whose exact shape TLC tolerated"""
    seen = {}
    for kid, si, ei in known:
        seen.setdefault(kid, []).append((si, ei))
    for kid, where in sorted(seen.items()):
        si, ei = where[0]
        ev = segs[si][ei]
        ctx.violation('%d emitted frame(s) of the known shape, e.g. %s' % (len(where), ev.get('i', '')),
                      dict(kind='frame', frame=hexs(ev.get('raw', [])), label=ev.get('i'), count=len(where)), key=kid)
    if seen:
        ctx.extra['known_shape_frames'] = {k: len(v) for k, v in seen.items()}


def validate_capture(ctx, path, name=None, report=True, what='capture'):
    """Validate a capture file produced by ANY driver (format: module docstring) against TraceWire.
    Every frame the P-spec rejects is named with its failed clauses and, when report=True, reported
    through ctx.violation (frame bytes + clauses in the replay dict; at most one report per
    (segment, clause set)).  Returns dict(frames=, segments=, accepted_segments=, tlc_wall_s=,
    rejected=[dict(segment, event, clauses, frame, label, host, nic, proto)])."""
    segs = vlib.split_segments(vlib.read_ndjson(path))
    for s_ in segs:
        if s_[0].get('ev') != 'reset':
            s_.insert(0, dict(ev='reset', state=False))
    name = name or ('cap-' + re.sub(r'\W', '_', os.path.basename(path)))
    fails, wall, known, _ = validate(ctx, segs, name)
    report_known(ctx, segs, known)
    bad = sorted(set(si for si, _, _ in fails))
    out = dict(frames=sum(nframes(s_) for s_ in segs), segments=len(segs), accepted_segments=len(segs) - len(bad), rejected=[], tlc_wall_s=round(wall, 1))
    seen = set()
    for si, ei, clauses in fails:
        ev = segs[si][ei]
        rec = dict(segment=si, event=ei, clauses=clauses, frame=hexs(ev.get('raw', [])), label=ev.get('i'), host=ev.get('host'), nic=ev.get('nic'), proto=ev.get('proto'))
        out['rejected'].append(rec)
        if report and (si, tuple(clauses)) not in seen:
            seen.add((si, tuple(clauses)))
            ctx.violation('%s: emitted frame fails %s (%s)' % (what, ','.join(clauses), ev.get('i', '')),
                          dict(kind='capture', path=path, **rec), key=classify(ev, clauses))
    ctx.traces += out['accepted_segments']
    return out


REQUIRED_LABELS = [
    'udp4 pay=0', 'udp4 pay=odd', 'udp4 pay=even', 'udp6 pay=odd', 'udp6 pay=even', 'icmp4 t0 pay=odd', 'icmp4 t0 pay=even',
    'icmp6 t129', 'icmp4 t8', 'icmp6 t128', 'arp op1', 'arp op2', 'icmp6 t135', 'icmp6 t136', 'tcp4 RA', 'tcp6 RA', 'tcp4 S o=MPTW', 'tcp6 S o=MPTW',
    'SA o=MW', 'SA o=MTW', 'SA o=MPW', 'SA o=MPTW', 'S o=MTW',
    'PA o=T pay=odd', 'PA o=T pay=even', 'PA o= pay=odd', 'PA o= pay=even', 'A o=TK1', 'A o=TK2', 'A o=TK3', 'A o=K1', 'A o=K2', 'A o=K3', 'A o=K4',
    'FA o=T', 'FA o= ', 'eth/arp op1', 'eth/arp op2', 'eth/tcp4', 'eth/tcp6', 'eth/udp4', 'eth/udp6', 'eth/icmp6 t135', 'eth/icmp6 t136',
]


def label_stats(segs):
    st = {}
    for s_ in segs:
        for e in s_:
            if e['ev'] == 'emit':
                st[e.get('i', '?')] = st.get(e.get('i', '?'), 0) + 1
    return st


def read_segment(path):
    evs = []
    if os.path.exists(path):
        with open(path) as f:
            for ln in f:
                try:
                    evs.append(json.loads(ln))
                except ValueError:
                    break                   # truncated last line of a crashed run
    return evs


def run_driver(ctx, drv, scs, tag):
    """Run the scenarios; returns (segments, crash).  The driver streams every segment to its own file,
    so when the process dies (a real stack panicking on a frame its peer emitted) the frames captured
    so far are still judged; `crash` then holds the tail of stderr."""
    segs, crash = [], None
    B = 60
    for bi in range(0, len(scs), B):
        sp = os.path.join(ctx.work, 'scen-%s-%d.json' % (tag, bi))
        od = os.path.join(ctx.work, 'cap-%s-%d' % (tag, bi))
        vlib.write_json(sp, scs[bi:bi + B])
        p = ctx.run([drv, 'run', sp, od, str(min(8, max(2, ctx.workers)))], timeout=3000, ok_rc=None)
        for i in range(len(scs[bi:bi + B])):
            evs = read_segment(os.path.join(od, 'seg-%05d.ndjson' % i))
            if not evs or evs[0].get('ev') != 'reset':
                if p.returncode == 0:
                    raise vlib.Inconclusive('driver left no capture for scenario %d' % (bi + i))
                evs = [dict(ev='reset', name=scs[bi + i].get('name'), state=False, missing=True)]
            segs.append(evs)
        if p.returncode != 0:
            crash = crash or 'wired rc=%d: %s' % (p.returncode, p.stderr.decode('utf-8', 'replace')[-1500:])
        if not ctx.keep:
            import shutil
            shutil.rmtree(od, ignore_errors=True)
            os.remove(sp)
    return segs, crash


def run(ctx):
    from concurrent.futures import ThreadPoolExecutor
    drv = ctx.go_build('wired')
    # ---- captures
    budget = ctx.pick(2000, 55000)
    scs = gen_scenarios(ctx, budget)
    t0 = time.time()
    with ThreadPoolExecutor(max_workers=1) as bg:
        # E1-style run meanwhile: the decoder against hand-assembled RFC packets and their corrupted variants
        vec = bg.submit(lambda: ctx.tlc('WireVec', cfg(spec='Spec'), SPEC, name='WireVec', workers=1, must_pass=True))
        segs, crash = run_driver(ctx, drv, scs, 'main')
        vec.result()
    drv_wall = time.time() - t0
    frames = sum(nframes(s_) for s_ in segs)
    st = label_stats(segs)
    ctx.extra.update(scenarios=len(scs), frames=frames, frame_bytes=sum(len(e['raw']) for s_ in segs for e in s_ if e['ev'] == 'emit'),
                     driver_wall_s=round(drv_wall, 1), frame_classes=len(st))
    if frames == 0:
        raise vlib.Inconclusive('dead driver: no frame captured (%s)' % crash)
    # ---- TLC judges the captures; the binding self-test runs in the same pool
    def deferred(f):
        def g():
            try:
                return f()
            except vlib.Inconclusive as e:      # judged after the verdicts: a violation outranks a failed self-test
                return e
        return g
    try:
        tests = selftest_cases(segs)
        jobs = [deferred(lambda: selftest_explain(ctx, tests)), deferred(lambda: selftest_strict(ctx, tests))]
    except vlib.Inconclusive as e:
        jobs = [deferred(lambda e=e: e)]
    fails, wall, known, extra = validate(ctx, segs, 'trace', extra_jobs=jobs)
    report_known(ctx, segs, known)
    bad = sorted(set(si for si, _, _ in fails))
    ctx.traces += len(segs) - len(bad)
    ctx.extra.update(tlc_validation_wall_s=round(wall, 1), ms_per_frame=round(1000 * wall / max(frames, 1), 2),
                     classes=dict(sorted(st.items(), key=lambda kv: -kv[1])[:60]), binding_selftest=str(extra[0]))
    s0 = next((s_ for s_ in segs if s_[0].get('name') == 'udp' and nframes(s_)), segs[0])
    ctx.sample(dict(kind='capture-segment', events=[{k: (v if k != 'raw' else hexs(v)) for k, v in e.items()} for e in s0[:3] + [e for e in s0 if e['ev'] in ('sock', 'bind', 'sendto', 'emit')][:5]]))
    ctx.sample(dict(kind='scenario', name=scs[4]['name'], ops=scs[4]['ops'][:12]))
    if bad:
        # reproduce once (verdict rule): rerun the scenarios, judge the fresh captures (one TLC start for all)
        bad = bad[:12]
        seg2, _ = run_driver(ctx, drv, [scs[si] for si in bad], 'retry')
        r2, loc2 = tlc_trace(ctx, seg2, 'retry-explain', explain=True, count=False)
        again = {}
        for k, ei, clauses in failed_lines(r2, loc2):
            again.setdefault(bad[k], []).append((ei, clauses, seg2[k][ei]))
        reports = []
        for si in bad:
            cl1 = sorted(set(c for s_, _, cs in fails if s_ == si for c in cs))
            cl2 = sorted(set(c for _, cs, _ in again.get(si, []) for c in cs))
            if not set(cl1) & set(cl2):
                ctx.extra.setdefault('unreproduced', []).append(dict(scenario=scs[si]['name'], clauses=cl1))
                continue
            done = set()
            for ei, clauses, ev in again[si]:
                if tuple(clauses) in done:
                    continue
                done.add(tuple(clauses))
                reports.append((si, ei, clauses, ev))
        # only five replay files are written: show every distinct clause set once before repeating one
        first, rest, seen = [], [], set()
        for x in reports:
            (rest if tuple(x[2]) in seen else first).append(x)
            seen.add(tuple(x[2]))
        for si, ei, clauses, ev in first + rest:
            if True:
                ctx.violation('emitted frame fails %s: %s on host %s nic %s, scenario %s' % (','.join(clauses), ev.get('i'), ev.get('host'), ev.get('nic'), scs[si]['name']),
                              dict(kind='scenario', scenario=scs[si], event_index=ei, clauses=clauses, frame=hexs(ev.get('raw', [])), frame_bytes=ev.get('raw'),
                                   proto=ev.get('proto'), label=ev.get('i')),
                              key=classify(ev, clauses))
    # ---- guards that only matter for a clean verdict: a crashed or thin run proves nothing
    if not ctx.violations:
        for x in extra:
            if isinstance(x, Exception):
                raise x
        if crash:
            raise vlib.Inconclusive('driver crashed and the frames captured before are all well-formed: %s' % crash)
        missing = [l for l in REQUIRED_LABELS if not any(l in k for k in st)]
        if missing:
            raise vlib.Inconclusive('driver did not produce the frame classes %s (classes seen: %s)' % (missing, sorted(st)))
        if frames < budget // 2:
            raise vlib.Inconclusive('driver produced only %d frames' % frames)
        # the next-hop scenarios must really have sent through the gateway (a dead responder would hide everything)
        for s_ in segs:
            if str(s_[0].get('name', '')).startswith('gateway-'):
                kinds = set(str(e.get('i', '')).replace('eth/', '').split(' ')[0] for e in s_ if e['ev'] == 'emit')
                if not {'udp4', 'udp6', 'tcp4', 'tcp6', 'icmp4', 'icmp6', 'arp'} <= kinds or nframes(s_) < 15:
                    raise vlib.Inconclusive('gateway scenario %s sent too little through the gateway: %s' % (s_[0].get('name'), sorted(kinds)))
    ctx.assumptions += ['pkg/sleep builds only with the verif-tagged assembly (hook H1)',
                        'the tap of harness/wire.Link and the far end of the socketpair show exactly the bytes the stack handed to the link',
                        'raw TCP peers and injected packets are built with harness/wire (driving only; never part of a verdict)']


# ------------------------------------------------------------------ binding self-test
def selftest_cases(segs):
    """corrupted copies of recorded segments: (name, segment, clause that must fail)"""
    def find(pred):
        for s_ in segs:
            for i, e in enumerate(s_):
                if e['ev'] == 'emit' and pred(e, s_):
                    return s_, i
        raise vlib.Inconclusive('binding self-test: no suitable frame recorded')
    tests = []
    # 1. one flipped payload byte of a UDP datagram
    s_, i = find(lambda e, s_: e.get('i', '').startswith('udp4 pay=odd') and len(e['raw']) > 40)
    b = copy.deepcopy(s_)
    b[i]['raw'][-1] ^= 0x01
    tests.append(('flip-last-byte', b, 'udp.checksum'))
    # 2. one flipped bit in the TCP data-offset nibble of an established-connection segment
    s_, i = find(lambda e, s_: ' PA o=T' in e.get('i', '') and e['proto'] == 2048)
    b = copy.deepcopy(s_)
    b[i]['raw'][20 + 12] ^= 0x10
    tests.append(('tcp-dataoffset', b, 'tcp.'))
    # 3. the triggering packets dropped from the capture: the answer is no longer "the mirrored tuple"
    s_, i = find(lambda e, s_: e.get('i', '').startswith('icmp4 t0') and s_[0].get('state'))
    tests.append(('drop-rx', [e for e in copy.deepcopy(s_) if e['ev'] != 'rx'], 'PortsRight'))
    # 4. an address removed from the configuration: source no longer an address of the routed NIC
    s_, i = find(lambda e, s_: e.get('i', '').startswith('udp4') and s_[0].get('name') == 'udp')
    src = s_[i]['raw'][12:16]
    tests.append(('drop-addr', [e for e in copy.deepcopy(s_) if not (e['ev'] == 'addr' and e['addr'] == src)], 'SrcByRoute'))
    # 5. neighbour entries changed: link destination no longer the resolved MAC
    s_, i = find(lambda e, s_: e.get('i', '').startswith('udp') and e.get('rmac') and s_[0].get('name') == 'udp')
    b = copy.deepcopy(s_)
    for e in b:
        if e['ev'] == 'neigh':
            e['mac'] = [2, 0, 0, 0, 0x66, 0x66]
    tests.append(('neigh-mac', b, 'DstMac'))
    # 6. the same large IPv4 packet twice in a row: identifier not fresh
    s_, i = find(lambda e, s_: e['proto'] == 2048 and len(e['raw']) > 68)
    tests.append(('dup-ipid', copy.deepcopy(s_[:i + 1]) + [copy.deepcopy(s_[i])], 'IpIdFresh'))
    # 7. socket port changed in the capture: ports are no longer the socket's
    s_, i = find(lambda e, s_: e.get('i', '').startswith('udp4') and s_[0].get('name') == 'udp' and any(x['ev'] == 'bind' for x in s_))
    b = copy.deepcopy(s_)
    for e in b:
        if e['ev'] in ('bind', 'local'):
            e['port'] = (e['port'] % 60000) + 1
    tests.append(('sock-port', b, 'PortsRight'))
    # 8. Ethernet source address of an fd-based frame changed
    s_, i = find(lambda e, s_: e['proto'] == 0 and e.get('i', '').startswith('eth/udp'))
    b = copy.deepcopy(s_)
    b[i]['raw'][11] ^= 0x01
    tests.append(('eth-src', b, 'eth.src'))
    return tests


def selftest_explain(ctx, tests):
    """every corrupted segment must have a frame failing the clause aimed at"""
    r, loc = tlc_trace(ctx, [t[1] for t in tests], 'selftest-explain', explain=True, count=False)
    got = {}
    for k, ei, clauses in failed_lines(r, loc):
        got.setdefault(k, set()).update(clauses)
    bad = [t[0] for k, t in enumerate(tests) if not any(c.startswith(t[2]) for c in got.get(k, ()))]
    if bad or not r.ok:
        raise vlib.Inconclusive('binding self-test failed: corruption not noticed in %s (failed clauses per case: %s)' % (bad, {tests[k][0]: sorted(v) for k, v in got.items()}))
    return 'corrupted captures rejected with the clause aimed at: ' + ', '.join('%s->%s' % (t[0], t[2]) for t in tests)


def selftest_strict(ctx, tests):
    """and the strict P-spec really rejects (POSTCONDITION) a capture with one flipped byte"""
    r, loc = tlc_trace(ctx, [tests[0][1]], 'selftest-strict', count=False)
    if r.ok or r.kind != 'postcondition':
        raise vlib.Inconclusive('binding self-test failed: capture with a flipped byte accepted by the strict run')
    return True
