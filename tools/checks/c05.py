"""C05 - TCP loss recovery is prompt and the congestion window is obeyed.

Spec: spec/tcp/TcpData.tla (closed model with Reno-shaped sender; bounds on
outstanding data) and spec/tcp/TraceTcp.tla clauses C05: after the third
duplicate ACK (outside recovery) the next data segment emitted is the earliest
unacknowledged one; a TIMEOUT retransmission (head sent again although nothing
arrived since its last transmission) never comes sooner than 200 ms after its
previous transmission; at most 10 data segments before the first ACK of data;
with Reno, distinct unacknowledged segments in flight <= 10 + segments
acknowledged + duplicate ACKs received.
Binding: harness/tcpd: flights of 12..40 segments, every position of the lost
segment, tail losses (timeouts), late duplicate ACKs (delay faults), SACK
on/off, Reno/CUBIC, emulated RTT by delaying ACKs.
"""
import copy
import os
from . import rawpeer
import tcplib
import vlib
from vlib import cfg, MV

MANIFEST = dict(
    technique='TLA+ closed data-phase model with Reno-shaped sender (TLC) + trace validation of two real stacks under scripted loss/delay patterns against the C05 clauses of TraceTcp (only lower bounds on time)',
    text='TLC counts, per emitted data segment, duplicate ACKs and acknowledged segments that had ARRIVED before it and enforces: fast retransmit first after the third duplicate ACK; a timeout retransmission never sooner than 200 ms after the previous transmission of that segment; initial window 10; Reno in-flight bound. Scenarios: flights of 12-40 segments with the lost segment at every position, tail loss (timeouts 1 s / 2 s), duplicate ACKs delivered late (delay faults placed at 0.1/0.5/0.85 of the RTO), ACK delay as RTT. Finding F7 (timeout shortly after a fast retransmit) is matched by shape. A scripted raw peer (harness/tcprawd, tools/checks/rawpeer.py) supplies the ACK patterns two real stacks never produce: exactly 1/2/3/4+ duplicate ACKs with unchanged or changing window, ACKs in the middle of a segment, several losses per flight and losses among segments sent during a recovery, ACK every k-th segment, emulated RTT 0..250 ms with and without timestamps, SACK blocks valid/D-SACK/nonsense, silent peers (back-off), ACKs of unsent data, old ACKs; regression scenarios of fixed finding F27 are judged with the C01 clauses too.',
    design='5 C05',
    note='Timeout doubling (Backoff) is checked on the wire as interval growth with lower bounds only: interval(k+1) >= 1.5 * interval(k) is NOT asserted (load could falsify it); instead exactly one data segment per expiry while the peer is silent and the 200 ms floor are asserted; exact doubling of the RTO value is read from hook H6 snapshots in the end-of-scenario state only. Scripted partial-ACK / arbitrary SACK patterns need a raw peer and are not driven yet.')

SPEC = ['tcp']


def flight_scenario(rng, i, nseg, mtu, drop_at, sack, cc, late=None, ackdelay=0):
    mss = mtu - 52
    s = dict(v=4, mtu=mtu, sack=sack, cc=cc, deadline_ms=45000, seed=i + 1, flags={}, sync=True,
             a=dict(writes=[nseg * mss], shutdown=True), b=dict(writes=[], shutdown=True), tag='flight%d-n%d-drop%s-%s-%s' % (i, nseg, drop_at, 'sack' if sack else 'nosack', cc or 'reno'))
    rules = []
    for d in drop_at:
        rules.append(dict(kind='data', nth=d, act='drop'))
    if late:
        # the segments after the lost one arrive late, so the duplicate ACKs reach the sender shortly before its timer fires
        lo = max(drop_at) + 1
        rules.append(dict(kind='data', nth=lo, upto=lo + 5, act='delay', arg=late))
    s['a2b'] = dict(rules=rules)
    if ackdelay:
        s['b2a'] = dict(rules=[dict(kind='ack', nth=1, upto=10000, act='delay', arg=ackdelay)])
    return s


def run(ctx):
    drv = ctx.go_build('tcpd')
    c = cfg(constants=dict(N=ctx.pick(3, 4), Buf=3, MaxDrop=2, MaxDup=1, MaxRto=1), invariants=['Safety', 'CwndBound', 'OneSegmentPerRto'], view='View')
    ctx.tlc('TcpData', c, SPEC, name='TcpData-cc', must_pass=True, timeout=3000)
    rng = ctx.rng
    scs = []
    i = 0
    # lost segment at every position of the first flight (10 segments) and beyond
    for pos in range(1, ctx.pick(13, 25)):
        for sack in ((True, False) if ctx.thorough() or pos % 2 else (pos % 4 == 0,)):
            i += 1
            scs.append(flight_scenario(rng, i, rng.choice([12, 20, 30]), rng.choice([200, 576]), [pos], sack, rng.choice(['', 'reno', 'cubic'] if ctx.thorough() else ['', 'reno'])))
    # two losses in one flight, tail loss, whole-flight loss (timeouts with back-off)
    for k in range(ctx.pick(6, 40)):
        i += 1
        n = rng.choice([12, 16, 24])
        a, b = sorted(rng.sample(range(1, 11), 2))
        scs.append(flight_scenario(rng, i, n, 300, [a, b], rng.random() < 0.5, ''))
    for k in range(ctx.pick(3, 10)):
        i += 1
        s = flight_scenario(rng, i, 6, 300, [6], k % 2 == 0, '')               # tail loss: only the timer can recover
        scs.append(s)
        i += 1
        s = flight_scenario(rng, i, 4, 300, [1, 2, 3, 4], False, '')           # whole flight lost
        s['a2b']['rules'].append(dict(kind='data', nth=5, act='drop'))          # and the first retransmission: second timeout (back-off)
        scs.append(s)
    # late duplicate ACKs: F7 territory (duplicate ACKs arrive at 0.1 / 0.5 / 0.85 of the initial 1 s RTO)
    for late in (100, 500, 850):
        for k in range(ctx.pick(2, 6)):
            i += 1
            scs.append(flight_scenario(rng, i, 8, 300, [1], False, '', late=late))
    # a timeout, then the whole window acknowledged, then the FIRST NEW segment is lost: the duplicate ACKs that follow
    # acknowledge exactly what was outstanding at the timeout (the boundary of the "recover" rule)
    for k in range(ctx.pick(3, 12)):
        i += 1
        first = [8, 7, 9, 10, 6][k % 5]      # >= 6: the window after go-back-N must hold >= 4 segments so that 3 duplicate ACKs can arrive
        mss = 300 - 52
        s = dict(v=4, mtu=300, sack=(k % 3 == 2), cc='', deadline_ms=45000, seed=i + 1, flags={}, sync=True,
                 a=dict(writes=[first * mss, 8 * mss], write_gap_us=3500000, shutdown=True), b=dict(writes=[], shutdown=True),
                 tag='rto-then-firstnew-lost-%d-first%d' % (k, first))
        rules = [dict(kind='data', nth=1, upto=first, act='drop'), dict(kind='data', nth=2 * first + 1, act='drop')]
        s['a2b'] = dict(rules=rules)
        scs.append(s)
    # the peer stays silent: every copy of the flight and the first k timeout retransmissions are lost
    # (back-off: the interval at least doubles; exactly one segment, the earliest unacknowledged one, per timeout)
    for k in range(ctx.pick(4, 16)):
        i += 1
        n = [1, 3, 6, 10][k % 4]
        lost_retx = [3, 2, 4, 3][k % 4] if k < 8 else rng.choice([2, 3, 4])
        s = flight_scenario(rng, i, n, rng.choice([200, 576]), [], k % 2 == 1, ['', 'reno', 'cubic'][k % 3] if ctx.thorough() else '')
        s['a2b'] = dict(rules=[dict(kind='data', nth=1, upto=n + lost_retx, act='drop')])
        s['tag'] = 'silent-backoff-%d-n%d-lost%d' % (k, n, lost_retx)
        scs.append(s)
    # a timeout DURING fast recovery: the first segment of a flight is lost, the duplicate ACKs of the others trigger the fast
    # retransmission, which is lost too, and so are the following retransmissions: from then on the peer is silent, and every
    # timeout may send exactly one segment (the collapse of the congestion window must survive leaving fast recovery)
    for k in range(ctx.pick(4, 12)):
        i += 1
        n = [10, 8, 6, 10][k % 4]
        lost = [3, 2, 4, 1][k % 4]
        s = flight_scenario(rng, i, n, [200, 576][k % 2], [1], k % 2 == 1, ['', 'reno', 'cubic'][k % 3] if ctx.thorough() else '')
        s['a2b'] = dict(rules=[dict(kind='data', nth=1, act='drop'), dict(kind='data', nth=n + 1, upto=n + lost, act='drop')])
        s['tag'] = 'rto-in-recovery-%d-n%d-lost%d' % (k, n, lost)
        scs.append(s)
    # paced writes: single segments written less than one RTO apart, each acknowledged before the next; one of the late
    # ones is lost with too few followers for a fast retransmit (the retransmission timer has been stopped and re-armed
    # several times by then: the 200 ms lower bound counts from the LAST transmission of the segment, not from an earlier arming)
    for k in range(ctx.pick(6, 24)):
        i += 1
        n = rng.choice([3, 4, 5, 6])
        gap = [60, 30, 90, 140, 110, 45][k % 6] * 1000
        mss = 300 - 52
        lost = n - (k % 2)                       # the last or the last but one
        s = dict(v=4, mtu=300, sack=(k % 3 == 0), cc='', deadline_ms=45000, seed=i + 1, flags={}, sync=True,
                 a=dict(writes=[mss] * n, write_gap_us=gap, shutdown=True), b=dict(writes=[], shutdown=True),
                 tag='paced-%d-n%d-gap%dms-lost%d' % (k, n, gap // 1000, lost), a2b=dict(rules=[dict(kind='data', nth=lost, act='drop')]))
        scs.append(s)
    # emulated RTT
    for k in range(ctx.pick(4, 30)):
        i += 1
        scs.append(flight_scenario(rng, i, rng.choice([20, 40]), 576, [rng.randrange(2, 12)], rng.random() < 0.5, '', ackdelay=rng.choice([1, 5, 20, 50])))
    segs, stats, rep = tcplib.run_pair(ctx, drv, scs, ['C05'], 'c05', what='TCP loss recovery / congestion window', classify=tcplib.classify_all)
    ctx.extra.update(stats)
    nret = 0
    for s in segs:
        seen = set()
        for e in s:
            if e['ev'] == 'emit' and e.get('len', 0) > 0:
                if (e['e'], e['seq']) in seen:
                    nret += 1
                seen.add((e['e'], e['seq']))
    ctx.extra['retransmissions_observed'] = nret
    if nret == 0:
        raise vlib.Inconclusive('vacuity: no retransmission was observed')
    # precondition of the "timeout, all acknowledged, first new segment lost" family: the third duplicate ACK for the first
    # new segment must really have arrived in at least one of them, otherwise the fast-retransmit mandate was never exercised
    def max_dupacks_after_gap(s):
        best, last, run = 0, None, 0
        for e in s:
            if e['ev'] == 'arrive' and e.get('to') == 'a' and e.get('len', 0) == 0 and 'A' in e.get('flags', '') and e.get('t', 0) > 3400000:
                run = run + 1 if e.get('ack') == last else 0
                last = e.get('ack')
                best = max(best, run)
        return best
    fam = [max_dupacks_after_gap(s) for s, sc in zip(segs, scs) if sc.get('tag', '').startswith('rto-then-firstnew-lost')]
    ctx.extra['rto_then_firstnew_lost'] = dict(scenarios=len(fam), with_three_dupacks=sum(1 for x in fam if x >= 3))
    if fam and not any(x >= 3 for x in fam):
        raise vlib.Inconclusive('vacuity: no "first new segment after a timeout lost" scenario produced three duplicate ACKs')
    ctx.sample(dict(kind='scenario', scenario=scs[0]))
    ctx.sample(dict(kind='trace', events=tcplib.sample_trace(segs[0], 12)))
    # ---- the replay script of known finding F7 (duplicate ACKs arriving ~150 ms before the initial 1 s timer fires);
    #      timing-dependent, so it is tried a few times; not reproducing it is not an error
    for attempt in range(3):
        if 'F7' in ctx.known_hits or ctx.known('F7') is None:
            break
        f7 = flight_scenario(rng, 9000 + attempt, 8, 300, [1], False, '', late=850)
        f7['tag'] = 'f7-replay-%d' % attempt
        tcplib.run_pair(ctx, drv, [f7], ['C05'], 'c05f7-%d' % attempt, parallel=1, what='TCP loss recovery / congestion window', classify=tcplib.classify_all)
    ctx.extra['f7_reproduced_this_run'] = 'F7' in ctx.known_hits
    # ---- the same clauses against a scripted raw peer (ACK patterns / windows / options two real stacks never produce)
    rawpeer.raw_peer(ctx, ['C05'], 48, 400)
    # ---- binding self-test: pull a timeout retransmission 900 ms earlier; delete a fast retransmission
    tc = tcplib.tcfg(['C05'])
    tail = next((s for s, sc in zip(segs, scs) if '-n6-drop[6]' in sc['tag'] and s[-1].get('why') == 'done'), None)
    if tail is not None:
        bad = copy.deepcopy(tail)
        seen = {}
        for e in bad:
            if e['ev'] == 'emit' and e.get('len', 0) > 0 and e['e'] == 'a':
                if e['seq'] in seen:
                    e['t'] = seen[e['seq']] + 50000
                    break
                seen[e['seq']] = e['t']
        a, rj = vlib.validate_segments(ctx, 'TraceTcp', tc, SPEC, [bad], name='selftest-early-rto', count=False)
        if not rj:
            raise vlib.Inconclusive('binding self-test failed: a timeout retransmission after 50 ms was accepted')
    fr = next((s for s, sc in zip(segs, scs) if 'drop[3]' in sc['tag'] and s[-1].get('why') == 'done'), None)
    if fr is not None:
        bad2 = copy.deepcopy(fr)
        seen = set()
        for k, e in enumerate(bad2):
            if e['ev'] == 'emit' and e.get('len', 0) > 0 and e['e'] == 'a':
                if e['seq'] in seen:
                    e['seq'] += 100000     # the retransmission after the third duplicate ACK is not the head any more
                    break
                seen.add(e['seq'])
        a, rj = vlib.validate_segments(ctx, 'TraceTcp', tc, SPEC, [bad2], name='selftest-wrong-fastretx', count=False)
        if not rj:
            raise vlib.Inconclusive('binding self-test failed: a fast retransmission of the wrong segment was accepted')
    ctx.extra['binding_selftest'] = 'early timeout retransmission and wrong fast retransmission rejected'
    ctx.assumptions += ['hooks H1, H6', 'time enters only through lower bounds (tap timestamps)']
