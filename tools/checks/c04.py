"""C04 - TCP respects the peer's window and MSS and keeps its own window honest.

Spec: spec/tcp/TcpData.tla (WindowOK on the closed model: reachable violation =
finding F5, stale ACK re-opens the window) and spec/tcp/TraceTcp.tla clauses
C04: no data byte beyond the best right edge the peer ever offered (after
scaling), no segment above the peer's MSS / the path MTU, the advertised right
edge never moves left, the advertised window is bounded by the receive buffer
(it closes when the application stops reading), only bytes of segments that
began inside the advertised window are delivered.
Binding: harness/tcpd with tiny receive buffers, late/slow readers, MTUs
68..1500, ACK reordering on the return path (hold-back), both directions.
"""
import copy
import os
from . import rawpeer
import tcplib
import vlib
from vlib import cfg, MV

MANIFEST = dict(
    technique='TLA+ closed data-phase model (TLC; WindowOK counterexample = finding F5) + trace validation of two real stacks with tiny buffers, paced readers, small MTUs and reordered ACKs against the C04 clauses of TraceTcp',
    text='TLC judges every emitted data segment against the maximum right edge offered by ACKs that had arrived (window scaling from the SYN options), the MSS announced by the peer and the MTU, and every emitted ACK against the right edge advertised before (never left, bounded by the receive buffer), over seeded scenarios with receive buffers 1..4096 bytes, readers that start late / read slowly / stop, MTU 68..1500, loss and ACK reordering. Findings F4 (scaled-window rounding) and F5 (stale ACK re-opens the window) are matched by shape. A scripted raw peer (harness/tcprawd, tools/checks/rawpeer.py) replaces one stack in a second set of scenarios: SYN/SYN-ACK with MSS 1..65535 or none, window scale 0..15 or none, windows of 0/1/mss-1/mss/2mss+1 bytes, zero windows re-opened after 5..1300 ms (update sent once or repeated), right edges that move left, scaled windows against an unscaled SYN-ACK window, passive open against a scripted SYN; the same TraceTcp clauses judge the real stack (endpoint b is declared a script: reset.raw_b).',
    design='5 C04',
    note='maxEdge is the maximum edge EVER offered, so a shrinking peer cannot cause a false alarm. Scripted peers with arbitrary window/MSS option values (WS 14/15, MSS 1/65535, ICMP fragmentation-needed) are not driven yet: both peers are real stacks. The exhaustive TLC part covers the unscaled data-phase model only. Since round 8 the raw peer also opens the real stack passively through SYN cookies (a batch of its own: tcp.SynRcvdCountThreshold = 0 is process-global) with MSS values between the entries of the cookie table.')

SPEC = ['tcp']


def run(ctx):
    drv = ctx.go_build('tcpd')
    c = cfg(constants=dict(N=ctx.pick(3, 4), Buf=2, MaxDrop=2, MaxDup=1, MaxRto=1), invariants=['Safety', 'EdgeBounded'], properties=['EdgeMonotone'], view='View')
    ctx.tlc('TcpData', c, SPEC, name='TcpData-edge', must_pass=True, timeout=3000)
    # the send side of the model has the code's unconditional window update: TLC reaches data beyond the receiver's true edge
    # through a reordered (stale) ACK = finding F5 at model level; the real-code verdict comes from the traces below
    c2 = cfg(constants=dict(N=3, Buf=2, MaxDrop=0, MaxDup=0, MaxRto=0), invariants=['WindowOK'], view='View')
    r2 = ctx.tlc('TcpData', c2, SPEC, name='TcpData-f5', count=False)
    ctx.extra['model_reaches_f5'] = (not r2.ok)
    rng = ctx.rng
    scs = []
    n = ctx.pick(44, 500)
    for i in range(n):
        s = tcplib.random_scenario(rng, i, maxbytes=ctx.pick(6000, 30000), bidir=(i % 3 == 0))
        s['b']['rcvbuf'] = rng.choice([1, 50, 100, 500, 1000, 2000, 4096, 0])
        if i % 3 == 0:
            s['a']['rcvbuf'] = rng.choice([100, 1000, 4096])
        if 0 < s['b']['rcvbuf'] <= 100:
            # tiny windows: a segment per few bytes; keep the trace short (such transfers used to end in the scenario deadline
            # and were not judged at all before deadline traces were validated)
            cap, w = 400 if s['b']['rcvbuf'] == 1 else 1500, []
            for x in s['a']['writes']:
                x = min(x, cap - sum(w))
                if x > 0:
                    w.append(x)
            s['a']['writes'] = w or [cap]
        s['b']['read_start_ms'] = rng.choice([0, 0, 100, 300])
        s['b']['read_delay_us'] = rng.choice([0, 100, 1000, 5000])
        if i % 5 == 4:
            s['b']['read_max'] = rng.choice([1, 100, 1000])      # the reader stops: the window must close
            s['flags']['noclosecheck'] = True
        # reorder ACKs on the return path (F5 territory) and lose some
        s['b2a'] = dict(loss=rng.choice([0, 0.05]), hold=rng.choice([0, 0.2, 0.4]), dup=0, budget=rng.choice([2, 6, 12]))
        s['a2b'] = dict(loss=rng.choice([0, 0, 0.05]), hold=rng.choice([0, 0.1]), dup=rng.choice([0, 0.05]), budget=rng.choice([0, 2, 6, 10]),
                        beyond=rng.choice([0, 0.1, 0.3]), coalesce=rng.choice([0, 0.1]))
        # fabricated segments at the advertised right edge are judged strictly only on the synchronous wire (the spec settles
        # "did it begin inside the window" when the harness has seen the segment processed)
        s['sync'] = (i % 2 == 0)
        s['tag'] = 'win%d' % i
        scs.append(s)
    # bulk data in BOTH directions with loss on one of them: the endpoint that holds out-of-order data sends full-sized data
    # segments that also carry SACK blocks (and timestamps): "nor a segment larger than the path MTU allows" with the largest
    # option area in use
    for k in range(ctx.pick(6, 30)):
        mtu = [576, 1500, 200, 300, 1280, 100][k % 6]
        v = 6 if mtu == 1280 else 4
        tot = (14 if not ctx.thorough() else 40) * (mtu - 40)
        lossy = ('b2a', 'a2b')[k % 2]
        sc = dict(v=v, mtu=mtu, sack=True, cc='', deadline_ms=45000, seed=7000 + k, flags={}, tag='bidi-bulk-%d-mtu%d-%s' % (k, mtu, lossy),
                  a=dict(writes=[tot], shutdown=True), b=dict(writes=[tot], shutdown=True), a2b=dict(), b2a=dict())
        sc[lossy] = dict(rules=[dict(kind='data', nth=n, act='drop') for n in sorted(rng.sample(range(2, 30), 3))])
        scs.append(sc)
    # a SCALED receive window closes with 1 .. 2^scale - 1 bytes of buffer left (zero on the wire although the buffer is not
    # full), then the application reads: "the advertised window closes and reopens once it reads again"
    for k, (rb, first) in enumerate([(131072, 7), (262144, 1), (131072, 13), (1 << 20, 7)][:ctx.pick(2, 4)]):
        scs.append(dict(v=4, mtu=1500, sack=(k % 2 == 0), cc='', deadline_ms=30000, seed=7300 + k, flags={}, tag='scaled-zero-window-%d-rb%d' % (k, rb),
                        a=dict(writes=[first, rb + 50000], shutdown=True), b=dict(writes=[], shutdown=True, rcvbuf=rb, read_start_ms=600),
                        a2b=dict(), b2a=dict()))
    # the application changes its receive buffer size in the middle of a transfer (larger, and much smaller): the advertised
    # right edge still never moves left
    for k, (rb, rb2) in enumerate([(20000, 4000), (65536, 2000), (4096, 60000), (30000, 1)][:ctx.pick(3, 4)]):
        scs.append(dict(v=4 if k % 2 == 0 else 6, mtu=1500, sack=True, cc='', deadline_ms=30000, seed=7400 + k, flags={}, sync=(k % 2 == 0), tag='rcvbuf-change-%d-%d-to-%d' % (k, rb, rb2),
                        a=dict(writes=[3000] * 12, write_gap_us=30000, shutdown=True),
                        b=dict(writes=[], shutdown=True, rcvbuf=rb, rcvbuf2=rb2, rcvbuf2_ms=120, read_delay_us=20000), a2b=dict(), b2a=dict()))
    # asymmetric link MTUs: the peer's announced MSS (its MTU - 40) is the binding limit, not the sender's own MTU
    for k in range(ctx.pick(6, 24)):
        big, small = rng.choice([1500, 1500, 9000]), [100, 300, 576, 200, 1000, 68][k % 6]
        ma, mb = (big, small) if k % 2 == 0 else (small, big)
        sc = dict(v=4, mtu=ma, mtu_b=mb, sack=(k % 3 == 0), cc='', deadline_ms=45000, seed=7500 + k, flags={}, tag='asym-mtu-%d-a%d-b%d' % (k, ma, mb),
                  a=dict(writes=tcplib.chunks(rng, rng.choice([1500, 4000] if min(ma, mb) < 200 else [3000, 12000]), 5000), shutdown=True),
                  b=dict(writes=tcplib.chunks(rng, rng.choice([1500, 4000] if min(ma, mb) < 200 else [3000, 12000]), 5000), shutdown=True),
                  a2b=dict(loss=rng.choice([0, 0.03]), budget=3), b2a=dict(loss=rng.choice([0, 0.03]), budget=3))
        scs.append(sc)
    segs, stats, rep = tcplib.run_pair(ctx, drv, scs, ['C04'], 'c04', what='TCP window/MSS behaviour', classify=tcplib.classify_all)
    ctx.extra.update(stats)
    ctx.extra['zero_window_advertisements'] = sum(1 for s in segs for e in s if e['ev'] == 'emit' and e.get('wnd') == 0 and 'S' not in e.get('flags', '') and 'R' not in e.get('flags', ''))
    # the MSS clause is exercised only where the peer's MSS is smaller than what the sender's own MTU would allow
    nmss = sum(1 for sg in segs for e in sg if e['ev'] == 'emit' and e.get('len', 0) > 0 and sg[0].get('mtu_b', sg[0]['mtu']) != sg[0]['mtu']
               and e['len'] == (sg[0]['mtu_b'] if e['e'] == 'a' else sg[0]['mtu']) - (60 if sg[0].get('v') == 6 else 40))
    ctx.extra['data_segments_bounded_by_peer_mss_only'] = nmss
    nsack = sum(1 for sg in segs for e in sg if e['ev'] == 'emit' and e.get('len', 0) > 0 and e.get('sack'))
    ctx.extra['data_segments_carrying_sack_blocks'] = nsack
    if nsack == 0:
        raise vlib.Inconclusive('vacuity: no data segment carried SACK blocks')
    ctx.sample(dict(kind='scenario', scenario=scs[0]))
    ctx.sample(dict(kind='trace', events=tcplib.sample_trace(segs[0], 12)))
    # ---- the same clauses against a scripted raw peer (ACK patterns / windows / options two real stacks never produce)
    rawpeer.raw_peer(ctx, ['C04'], 48, 400)
    # ---- binding self-test: shrink a recorded window so that later data lies beyond the edge; move an advertised edge left
    def b_acks(s):
        return [i for i, e in enumerate(s) if e['ev'] == 'emit' and e['e'] == 'b' and 'A' in e.get('flags', '') and 'S' not in e.get('flags', '') and 'R' not in e.get('flags', '') and e.get('wnd', 0) > 64]
    base = next(s for s in segs if sum(1 for e in s if e['ev'] == 'emit' and e.get('len', 0) > 0 and e['e'] == 'a') > 3 and len(b_acks(s)) >= 2)
    bad = copy.deepcopy(base)
    for e in bad:
        if e['ev'] == 'arrive' and e.get('to') == 'a' and 'A' in e.get('flags', ''):
            e['wnd'] = 0
    bad2 = copy.deepcopy(base)
    acks = b_acks(bad2)
    bad2[acks[-1]]['wnd'] = 0
    bad2[acks[-1]]['ack'] = bad2[acks[0]]['ack']
    tc = tcplib.tcfg(['C04'])
    for nm, b in (('window-shrunk', bad), ('edge-left', bad2)):
        a, rj = vlib.validate_segments(ctx, 'TraceTcp', tc, SPEC, [b], name='selftest-' + nm, count=False)
        if not rj:
            raise vlib.Inconclusive('binding self-test failed: %s accepted' % nm)
    ctx.extra['binding_selftest'] = 'data beyond a shrunk recorded window and a left-moving advertised edge rejected'
    ctx.assumptions += ['hooks H1, H6', 'both peers are real stacks (well-behaved windows)']
