"""Scripted raw peer for the TCP checks C04 / C05 (library module, not a check).

`raw_peer(ctx, props, n_quick, n_thorough)` generates seeded scenarios for the
raw-peer driver harness/tcprawd (ONE real stack, endpoint "a", against a script
"b" that fabricates the SYN-ACK options and every ACK / window / SACK block),
runs them, and validates every trace with spec/tcp/TraceTcp.tla through
tcplib.run_pair (same validation, known-finding and reproduce-once logic as
for the pair driver).  The reset event of these traces carries raw_b: the
clauses of the spec bind endpoint a only.

What the pair driver cannot produce and this one does: MSS options 1..65535
(and none), window scale 0..15 (and none), SACK-permitted / timestamps on and
off, ACK every k-th segment, delayed ACKs (emulated RTT), exactly 1/2/3/4+
duplicate ACKs with an unchanged or a changing window, acknowledgements in the
middle of a segment, several losses in one flight (partial ACKs), losses among
the segments sent during a recovery, SACK blocks (valid, D-SACK, nonsense),
windows of 0/1/mss-1/mss/2mss+1 bytes, zero windows re-opened after t ms (the
update sent once or repeated), windows whose right edge moves left, silent
peers, ACKs of data never sent, old ACKs, peer data and both FIN orders, and
the passive open of the real stack against a scripted SYN.
"""
import copy
import tcplib
import vlib

SPEC = ['tcp']


# ----------------------------------------------------------------------------------------------------------- scenarios
def mk(rng, tag, total, mtu=1500, v=4, stack_sack=None, cc='', passive=False, a=None, run_ms=0, deadline_ms=15000, closing=True, chunked=False, **peer):
    p = dict(mss=0, ws=-1, sackperm=False, ts=False, synwnd=65535, wnd=65535, ack_every=1, delack_ms=40, delay_ms=0, sack='',
             quiet_ooo=False, fixed_edge=False, drop=[], drop_off=[], rules=[])
    p.update(peer)
    p['rules'] = [dict(r) for r in p['rules']]
    if p['fixed_edge']:
        # a window that closes as data arrives re-opens (as wide as before) unless the family scripts the re-opening itself
        have = set(r['n'] for r in p['rules'] if r.get('on') == 'zero')
        p['rules'] += [dict(on='zero', n=k, do='wnd', wnd=p['wnd'], count=1, after_ms=20) for k in range(1, 40) if k not in have]
    if closing:
        p['rules'].append(dict(on='fin', do='fin'))           # the peer closes once a's FIN arrived: a's reader sees EOS
    app = dict(writes=tcplib.chunks(rng, total, max(total, 1)) if chunked and total > 3000 and rng.random() < 0.5 else [total], shutdown=True)
    app.update(a or {})
    if passive:
        app['passive'] = True
    return dict(v=v, mtu=mtu, sack=(rng.random() < 0.5) if stack_sack is None else stack_sack, cc=cc, tag=tag, seed=rng.randrange(1, 1 << 30),
                deadline_ms=deadline_ms, run_ms=run_ms, flags={}, a=app, peer=p)


def fam_cookie(rng, i):
    """The real stack opens passively through a SYN cookie (as under a SYN flood): the peer's MSS survives only as an index into
    a small table; whatever the table does, no segment may be larger than the MSS the peer put on its SYN."""
    mss = [1400, 1000, 600, 1301, 1441, 1459, 537, 1299, 1200, 1439][i % 10]
    sc = mk(rng, 'cookie%d-m%d' % (i, mss), 1, mtu=1500, v=4 if i % 3 else 6, passive=True, mss=mss, ts=False, ws=-1, sackperm=False,
            ack_every=rng.choice([1, 2]), rules=[dict(on='up', do='write', bytes=rng.choice([60, 300]))])
    sc['a']['writes'] = [rng.choice([6, 10, 14]) * mss + rng.choice([0, 1, 700])]
    sc['cookie'] = True
    return sc


def eff_mss(sc):
    """payload limit the real stack must obey: the peer's MSS option (536 when absent) and its own MTU less headers and timestamp"""
    p = sc['peer']
    m = p['mss'] if p['mss'] > 0 else 536
    own = sc['mtu'] - (60 if sc['v'] == 6 else 40) - (12 if p['ts'] else 0)
    return max(1, min(m, own))


def fam_mss(rng, i):
    mss = [1, 8, 48, 100, 536, 1000, 1460, 4000, 65535, 0, 2, 537][i % 12]
    mtu = rng.choice([1500, 1500, 576, 200, 100, 68])
    v = 4
    if mtu >= 1280 and rng.random() < 0.2:
        v = 6
    ts = rng.random() < 0.5
    sc = mk(rng, 'mss%d-m%d-mtu%d' % (i, mss, mtu), 1, mtu=mtu, v=v, chunked=True, passive=(i % 5 == 3), mss=mss, ts=ts, ws=rng.choice([-1, 0, 3]),
            sackperm=rng.random() < 0.5, ack_every=rng.choice([1, 1, 2]), sack=rng.choice(['', 'valid']),
            drop=[rng.randrange(2, 9)] if rng.random() < 0.4 else [])
    e = eff_mss(sc)
    sc['a']['writes'] = [max(40, min(30 * e, 12000))]
    return sc


def fam_ws(rng, i):
    ws = [15, 14, 0, 1, 7, 4, 9, 2, 12][i % 9]          # (the out-of-range 15 and the limit 14 first: the quick tier draws about six)
    field = rng.choice([1, 2, 5, 40])
    while field > 1 and (field << min(ws, 14)) > 40000:
        field //= 2
    wnd = field << min(ws, 14)
    mss = rng.choice([536, 1460, 300])
    # a small SYN-ACK window: it is never scaled, whatever the option says
    total = min(3 * wnd + 1000, 40000) if wnd >= 500 else max(60, 30 * wnd)      # a tiny window: a few dozen round trips, not thousands
    ackev = rng.choice([1, 2]) if wnd >= 500 else 1
    if i % 9 < 2 or (wnd >= 8000 and rng.random() < 0.5):
        # one ACK per flight: only then does the sender's own idea of the window, not the peer's promptness, bound what is outstanding
        ackev, mss = 64, 1460
        total = min(3 * wnd + 1000, 100000) if wnd >= 500 else total          # three flights of slow start (14600, 29200, 58400) pass any window <= 40000
    return mk(rng, 'ws%d-s%d-f%d' % (i, ws, field), total, passive=(i % 4 == 3), mss=mss, ws=ws, wnd=wnd,
              synwnd=rng.choice([600, 1000, 2000, 4000]), ts=rng.random() < 0.5, fixed_edge=rng.random() < 0.4, ack_every=ackev)


def fam_smallwnd(rng, i):
    mss = rng.choice([100, 536])
    wnd = [1, 2, mss - 1, mss, mss + 1, 2 * mss + 1, 3, 3 * mss - 1][i % 8]
    syn0 = i % 3 == 2
    rules = [dict(on='up', do='wnd', wnd=wnd, count=1, after_ms=rng.choice([10, 60, 250]))] if syn0 else []
    return mk(rng, 'smallwnd%d-w%d-mss%d%s' % (i, wnd, mss, '-syn0' if syn0 else ''), max(20, min(25 * wnd, 6000)), mss=mss, wnd=wnd,
              synwnd=0 if syn0 else wnd, ts=rng.random() < 0.3, passive=(i % 7 == 5), rules=rules, delay_ms=rng.choice([0, 0, 3]))


def fam_zerownd(rng, i):
    mss = rng.choice([100, 536, 1460])
    w = rng.choice([500, 1500, 4000])
    ws = rng.choice([-1, -1, 0, 2])
    if ws > 0:
        w = (w >> ws) << ws
    rules = []
    ncyc = rng.choice([1, 2, 3])
    for k in range(1, 12):
        w2 = rng.choice([w, w // 2, mss, 1, 2 * w]) if k <= ncyc else 4 * w
        if ws > 0:
            w2 = max(1 << ws, (w2 >> ws) << ws)
        # the window re-opens t ms after it closed; the update is sent once, or repeated
        rules.append(dict(on='zero', n=k, do='wnd', wnd=w2, after_ms=[5, 60, 350, 1300][(i + k) % 4], count=rng.choice([1, 1, 2, 3]), gap_ms=40))
    return mk(rng, 'zerownd%d-w%d-mss%d-c%d' % (i, w, mss, ncyc), 3 * w + 700, mss=mss, ws=ws, wnd=w, synwnd=min(w, 65535), fixed_edge=True,
              ts=rng.random() < 0.3, rules=rules, ack_every=rng.choice([1, 2]))


def fam_shrink(rng, i):
    mss = rng.choice([200, 536])
    w = rng.choice([3000, 6000])
    k = rng.randrange(2, 9)
    to = [w // 4, 0, mss, 1, w // 2][i % 5]
    rules = [dict(on='data', n=k, do='wnd', wnd=to, count=1),                                  # the right edge moves LEFT
             dict(on='data', n=k, do='wnd', wnd=w, count=rng.choice([1, 2]), gap_ms=30, after_ms=rng.choice([20, 120, 400]))]
    if i % 2:
        rules.append(dict(on='data', n=k + 9, do='wnd', wnd=w // 3, count=1))
        rules.append(dict(on='data', n=k + 9, do='wnd', wnd=2 * w, count=1, after_ms=80))
    return mk(rng, 'shrink%d-w%d-to%d-at%d' % (i, w, to, k), 5 * w, mss=mss, wnd=w, synwnd=w, rules=rules, ts=rng.random() < 0.3,
              drop=[k + 1] if i % 3 == 0 else [])


def fam_shrinkloss(rng, i):
    """A segment is lost and, before it is retransmitted, the peer's window shrinks below the segment's size and stays small for
    longer than the retransmission timeout: the retransmission has to re-cut a segment that was already sent once."""
    mss = rng.choice([536, 1000, 200])
    w = 6 * mss
    k = rng.randrange(2, 5)
    small = [mss // 2, mss - 1, mss // 3, 1][i % 4]
    rules = [dict(on='data', n=k + 1, do='wnd', wnd=small, count=1),                      # right edge moves left while segment k is missing
             dict(on='data', n=k + 1, do='wnd', wnd=w, count=2, gap_ms=50, after_ms=rng.choice([1600, 2600]))]
    return mk(rng, 'shrinkloss%d-mss%d-small%d-lost%d' % (i, mss, small, k), 4 * w, mss=mss, wnd=w, synwnd=w, rules=rules, ts=rng.random() < 0.3,
              drop=[k], deadline_ms=25000, quiet_ooo=True)     # no duplicate ACKs: the repair comes from the timeout path (go-back-N)


def fam_dupk(rng, i):
    k = [3, 1, 2, 4, 7, 3, 3, 5][i % 8]
    step = [0, 0, 0, 0, 0, 120, -120, 0][i % 8] if i % 16 < 8 else rng.choice([0, 0, 64, -64])
    mss = rng.choice([200, 300])
    x = rng.randrange(1, 8)
    sackperm = rng.random() < 0.6
    mode = rng.choice(['valid', 'dsack', 'nonsense', '']) if sackperm else rng.choice(['', '', 'nonsense'])
    n = rng.choice([12, 16, 22])
    return mk(rng, 'dup%d-k%d-step%d-lost%d-%s' % (i, k, step, x, mode or 'nosack'), n * mss, stack_sack=sackperm, mss=mss, sackperm=sackperm, sack=mode,
              ts=rng.random() < 0.4, quiet_ooo=True, drop=[x], wnd=30000, synwnd=30000,
              rules=[dict(on='data', n=rng.randrange(x + 1, 11), do='dupacks', count=k, step=step)])


def fam_latedup(rng, i):
    # the very first segment is lost (no RTT sample: the timer runs for 1 s); three duplicate ACKs arrive late: F7 territory
    late = [850, 100, 500, 700][i % 4]
    return mk(rng, 'latedup%d-%dms' % (i, late), 8 * 250, stack_sack=False, mss=250, quiet_ooo=True, drop=[1], wnd=30000, synwnd=30000,
              rules=[dict(on='data', n=4, do='dupacks', count=3, after_ms=late)])


def fam_partial(rng, i):
    mss = rng.choice([200, 400])
    x = rng.randrange(1, 9)
    keep = [1, mss // 2, mss - 1, 7][i % 4]
    quiet = i % 3 == 2           # no duplicate ACKs afterwards: the remainder can only come back by timeout
    return mk(rng, 'partial%d-seg%d-keep%d%s' % (i, x, keep, '-quiet' if quiet else ''), rng.choice([12, 18]) * mss, mss=mss, quiet_ooo=quiet,
              sackperm=rng.random() < 0.5, sack=rng.choice(['', 'valid']), ts=rng.random() < 0.4, wnd=30000, synwnd=30000,
              # (with stretch ACKs the mid-segment ACK also covers whole segments that were not acknowledged one by one)
              ack_every=[1, 3, 4, 5][i % 4], delack_ms=400,
              rules=[dict(on='data', n=x, do='partial', bytes=keep)])


def fam_multiloss(rng, i):
    mss = rng.choice([200, 300])
    n = rng.choice([14, 20, 28])
    lost = sorted(rng.sample(range(1, 11), rng.choice([2, 2, 3])))
    return mk(rng, 'multiloss%d-n%d-%s' % (i, n, lost), n * mss, mss=mss, drop=lost, sackperm=rng.random() < 0.5, sack=rng.choice(['', 'valid', 'dsack']),
              ts=rng.random() < 0.4, wnd=40000, synwnd=40000, delay_ms=rng.choice([0, 0, 2, 10]))


def fam_lossinrec(rng, i):
    # The first segment of a 10-segment flight is lost: nine duplicate ACKs, fast retransmit on the third, and the window
    # inflation of the later ones lets segments 11.. out WHILE the loss is being recovered.  One of those is lost too:
    # y = 11 is the first byte beyond the recovery point (the boundary of the RFC 6582 "recover" rule), y = 12, 13 lie beyond it.
    mss = rng.choice([200, 300])
    y = [12, 11, 13, 12][i % 4]
    return mk(rng, 'lossinrec%d-lost1-then-seg%d' % (i, y), 24 * mss, mss=mss, drop=[1], drop_off=[dict(off=(y - 1) * mss, times=1)],
              sackperm=i % 2 == 0, sack='valid' if i % 2 == 0 else '', wnd=40000, synwnd=40000)


def fam_silent(rng, i):
    mss = rng.choice([200, 400])
    at = [0, 5, 12, 3][i % 4]
    dur = [3300, 1500, 1700, 3600][i % 4]
    n = [1, 3, 6, 10, 16][i % 5] + at
    rule = dict(on='up', do='silent', ms=dur) if at == 0 else dict(on='data', n=at, do='silent', ms=dur)
    return mk(rng, 'silent%d-at%d-%dms-n%d' % (i, at, dur, n), n * mss, mss=mss, ts=rng.random() < 0.3, wnd=40000, synwnd=40000, rules=[rule],
              cc=rng.choice(['', '', 'reno', 'cubic']))


def fam_ackevery(rng, i):
    mss = rng.choice([300, 400])
    k = [2, 3, 5, 8, 2, 4][i % 6]
    d = [0, 5, 20, 60, 150, 1][i % 6] if i % 12 < 6 else rng.choice([0, 3, 40, 110])
    n = rng.choice([30, 50])
    return mk(rng, 'stretch%d-k%d-rtt%d' % (i, k, d), n * mss, mss=mss, ack_every=k, delack_ms=rng.choice([20, 40, 100]), delay_ms=d, ts=(i % 2 == 0),
              sackperm=rng.random() < 0.5, sack=rng.choice(['', 'valid']), drop=[rng.randrange(3, 25)] if rng.random() < 0.6 else [], wnd=60000, synwnd=60000,
              cc=rng.choice(['', '', '', 'cubic']))


def fam_bogus(rng, i):
    mss = rng.choice([200, 536])
    n = rng.choice([14, 24])
    rules = []
    for k in sorted(rng.sample(range(2, 14), 3)):
        if rng.random() < 0.5:
            rules.append(dict(on='data', n=k, do='ackfuture', bytes=rng.choice([1, 100, 5000, 1000000]), count=rng.choice([1, 1, 3]), wnd=rng.choice([-1, -1, 60000, 100])))
        else:
            rules.append(dict(on='data', n=k, do='oldack', bytes=rng.choice([1, mss, 5 * mss]), count=rng.choice([1, 2, 4]), wnd=rng.choice([-1, 65000, 0])))
    return mk(rng, 'bogus%d' % i, n * mss, mss=mss, rules=rules, wnd=20000, synwnd=20000, drop=[rng.randrange(2, 12)] if i % 2 else [], ts=rng.random() < 0.3,
              sackperm=rng.random() < 0.5, sack=rng.choice(['', 'nonsense']))


def fam_bidi(rng, i):
    mss = rng.choice([536, 1460])
    peerbytes = rng.choice([1, 700, 5000, 20000])
    rules = [dict(on=['up', 'ms', 'rcvd'][i % 3], n=[0, 30, 2000][i % 3], do='write', bytes=peerbytes)]
    if i % 2:
        rules.append(dict(on='rcvd', n=3000, do='write', bytes=1500))
    finfirst = i % 4 == 1
    if finfirst:
        rules.append(dict(on='ms', n=rng.choice([50, 200]), do='fin'))          # the peer closes first (a's FIN comes later)
    a = dict(read_delay_us=rng.choice([0, 0, 500, 3000]))
    if i % 3 == 1:
        a['rcvbuf'] = rng.choice([500, 2000, 4096])                            # a's own window closes and re-opens as its reader drains
        a['read_start_ms'] = rng.choice([0, 100, 300])
    return mk(rng, 'bidi%d-p%d%s' % (i, peerbytes, '-finfirst' if finfirst else ''), rng.choice([100, 6000, 15000]), mss=mss, ws=rng.choice([-1, 0, 5]),
              ts=rng.random() < 0.5, sackperm=rng.random() < 0.5, rules=rules, a=a, passive=(i % 5 == 4), closing=not finfirst, chunked=True,
              wnd=20000, synwnd=20000, drop=[rng.randrange(1, 8)] if i % 4 == 2 else [])


def fam_dataacks(rng, i):
    # the peer sends DATA segments of its own while a's first segment is missing: the same ack number arrives four or more
    # times, but not in duplicate ACKs (RFC 5681: a duplicate ACK carries no data): no early retransmission is justified
    mss = rng.choice([250, 300])
    return mk(rng, 'dataacks%d' % i, 9 * mss, mss=mss, quiet_ooo=True, drop=[1], wnd=30000, synwnd=30000, ts=(i % 2 == 1),
              rules=[dict(on='data', n=rng.choice([2, 3, 5]), do='write', bytes=rng.choice([6000, 9000]))])


def fam_random(rng, i):
    mss = rng.choice([0, 1, 8, 100, 300, 536, 1460])
    mtu = rng.choice([1500, 1500, 576, 200])
    ws = rng.choice([-1, -1, 0, 2, 6])
    ts = rng.random() < 0.5
    sackperm = rng.random() < 0.5
    sc = mk(rng, 'rnd%d' % i, 1, mtu=mtu, passive=rng.random() < 0.15, mss=mss, ws=ws, ts=ts, sackperm=sackperm,
            sack=rng.choice(['', 'valid', 'dsack', 'nonsense']), ack_every=rng.choice([1, 1, 2, 3]), delay_ms=rng.choice([0, 0, 0, 2, 15, 70]),
            delack_ms=rng.choice([20, 40]), quiet_ooo=rng.random() < 0.2, fixed_edge=rng.random() < 0.3, cc=rng.choice(['', '', 'reno', 'cubic']))
    e = eff_mss(sc)
    nseg = rng.choice([6, 15, 30, 45])
    if sc['peer']['delay_ms'] >= 15:
        nseg = min(nseg, 15)                        # one window per emulated round trip: keep the run short
    sc['a']['writes'] = tcplib.chunks(rng, max(10, min(nseg * e, 16000)), 16000)
    w = rng.choice([e, 2 * e + 1, 8 * e, 20 * e, 60000])
    if ws > 0:
        w = max(1 << ws, (w >> ws) << ws)
    sc['peer']['wnd'], sc['peer']['synwnd'] = w, min(65535, rng.choice([w, w, max(1, w // 2)]))
    nd = max(2, sum(sc['a']['writes']) // e)
    sc['peer']['drop'] = sorted(set(rng.randrange(1, nd + 8) for _ in range(rng.choice([0, 1, 2, 4]))))
    rules = []
    for _ in range(rng.choice([0, 1, 2, 3])):
        at = rng.randrange(1, nd + 4)
        kind = rng.choice(['dupacks', 'partial', 'wnd', 'ackfuture', 'oldack', 'silent', 'write', 'ack'])
        r = dict(on='data', n=at, do=kind)
        if kind == 'dupacks':
            r.update(count=rng.choice([1, 2, 3, 4, 6]), step=rng.choice([0, 0, 0, 50, -50]))
            if w + r['step'] * r['count'] < e:
                r['step'] = abs(r['step'])          # (never shrink the window to nothing: nobody would re-open it)
        elif kind == 'partial':
            r.update(bytes=rng.randrange(1, max(2, e)))
        elif kind == 'wnd':
            r.update(wnd=rng.choice([0, 1, e, w // 2, w, 2 * w]), count=1)
            rules.append(dict(on='data', n=at, do='wnd', wnd=w, count=rng.choice([1, 2]), gap_ms=30, after_ms=rng.choice([10, 100, 600])))
        elif kind == 'ackfuture':
            r.update(bytes=rng.choice([1, 300, 70000]), count=1, wnd=-1)
        elif kind == 'oldack':
            r.update(bytes=rng.choice([1, e, 4 * e]), count=rng.choice([1, 3]), wnd=rng.choice([-1, 65000]))
        elif kind == 'silent':
            r.update(ms=rng.choice([300, 900, 1600]))
        elif kind == 'write':
            r.update(bytes=rng.choice([1, 400, 3000]))
        rules.append(r)
    if sc['peer']['fixed_edge']:
        rules.append(dict(on='zero', n=1, do='wnd', wnd=w, count=rng.choice([1, 2]), gap_ms=30, after_ms=rng.choice([5, 80, 500])))
        rules.append(dict(on='zero', n=2, do='wnd', wnd=w, count=1, after_ms=20))
        for k in range(3, 10):
            rules.append(dict(on='zero', n=k, do='wnd', wnd=60000, count=2, gap_ms=20, after_ms=20))
    sc['peer']['rules'] = rules + sc['peer']['rules']
    return sc


def regress_partial(k):
    """Deterministic regression scenarios for fixed finding F27 (an ACK in the middle of a segment trimmed the queued segment
    without advancing its sequence number: the remainder went out under the old number, then the connection live-locked):
    the peer keeps only a prefix of one data segment and acknowledges exactly that; with duplicate ACKs for the segments that
    follow (fast retransmit of the remainder) and without (the remainder comes back by timeout)."""
    import random
    rng = random.Random(2700 + k)
    mss, seg, keep, quiet = [(400, 5, 1, False), (400, 3, 399, False), (200, 7, 100, True), (300, 1, 7, False), (536, 9, 535, True), (100, 2, 50, False)][k % 6]
    sc = mk(rng, 'f27-partial-ack-%d-mss%d-seg%d-keep%d%s' % (k, mss, seg, keep, '-quiet' if quiet else ''), 18 * mss, stack_sack=(k % 2 == 0), mss=mss,
            quiet_ooo=quiet, wnd=30000, synwnd=30000, ack_every=[1, 4][(k // 6) % 2] if k < 6 else 4, delack_ms=400,
            rules=[dict(on='data', n=seg, do='partial', bytes=keep), dict(on='up', do='write', bytes=60)])
    sc['seed'] = 2700 + k
    sc['family'] = 'regress-f27'
    return sc


FAMILIES = {
    # family: (generator, weight for C04, weight for C05)
    'mss': (fam_mss, 12, 2), 'ws': (fam_ws, 9, 1), 'smallwnd': (fam_smallwnd, 8, 1), 'zerownd': (fam_zerownd, 8, 1), 'shrink': (fam_shrink, 6, 1),
    'dupk': (fam_dupk, 1, 16), 'latedup': (fam_latedup, 0, 4), 'partial': (fam_partial, 2, 8), 'multiloss': (fam_multiloss, 1, 6),
    'lossinrec': (fam_lossinrec, 0, 4), 'silent': (fam_silent, 0, 5), 'stretch': (fam_ackevery, 1, 8), 'bogus': (fam_bogus, 4, 5),
    'shrinkloss': (fam_shrinkloss, 4, 4), 'bidi': (fam_bidi, 6, 3), 'dataacks': (fam_dataacks, 0, 3), 'random': (fam_random, 10, 10),
}


def scenarios(rng, props, n):
    col = 1 if 'C04' in props else 2
    tot = sum(v[col] for v in FAMILIES.values())
    scs = []
    for name in sorted(FAMILIES):
        gen, w = FAMILIES[name][0], FAMILIES[name][col]
        if w == 0:
            continue
        for i in range(max(1 if n < 40 else 2, (n * w + tot - 1) // tot)):
            sc = gen(rng, i)
            sc['family'] = name
            scs.append(sc)
    return scs


# ----------------------------------------------------------------------------------------------------------- trace statistics
def trace_stats(sc, seg):
    """what a raw-peer trace exercised (facts about the trace, used by the vacuity guards)"""
    st = dict(dup3=False, fastretx=False, partial_ack=False, zero_window=False, reopened=False, mss_binding=0, scaled_window_used=False, shrunk=False,
              retx=0, timeout_runs=0, ack_future=0, old_ack=0, sack_arrivals=0, peer_bytes=0, tiny_window=False)
    p = sc['peer']
    hdr = (60 if sc['v'] == 6 else 40) + (12 if p['ts'] else 0)
    ws = {'a': -1, 'b': -1}
    sent = []                 # (off, end) of data a emitted
    seen = set()
    emitmax = 0
    una = 0
    run, last = 0, None
    edge_best = -1
    edge_raw_best = -1        # best edge if the window field were NOT scaled
    silent_retx = 0
    wnd0 = False
    for e in seg:
        ev = e.get('ev')
        if ev == 'emit' and 'S' in e.get('flags', ''):
            ws[e['e']] = e.get('ws', -1)
        scale = min(ws['b'], 14) if ws['a'] >= 0 and ws['b'] >= 0 else 0
        if ev == 'emit' and e.get('e') == 'a' and e.get('len', 0) > 0:
            off, end = e['seq'] - 1, e['seq'] - 1 + e['len']
            if any(o <= off < x for o, x in sent):
                st['retx'] += 1
                silent_retx += 1
                if silent_retx == 2:
                    st['timeout_runs'] += 1
                if run >= 3 and off == una:
                    st['fastretx'] = True
            sent.append((off, end))
            emitmax = max(emitmax, end)
            if p['mss'] > 0 and e['len'] == p['mss'] and p['mss'] < sc['mtu'] - hdr:
                st['mss_binding'] += 1
            if scale > 0 and end > edge_raw_best >= 0:
                st['scaled_window_used'] = True
        if ev == 'arrive' and e.get('to') == 'a':
            silent_retx = 0
            fl = e.get('flags', '')
            if e.get('len', 0) > 0:
                st['peer_bytes'] += e['len']
            if e.get('sack'):
                st['sack_arrivals'] += 1
            if 'A' in fl and 'R' not in fl and e.get('ack', -1) > -900000:
                syn = 'S' in fl
                acked = e['ack'] - 1
                edge = acked + (e['wnd'] if syn else e['wnd'] << scale)
                if not syn:
                    if edge < edge_best:
                        st['shrunk'] = True
                    if e['wnd'] == 0:
                        st['zero_window'], wnd0 = True, True
                    elif wnd0:
                        st['reopened'], wnd0 = True, False
                    if 0 < (e['wnd'] << scale) < eff_mss(sc):
                        st['tiny_window'] = True
                    if acked > emitmax + 1:
                        st['ack_future'] += 1
                    elif acked < una:
                        st['old_ack'] += 1
                    elif acked > una:
                        if any(o < acked < x for o, x in sent):
                            st['partial_ack'] = True
                        una, run, last = acked, 0, None
                    elif e.get('len', 0) == 0 and emitmax > acked:
                        key = (e['ack'], e['wnd'])
                        run = run + 1 if key == last or last is None else 1
                        last = key
                        if run >= 3:
                            st['dup3'] = True
                edge_best = max(edge_best, edge)
                edge_raw_best = max(edge_raw_best, acked + e['wnd'])
    return st


GUARDS = {
    'C04': [('zero_window', 'a zero window reached the stack'), ('reopened', 'a zero window was re-opened'), ('mss_binding', 'a segment was limited by the peer MSS alone (MSS < MTU - headers)'),
            ('scaled_window_used', 'data was sent that only the SCALED window allows (ws > 0)'), ('shrunk', 'the peer moved its right edge left'),
            ('tiny_window', 'a window smaller than one segment was offered'), ('peer_bytes', 'the peer sent data of its own')],
    'C05': [('dup3', 'three duplicate ACKs with an unchanged window arrived'), ('fastretx', 'a retransmission followed the third duplicate ACK'),
            ('partial_ack', 'an ACK for the middle of a segment arrived'), ('timeout_runs', 'two successive timeout retransmissions while the peer was silent'),
            ('ack_future', 'an ACK of data never sent arrived'), ('old_ack', 'an old ACK arrived'), ('sack_arrivals', 'ACKs with SACK blocks arrived')],
}


# ----------------------------------------------------------------------------------------------------------- entry point
def raw_peer(ctx, props, n_quick, n_thorough):
    drv = ctx.go_build('tcprawd')
    rng = ctx.rng
    n = ctx.pick(n_quick, n_thorough)
    scs = scenarios(rng, props, n)
    name = 'raw' + ''.join(props).lower()
    what = 'TCP against a scripted raw peer (%s)' % '+'.join(props)
    try:
        segs, stats, rep = tcplib.run_pair(ctx, drv, scs, props, name, what=what, classify=tcplib.classify_all, kind='rawpeer', judge_unfinished=True)
    except vlib.Inconclusive as e:
        if 'panic' not in str(e) and 'fatal error' not in str(e):
            raise
        # the driver process died: a panic inside the real stack (it runs in goroutines of its own, the driver cannot recover
        # it).  Find the scenarios that kill it (each alone in a process of its own): that is behaviour of the code under test.
        crashed = crashing_scenarios(ctx, drv, scs, name)
        if not crashed:
            raise
        for i, msg in crashed:
            ctx.violation('%s: the stack panicked in scenario %s: %s' % (what, scs[i].get('tag'), msg), dict(kind='rawpeer', scenario=scs[i], panic=msg))
        dead = set(i for i, _ in crashed)
        scs = [sc for i, sc in enumerate(scs) if i not in dead]
        segs, stats, rep = tcplib.run_pair(ctx, drv, scs, props, name + 'b', what=what, classify=tcplib.classify_all, kind='rawpeer', judge_unfinished=True)
        stats['stack_panics'] = len(dead)
    if 'C04' in props:
        # SYN-cookie opens form a batch of their own (the switch is process-global in the driver)
        csc = [dict(fam_cookie(rng, i), family='cookie') for i in range(ctx.pick(6, 30))]
        csegs, cstats, crep = tcplib.run_pair(ctx, drv, csc, props, name + 'ck', what=what + ', SYN-cookie opens', classify=tcplib.classify_all, kind='rawpeer', judge_unfinished=True)
        ndata = sum(1 for sg in csegs for e in sg if e.get('ev') == 'emit' and e.get('e') == 'a' and e.get('kind') == 'data')
        ctx.extra['rawpeer_cookie_opens'] = dict(scenarios=len(csc), data_segments=ndata, stats=cstats)
        if ndata == 0 and not crep:
            raise vlib.Inconclusive('vacuity: no data segment was sent on a connection opened through a SYN cookie')
    fams = {}
    tot = {}
    per = []
    for sc, seg in zip(scs, segs):
        st = trace_stats(sc, seg)
        per.append(st)
        f = fams.setdefault(sc['family'], dict(scenarios=0, done=0))
        f['scenarios'] += 1
        f['done'] += 1 if seg[-1].get('why') in ('done', 'script-end') else 0
        for k, v in st.items():
            tot[k] = tot.get(k, 0) + (int(v) if not isinstance(v, bool) else (1 if v else 0))
    out = dict(stats)
    out.update(families=fams, scenarios_exercising=tot, reported=len(rep))
    out['syn_options'] = dict(mss=sorted(set(sc['peer']['mss'] for sc in scs)), ws=sorted(set(sc['peer']['ws'] for sc in scs)),
                              ts=sorted(set(sc['peer']['ts'] for sc in scs)), sackperm=sorted(set(sc['peer']['sackperm'] for sc in scs)),
                              passive_open_of_the_stack=sum(1 for sc in scs if sc['a'].get('passive')))
    ctx.extra['raw_peer'] = out
    if stats['accepted'] == 0:
        _inconclusive(ctx, 'raw peer: no trace was accepted')
    # vacuity guards: the behaviours this driver exists for must really have reached the stack
    for p in props:
        for key, txt in GUARDS.get(p, []):
            if not tot.get(key):
                _inconclusive(ctx, 'raw peer vacuity (%s): in no scenario %s' % (p, txt))
    ctx.sample(dict(kind='rawpeer-scenario', scenario=scs[0]))
    if 'C05' in props:
        # regression for fixed finding F27, judged with the C01 clauses (the bytes on the wire) as well as the C05 ones
        regs = [regress_partial(k) for k in range(ctx.pick(4, 6))] + [regress_partial(6 + k) for k in range(ctx.pick(3, 6))]
        rsegs, rstats, rrep = tcplib.run_pair(ctx, drv, regs, ['C01', 'C05'], name + '-f27', what='mid-segment ACK (regression of fixed finding F27, clauses C01+C05)',
                                              classify=tcplib.classify_all, kind='rawpeer', judge_unfinished=True)
        hit = 0
        for sc, seg in zip(regs, rsegs):
            st = trace_stats(sc, seg)
            acks = set(e['ack'] for e in seg if e['ev'] == 'arrive' and e.get('to') == 'a' and 'S' not in e.get('flags', ''))
            cuts = set(e['seq'] for e in seg if e['ev'] == 'emit' and e.get('e') == 'a' and e.get('len', 0) > 0) & acks
            # the remainder of the partially acknowledged segment was really sent again, starting at the acknowledged byte
            if st['partial_ack'] and any(e['ev'] == 'emit' and e.get('e') == 'a' and e.get('len', 0) > 0 and e['seq'] in cuts and e['seq'] % sc['peer']['mss'] != 1 for e in seg):
                hit += 1
        out['f27_regression'] = dict(scenarios=len(regs), remainder_retransmitted=hit, accepted=rstats['accepted'], reported=len(rrep))
        if hit == 0:
            _inconclusive(ctx, 'raw peer vacuity: no regression scenario produced a retransmission that starts in the middle of a segment')
        out['f28_reproduced_this_run'] = 'F28' in ctx.known_hits
    selftest(ctx, props, scs, segs, per, rep)
    ctx.assumptions += ['raw peer: endpoint b is a script (reset.raw_b): the clauses of TraceTcp bind endpoint a only; synchronous hand-over (hook H6) makes log order causal order']
    return segs, stats


def _inconclusive(ctx, msg):
    """a vacuity guard / self-test failed: inconclusive - unless violations were already reported (a broken stack also breaks the
    preconditions of the guards; the verdict is then the violation, exit 1, not exit 2)"""
    if ctx.violations:
        ctx.extra.setdefault('raw_peer_guards_failed', []).append(msg[:300])
        return
    raise vlib.Inconclusive(msg)


def crashing_scenarios(ctx, drv, scs, name):
    """run every scenario alone in its own driver process; return [(index, first lines of the panic)] of those that kill it"""
    import concurrent.futures
    import os
    import re

    def one(i):
        sp = os.path.join(ctx.work, '%s-solo%d.json' % (name, i))
        tp = os.path.join(ctx.work, '%s-solo%d.ndjson' % (name, i))
        vlib.write_json(sp, [scs[i]])
        p = ctx.run([drv, 'pair', sp, tp, '1'], timeout=300, ok_rc=None)
        for f in (sp, tp):
            if os.path.exists(f):
                os.remove(f)
        if p.returncode == 0:
            return None
        err = p.stderr.decode('utf-8', 'replace')
        m = re.search(r'(panic: .*|fatal error: .*)', err)
        if not m:
            return None
        where = re.findall(r'^(github.com/brewlin/net-protocol/\S+)\(', err, re.M)
        return (i, (m.group(1) + (' at ' + where[0] if where else ''))[:300])
    with concurrent.futures.ThreadPoolExecutor(max_workers=8) as ex:
        return [r for r in ex.map(one, range(len(scs))) if r]


def _ok(seg):
    return seg and seg[-1].get('ev') == 'end' and seg[-1].get('why') in ('done', 'script-end')


def selftest(ctx, props, scs, segs, per, reported):
    """binding self-test on recorded raw-peer traces: a corrupted copy must be rejected by the same validation path"""
    tc = tcplib.tcfg(props)
    bad = []
    clean = [i for i in range(len(scs)) if _ok(segs[i]) and i not in reported and not any(segs[i][0].get(f) for f in tcplib.KF_FLAG.values())]
    if 'C04' in props:
        # (1) every window that reached the stack is zero: the data it sent lies beyond the edge
        i = next((i for i in clean if sum(1 for e in segs[i] if e['ev'] == 'emit' and e.get('e') == 'a' and e.get('len', 0) > 0) > 3), None)
        if i is not None:
            b = copy.deepcopy(segs[i])
            for e in b:
                if e['ev'] == 'arrive' and e.get('to') == 'a':          # every ACK, and the SYN of a scripted active opener
                    e['wnd'] = 0
            bad.append(('rawpeer-window-zeroed', b))
        # (2) the MSS the peer announced is one byte smaller than recorded
        i = next((i for i in clean if per[i]['mss_binding'] > 0), None)
        if i is not None:
            b = copy.deepcopy(segs[i])
            for e in b:
                if e['ev'] == 'emit' and e.get('e') == 'b' and 'S' in e.get('flags', ''):
                    e['mss'] -= 1
            bad.append(('rawpeer-mss-minus-one', b))
        # (3) a peer that moved its edge left is accepted only because it is declared a script
        i = next((i for i in clean if per[i]['shrunk']), None)
        if i is not None:
            b = copy.deepcopy(segs[i])
            b[0]['raw_b'] = False
            bad.append(('rawpeer-script-declared-real', b))
    if 'C05' in props:
        # (1) the retransmission after the third duplicate ACK is missing
        # (a scenario in which the mandate is certain: one loss, four or more duplicate ACKs with one and the same window)
        i = next((i for i in clean if per[i]['fastretx'] and scs[i]['family'] == 'dupk' and per[i]['retx'] == 1
                  and any(r.get('do') == 'dupacks' and r.get('count', 0) >= 4 and not r.get('step') for r in scs[i]['peer']['rules'])), None)
        if i is not None:
            b = copy.deepcopy(segs[i])
            seen, cut = [], None
            for k, e in enumerate(b):
                if e['ev'] == 'emit' and e.get('e') == 'a' and e.get('len', 0) > 0:
                    if any(o <= e['seq'] < x for o, x in seen):
                        cut = k
                        break
                    seen.append((e['seq'], e['seq'] + e['len']))
            if cut is not None:
                del b[cut]
                bad.append(('rawpeer-fastretx-missing', b))
                # ... and the switch that tolerates known finding F28 (no fast retransmit for a segment first sent DURING a
                # recovery) must not excuse a missing fast retransmit for an ordinary segment
                b2 = copy.deepcopy(b)
                b2[0]['kf_f28'] = True
                bad.append(('rawpeer-fastretx-missing-kf28-on', b2))
        # (2) a timeout retransmission 50 ms after the previous transmission
        i = next((i for i in clean if per[i]['timeout_runs'] > 0), None)
        if i is not None:
            b = copy.deepcopy(segs[i])
            seen, lastretx, done = set(), None, False
            for e in b:
                if e['ev'] == 'arrive' and e.get('to') == 'a':
                    lastretx = None
                if e['ev'] == 'emit' and e.get('e') == 'a' and e.get('len', 0) > 0:
                    if e['seq'] in seen:
                        if lastretx is not None and lastretx[0] == e['seq']:
                            e['t'], done = lastretx[1] + 50000, True
                            break
                        lastretx = (e['seq'], e['t'])
                    seen.add(e['seq'])
            if done:
                bad.append(('rawpeer-early-timeout', b))
    if 'C01' in props:
        # one byte of a data segment the stack put on the wire is not the byte the application wrote at that offset
        i = next((i for i in clean if any(e['ev'] == 'emit' and e.get('e') == 'a' and e.get('len', 0) > 0 and e.get('pay') for e in segs[i])), None)
        if i is not None:
            b = copy.deepcopy(segs[i])
            for e in b:
                if e['ev'] == 'emit' and e.get('e') == 'a' and e.get('len', 0) > 0 and e.get('pay'):
                    e['pay'][0] = (e['pay'][0] + 1) % 256
                    break
            bad.append(('rawpeer-wire-byte', b))
    names = []
    for nm, b in bad:
        a, rj = vlib.validate_segments(ctx, 'TraceTcp', tc, SPEC, [b], name='selftest-' + nm, count=False)
        if not rj:
            _inconclusive(ctx, 'raw peer binding self-test failed: %s accepted' % nm)
        names.append(nm)
    if not names:
        _inconclusive(ctx, 'raw peer binding self-test: no recorded trace was suitable')
    ctx.extra['raw_peer']['binding_selftest'] = names
