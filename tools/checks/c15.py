"""C15 - header codecs and the Internet checksum.

Spec: spec/codec (Codec = reference: RFC layouts as data + Enc/Dec, Sum1071 /
Combine, TCP option grammar and the I-specs of the two option parsers;
OptParse = the parsers as state machines; CodecVec = one TLC start that
checks the ASSUME-level facts and evaluates the reference on test vectors).
Binding: harness/codecd compares protocol/header with the values TLC wrote.
"""
import concurrent.futures
import json
import os

import vlib
from vlib import cfg, MV

MANIFEST = dict(
    technique='TLA+ reference Codec (RFC field layouts as data with Enc/Dec, RFC 1071 Sum1071/Combine, TCP option grammar) evaluated by TLC to '
              'produce expected bytes / sums / parse results; the two option parsers transcribed as state machines and explored exhaustively by TLC '
              'with lazily chosen input (every byte string over the option alphabet up to the bound, as cylinders) and over encoder sequences; '
              'Go driver compares protocol/header (Encode, setters, getters, option encoders and parsers, Checksum and friends) with those values',
    text='TLC checks exhaustively, for every byte string over the 11-symbol option alphabet up to length 7 (thorough 9) and for every encoder sequence '
         'of <= 4 option instances plus padding and their truncations, that the transcribed ParseSynOptions/ParseTCPOptions never read at an index >= limit, '
         'always advance or return, and recover exactly the options the sequence encodes; every one of those strings is then run through the real parsers '
         '(no panic, same result as the spec). Header layouts are ASSUME-checked (fields disjoint, tile the fixed header, Dec inverts Enc); the bytes TLC '
         'computes for per-field boundary/walking-one/seeded-random records and the sums TLC computes per RFC 1071 are compared with the real encoders, getters and checksum routines.',
    design='5 C15',
    note='Codec fidelity is at the edge of the TLA+ family: the specification contributes an executable reference, not a state space. Expected bytes, sums and '
         'parse results come from the TLA+ reference evaluated by TLC; what TLC enumerates exhaustively is the option-parser input space up to the stated length '
         '(length 9 strings are replayed with sampled fills of the unread positions) and the encoder-sequence grammar over a fixed list of option instances. '
         'Coverage of wide fields (> 16 bits: addresses, sequence numbers, timestamps, SACK edges) is sampled: 0, 1, max-1, max, every walking-one bit and seeded '
         'random records; fields <= 16 bits (thorough: <= 20) are swept exhaustively in Go against a 40-line generic bit packer that interprets the layout table '
         'exported from the spec (trusted, cross-checked against every TLC vector). All 2^16 initial values on 8 buffers and the ChecksumCombine grid (thorough: all '
         '2^32 pairs) are compared with an 8-line Go re-implementation of the spec\'s Combine/Sum1071 (trusted, cross-checked against every TLC sum); buffers up to '
         '65535 bytes are covered by a handful of cases, not every length. 0x0000/0xffff are treated as the same one\'s-complement number; the verdict on sums is '
         'taken from equality modulo that and from "the packet carrying the complemented sum verifies". ICMP: the library only knows type/code/checksum, the rest '
         'of the layouts (echo id/seq, NS/NA target) is bound only through Payload(). DNS: Setheader can only emit a standard query with RD. An MSS option of 0 is '
         'outside the encoder grammar (the library treats it as malformed and stops parsing). Parse results on malformed strings are implementation-defined; a '
         'difference there is reported as model drift, a panic always as a violation. Round 8: SACK blocks into limited option space (0..6 blocks into 0..45 bytes): the reference table SackFit is evaluated by TLC in CodecVec; the encoder must write exactly the leading blocks that fit, nothing outside its buffer, and the parser must recover them.')

# several JVMs run side by side here; the default of one GC thread per core only adds contention
os.environ.setdefault('JDK_JAVA_OPTIONS', '-XX:ParallelGCThreads=2')

SPEC = ['codec']
ALPHABET = [0, 1, 2, 3, 4, 5, 8, 10, 18, 171, 255]   # EOL NOP MSS WS SACKperm SACK TS; lengths 0..4,10,18,255; 171 unknown kind / data
PNAME = {0: 'ParseTCPOptions', 1: 'ParseSynOptions(isAck=false)', 2: 'ParseSynOptions(isAck=true)'}


# ------------------------------------------------------------------ inputs
def gen_inputs(ctx):
    rng = ctx.rng
    thorough = ctx.thorough()
    sums = []
    inits = [0, 1, 0xfffe, 0xffff]
    k = 0
    for n in range(0, 65):
        for cls in range(4):
            buf = ([0] * n, [255] * n, [i % 256 for i in range(n)], [rng.randrange(256) for _ in range(n)])[cls]
            for init in inits + [rng.randrange(65536), rng.randrange(65536)]:
                sums.append(dict(buf=buf, init=init, alg=(k % 23 == 0)))
                k += 1
    if thorough:
        for n in (1499, 1500, 65534, 65535):
            for cls in range(4):
                buf = ([0] * n, [255] * n, [i % 256 for i in range(n)], [rng.randrange(256) for _ in range(n)])[cls]
                for init in (0, 0xffff, rng.randrange(65536)):
                    sums.append(dict(buf=buf, init=init, alg=False))

    def rb(n):
        return [rng.randrange(256) for _ in range(n)]

    pkts = []
    for ihl in range(5, 16):
        for _ in range(ctx.pick(1, 6)):
            hdr = [0x40 | ihl] + rb(19 + 4 * (ihl - 5))
            pkts.append(dict(kind='ip4', src=[], dst=[], hdr=hdr, payload=[]))
    plens = [0, 1, 2, 3, 17, 64, 255] + ([1460, 1461, 65000] if thorough else [])
    for _ in range(ctx.pick(2, 8)):
        for alen in (4, 16):
            for pl in plens:
                doff = rng.randrange(5, 16)
                hdr = rb(12) + [doff << 4] + rb(7 + 4 * (doff - 5))
                pkts.append(dict(kind='tcp', src=rb(alen), dst=rb(alen), hdr=hdr, payload=rb(pl)))
                ulen = 8 + pl
                pkts.append(dict(kind='udp', src=rb(alen), dst=rb(alen), hdr=rb(4) + [ulen >> 8, ulen & 255] + rb(2), payload=rb(pl)))
    # corner: everything that can be zero is zero / all ones
    pkts.append(dict(kind='tcp', src=[0] * 4, dst=[0] * 4, hdr=[0] * 12 + [0x50] + [0] * 7, payload=[]))
    pkts.append(dict(kind='udp', src=[255] * 16, dst=[255] * 16, hdr=[255] * 8, payload=[255] * 9))
    ga = [0, 1, 2, 0xff, 0x100, 0x7fff, 0x8000, 0xfeff, 0xfffe, 0xffff]
    gb = list(ga)
    if thorough:
        ga = list(range(65536))
        gb += [rng.randrange(65536) for _ in range(6)]
    else:
        ga += [rng.randrange(65536) for _ in range(54)]
        gb += [rng.randrange(65536) for _ in range(54)]
    letters = [ord(c) for c in 'abcxyz019-']
    dnsq = [dict(labels=[[119, 119, 119], [101, 120, 97, 109, 112, 108, 101], [99, 111, 109]], qtype=1, qclass=1),
            dict(labels=[[97]], qtype=65535, qclass=255), dict(labels=[[rng.choice(letters) for _ in range(63)]], qtype=28, qclass=1)]
    for _ in range(ctx.pick(5, 40)):
        dnsq.append(dict(labels=[[rng.choice(letters) for _ in range(rng.randrange(1, 12))] for _ in range(rng.randrange(1, 5))],
                         qtype=rng.randrange(65536), qclass=rng.randrange(65536)))
    return dict(pool=rb(4096), nrand=ctx.pick(20, 200), sums=sums, pkts=pkts, grid_a=ga, grid_b=gb, dnsq=dnsq)


def sset(xs):
    return MV('{%s}' % ', '.join(('"%s"' % x) if isinstance(x, str) else str(x) for x in xs))


def optcfg(modes, parsers, lazyparsers=(0, 2), minlen=0, maxlen=0, maxlene=3, maxops=0, maxcut=0, maxcut2=0, big=False, slack=0, props=('Progress',), spec='Spec'):
    return cfg(spec=spec, constants=dict(Parsers=sset(parsers), Modes=sset(modes), LazyParsers=sset(lazyparsers), MinLen=minlen, MaxLen=maxlen,
                                         MaxLenE=maxlene, MaxOps=maxops, MaxCut=maxcut, MaxCut2=maxcut2, Alphabet=sset(ALPHABET), Big=big, Slack=slack),
               invariants=['InBounds', 'NoStuck', 'Recovered'], properties=list(props))


def drive(ctx, drv, args, jobfile=None, job=None):
    if job is not None:
        vlib.write_json(jobfile, job)
    out = ctx.run([drv] + args, timeout=3000)
    try:
        return json.loads(out.stdout)
    except Exception:
        raise vlib.Inconclusive('driver produced no JSON: %s %s' % (out.stdout[-500:], out.stderr[-1500:]))


def harness_trouble(res, where):
    bad = [m for m in res['mismatches'] if m['kind'] in ('harness', 'model')]
    if bad:
        raise vlib.Inconclusive('%s: harness/model self-check failed (not a verdict on the code): %s' % (where, json.dumps(bad[0])[:1500]))


# ------------------------------------------------------------- the two chains
def codec_chain(ctx, drv, inp):
    """TLC evaluates the reference (CodecVec), then vectors, sweep and sums on the real code."""
    r = ctx.tlc('CodecVec', cfg(invariants=['Checked']), SPEC, name='CodecVec', workers=1, must_pass=True, timeout=2400,
                files={'in.json': json.dumps(inp)})
    outp = os.path.join(r.dir, 'out.json')
    if not os.path.exists(outp):
        raise vlib.Inconclusive('CodecVec wrote no out.json')
    out = json.load(open(outp))
    if len(out['sums']) != len(inp['sums']) or len(out['pkts']) != len(inp['pkts']):
        raise vlib.Inconclusive('CodecVec output does not match its input')
    vec = drive(ctx, drv, ['vec', outp])
    sweep = drive(ctx, drv, ['sweep', outp, str(ctx.seed), str(ctx.pick(16, 20)), str(min(ctx.workers, 8))])
    sumjob = dict(sums=[dict(buf=c['buf'], init=c['init'], want=w) for c, w in zip(inp['sums'], out['sums'])],
                  pkts=[dict(p, want=w['cksum'], pseudo=w['pseudo']) for p, w in zip(inp['pkts'], out['pkts'])],
                  grid_a=inp['grid_a'], grid_b=inp['grid_b'], grid=out['grid'], full_grid=ctx.thorough(), seed=ctx.seed,
                  workers=min(ctx.workers, 8))
    sm = drive(ctx, drv, ['sum', os.path.join(ctx.work, 'sumjob.json')], os.path.join(ctx.work, 'sumjob.json'), sumjob)
    return dict(outp=outp, out=out, vec=vec, sweep=sweep, sum=sm, sumjob=sumjob)


def opt_run(ctx, drv, name, conf, cap, fut_codec=None, big=False, workers=None):
    """One OptParse TLC run (must pass) + replay of its dumped terminal states into the real parsers."""
    t = ctx.tlc('OptParse', conf, SPEC, name='OptParse-' + name, workers=workers or max(1, ctx.workers - 1), must_pass=True, timeout=3000,
                extra=['-dump', 'states.txt'])
    dump = os.path.join(t.dir, 'states.txt.dump')
    outp = fut_codec.result()['outp'] if fut_codec is not None else ''   # instance tables come from the CodecVec run
    jf = os.path.join(ctx.work, 'optsjob-%s.json' % name)
    job = dict(alphabet=ALPHABET, dump=dump, out=outp, big=big, cap=cap, seed=ctx.seed, workers=min(ctx.workers, 8))
    res = drive(ctx, drv, ['opts', jf], jf, job)
    os.remove(dump)
    res['tlc'] = dict(distinct=t.distinct, wall_s=round(t.wall, 1))
    return res


def apalache(ctx, inv, expect_ok):
    """E6: Ones!Combine over all of (0..65535)^3, decided by Apalache (thorough tier)."""
    import shutil
    d = ctx.subdir('apa-' + inv)
    for fn in ('Ones.tla', 'OnesApa.tla'):
        shutil.copy(os.path.join(vlib.SPEC, 'codec', fn), os.path.join(d, fn))
    env = dict(os.environ)
    env.pop('JDK_JAVA_OPTIONS', None)
    p = ctx.run(['apalache-mc', 'check', '--length=0', '--inv=' + inv, '--out-dir=' + os.path.join(d, 'out'), 'OnesApa.tla'], cwd=d, timeout=1200,
                ok_rc=None, env=env)
    out = p.stdout.decode('utf-8', 'replace')
    ok = 'The outcome is: NoError' in out
    err = 'The outcome is: Error' in out
    if not (ok or err):
        raise vlib.Inconclusive('apalache gave no verdict on %s: %s' % (inv, out[-1500:]))
    if ok != expect_ok:
        raise vlib.Inconclusive('apalache: %s expected to %s, outcome %s' % (inv, 'hold' if expect_ok else 'be refuted', 'NoError' if ok else 'Error'))
    return 'NoError' if ok else 'Error'


def slack_selftest(ctx, parsers):
    """sensitivity self-test of InBounds: a seeded off-by-one in one bound check must be refuted by TLC"""
    for pz in parsers:
        s = ctx.tlc('OptParse', optcfg(['lazy'], [pz], lazyparsers=[pz], maxlen=4, slack=1), SPEC, name='OptParse-slack-%d' % pz, workers=1, count=False)
        if s.ok or s.violated != 'InBounds':
            raise vlib.Inconclusive('self-test: I-spec with a loosened bound (parser %d) was expected to violate InBounds, got %s' % (pz, s.violated))


def parser_chain(ctx, drv, fut_codec):
    """E1 on the option parsers + replay of every enumerated string / encoder sequence into the real parsers."""
    A = len(ALPHABET)
    if not ctx.thorough():
        runs = [('all', opt_run(ctx, drv, 'all', optcfg(['lazy', 'eager', 'enc'], [0, 1, 2], maxlen=7, maxops=3, maxcut=9, maxcut2=0), A ** 7, fut_codec))]
        slack_selftest(ctx, [2])
        return runs
    w = max(1, ctx.workers // 2)     # two TLC runs side by side

    def strings():
        return [('lazy8', opt_run(ctx, drv, 'lazy8', optcfg(['lazy', 'eager'], [0, 1, 2], maxlen=8), A ** 8, workers=w)),
                ('lazy9', opt_run(ctx, drv, 'lazy9', optcfg(['lazy'], [0, 2], minlen=9, maxlen=9), A ** 3, workers=w))]

    def sequences():
        rs = [('enc-small4', opt_run(ctx, drv, 'enc-small4', optcfg(['enc'], [0, 1, 2], maxops=4, maxcut=9, maxcut2=0), 0, fut_codec, workers=w)),
              ('enc-big3', opt_run(ctx, drv, 'enc-big3', optcfg(['enc'], [0, 1, 2], maxops=3, maxcut=9, maxcut2=0, big=True), 0, fut_codec, big=True, workers=w))]
        # termination as a liveness property (small configuration: liveness checking is what costs)
        ctx.tlc('OptParse', optcfg(['eager', 'enc'], [0, 1, 2], maxlene=3, maxops=2, maxcut=9, props=['Progress', 'Terminates'], spec='FairSpec'), SPEC,
                name='OptParse-live', workers=w, must_pass=True, timeout=3000)
        ctx.extra['apalache'] = dict(cmd='apalache-mc check --length=0 --inv=Inv OnesApa.tla',
                                     Inv=apalache(ctx, 'Inv', True), InvBad_selftest=apalache(ctx, 'InvBad', False),
                                     claim='Combine total on 16 bits, commutative, associative, = sum mod 65535 with 0 only from 0+0, x + ~x = 0xffff; '
                                           'for all a, b, c in 0..65535')
        slack_selftest(ctx, [2, 0])
        return rs

    with concurrent.futures.ThreadPoolExecutor(max_workers=2) as ex:
        f1, f2 = ex.submit(strings), ex.submit(sequences)
        return f1.result() + f2.result()


# -------------------------------------------------------------------- verdicts
def hexs(v):
    """byte lists as hex, everything else as is (for the one-line description of a violation)"""
    if isinstance(v, list) and v and all(isinstance(x, int) and 0 <= x < 256 for x in v):
        return ''.join('%02x' % x for x in v)[:160]
    return str(v)[:160]


def report_codec(ctx, what, res, limit=3):
    n = 0
    for m in res['mismatches']:
        if m['kind'] in ('harness', 'model'):
            continue
        n += 1
        if n > limit:
            break
        hdr = m.get('header') or ''
        msg = '%s%s%s: %s (want %s, got %s)' % (what, ' ' + hdr if hdr else '', '.' + m['field'] if m.get('field') else '', m['what'],
                                                 hexs(m.get('want')), hexs(m.get('got')))
        ctx.violation(msg, dict(kind=what, mismatch=m))


def report_opts(ctx, what, res, limit=3):
    nv = 0
    drift = set()
    order = dict(panic=0, encode=1, result=2)
    for m in sorted(res['mismatches'], key=lambda m: order.get(m['kind'], 3)):
        k = m['kind']
        if k in ('harness', 'model'):
            continue
        ex = m.get('extra') or {}
        pname = PNAME.get(ex.get('pz'), '?')
        if k == 'panic':
            nv += 1
            if nv <= limit:
                ctx.violation('%s panics (reads outside its input) on option bytes %s: %s' % (pname, hexs(m['input']), m['got']), dict(kind='opts', mismatch=m))
        elif k == 'encode':
            nv += 1
            if nv <= limit:
                ctx.violation('TCP option encoders produce %s, RFC encoding of the sequence is %s' % (m['got'], m['want']), dict(kind='opts', mismatch=m))
        elif ex.get('wellformed'):
            nv += 1
            if nv <= limit:
                ctx.violation('%s does not recover the options of the well-formed string %s: want %s, got %s' % (pname, hexs(m['input']), m['want'], m['got']),
                              dict(kind='opts', mismatch=m))
        else:
            msg = '%s on malformed option bytes %s: I-spec %s, code %s' % (pname, hexs(m['input']), m['want'], m['got'])
            if msg not in drift and len(drift) < 4:
                ctx.model_drift(msg)
            drift.add(msg)


def run(ctx):
    drv = ctx.go_build('codecd')
    inp = gen_inputs(ctx)
    with concurrent.futures.ThreadPoolExecutor(max_workers=2) as ex:
        fc = ex.submit(codec_chain, ctx, drv, inp)
        fp = ex.submit(parser_chain, ctx, drv, fc)
        codec = fc.result()
        pars = fp.result()

    # ---- harness / model self-consistency first: trouble there is never a verdict on the code
    for name in ('vec', 'sweep', 'sum'):
        harness_trouble(codec[name], name)
    for name, e in pars:
        harness_trouble(e, 'option run ' + name)
        if not e['extra']['lazy']['partition_ok']:
            raise vlib.Inconclusive('lazy cylinders do not tile Alphabet^n: %s' % json.dumps(e['extra']['lazy']['per_parser_len'])[:1500])
        if e['extra']['eager']['disagree_with_lazy']:
            raise vlib.Inconclusive('eager and lazy runs of the parser spec disagree')

    # ---- vacuity guard: every way a parser run can end and every option kind occurs among the terminal states
    ends, feat = {}, {}
    for _n, e in pars:
        for k, v in e['extra']['ends'].items():
            ends[k] = ends.get(k, 0) + v
        for k, v in e['extra']['features'].items():
            feat[k] = feat.get(k, 0) + v
    need = ['%s/%d/%d' % (md, pz, d) for md in ('lazy', 'enc') for pz in (0, 2) for d in (1, 2, 3)]
    missing = [k for k in need if not ends.get(k)] + [k for k in ('tcp.ts', 'tcp.sack', 'syn.mss', 'syn.ws', 'syn.ts', 'syn.sackperm') if not feat.get(k)]
    if missing:
        raise vlib.Inconclusive('vacuity guard: no terminal state for %s' % missing)
    ctx.extra['terminal_states_by_mode_parser_end'] = ends
    ctx.extra['terminal_states_with_option'] = feat

    # ---- verdicts
    report_codec(ctx, 'vector', codec['vec'])
    report_codec(ctx, 'sweep', codec['sweep'])
    report_codec(ctx, 'checksum', codec['sum'])
    for name, e in pars:
        report_opts(ctx, name, e)

    # ---- binding self-tests: a corrupted expectation must be noticed by the driver
    st = ctx.subdir('selftest')
    out = codec['out']
    bad = dict(out, vectors={h: [dict(v) for v in vs[:3]] for h, vs in out['vectors'].items()}, dnsq=[])
    bad['vectors']['ipv4'][0] = dict(bad['vectors']['ipv4'][0], bytes=[b ^ (1 if i == 8 else 0) for i, b in enumerate(bad['vectors']['ipv4'][0]['bytes'])])
    vlib.write_json(os.path.join(st, 'out.json'), bad)
    r1 = drive(ctx, drv, ['vec', os.path.join(st, 'out.json')])
    sj = dict(codec['sumjob'], sums=[dict(c) for c in codec['sumjob']['sums'][200:204]], pkts=[], grid_a=[], grid_b=[], grid=[], full_grid=False)
    sj['sums'][1]['want'] = (sj['sums'][1]['want'] + 1) % 65535
    r2 = drive(ctx, drv, ['sum', os.path.join(st, 'sum.json')], os.path.join(st, 'sum.json'), sj)
    with open(os.path.join(st, 'states.txt.dump'), 'w') as f:
        f.write('State 1:\n/\\ d = 1\n/\\ i = 4\n/\\ o = <<2, 4, 1, 2>>\n/\\ r = <<259, -1, 0, <<0, 0, 0, 0>>, <<0, 0, 0, 0>>, 0>>\n/\\ mx = 3\n/\\ pz = 2\n/\\ md = "lazy"\n/\\ sq = <<>>\n\n')
    jb = dict(alphabet=ALPHABET, dump=os.path.join(st, 'states.txt.dump'), out='', big=False, cap=10, seed=1, workers=1)
    r3 = drive(ctx, drv, ['opts', os.path.join(st, 'job.json')], os.path.join(st, 'job.json'), jb)
    if not (r1['n_mismatch'] and r2['n_mismatch'] and r3['n_mismatch']):
        raise vlib.Inconclusive('binding self-test failed: a corrupted expectation was accepted (vec %d, sum %d, opts %d)' % (
            r1['n_mismatch'], r2['n_mismatch'], r3['n_mismatch']))
    ctx.extra['binding_selftest'] = 'flipped vector byte, off-by-one sum and wrong MSS in a cylinder result were all reported by the driver; ' \
                                    'I-spec with a loosened bound check refuted by TLC (InBounds)'

    # ---- evidence
    nvec, nsweep, nsum = codec['vec']['cases'], codec['sweep']['cases'], codec['sum']['cases']
    nstr = sum(e['extra']['lazy']['strings_run'] + e['extra']['eager']['strings'] for _n, e in pars)
    nenc = sum(e['extra']['enc']['sequences'] for _n, e in pars)
    ctx.traces += nvec + nsweep + nsum + nstr + nenc
    ctx.extra.update(
        evaluations=nvec + nsweep + nsum + nstr + nenc + codec['sum']['extra']['init_sweep_evals'] + codec['sum']['extra']['combine_pairs'],
        distinct_nontrivial=nvec + nstr + nenc,
        rule='distinct = distinct (header, record) vectors + distinct option byte strings + distinct encoder sequences, each compared with the value TLC computed; '
             'all are non-trivial (each exercises at least one field / one parser iteration) except the empty option string',
        exhaustive=False,
        explanation='expected values from the TLA+ reference evaluated by TLC; exhaustive over option strings up to the bound and over fields <= 16 bits, sampled otherwise',
        vectors_from_tlc=nvec, vectors_per_header=codec['vec']['extra']['per_header'], fields_with_getters=codec['vec']['extra']['fields_with_getters'],
        sweep_cases_go_packer=nsweep, swept_fields=codec['sweep']['extra']['swept'],
        checksum=dict(from_tlc=dict(sum_cases=len(inp['sums']), packets=len(inp['pkts']), combine_grid=len(inp['grid_a']) * len(inp['grid_b']),
                                    longest_buffer=max(len(c['buf']) for c in inp['sums'])),
                      from_go_reimplementation_of_spec_definition=dict(init_sweep_evals=codec['sum']['extra']['init_sweep_evals'],
                                                                        combine_pairs=codec['sum']['extra']['combine_pairs']),
                      zero_representation_differences=codec['sum']['extra']['zero_representation_differences']),
        option_runs={n_: dict(tlc=e['tlc'], dump=e['extra']['dump'], lazy=e['extra']['lazy'], eager=e['extra']['eager'], enc=e['extra']['enc'])
                     for n_, e in pars},
        option_alphabet=ALPHABET,
        library_size_constants=codec['vec']['extra']['size_constants'])
    v = out['vectors']['ipv4'][len(out['vectors']['ipv4']) // 2]
    ctx.sample(dict(kind='vector', header='ipv4', rec=v['rec'], bytes_from_tlc=v['bytes']))
    v = out['vectors']['tcp'][-1]
    ctx.sample(dict(kind='vector', header='tcp', rec=v['rec'], bytes_from_tlc=v['bytes']))
    c = codec['sumjob']['sums'][777]
    ctx.sample(dict(kind='sum', buf=c['buf'], init=c['init'], sum_from_tlc=c['want']))
    p = codec['sumjob']['pkts'][-3]
    ctx.sample(dict(kind='packet', pkt={k: (v if k != 'payload' else v[:16]) for k, v in p.items()}))
    for _n, e in pars:
        for sm in e['extra']['samples'][:3]:
            ctx.sample(dict(kind='option-string', **sm), limit=8)
    ctx.sample(dict(kind='dns-question', q=out['dnsq'][0]), limit=9)
    ctx.sample(dict(kind='encoder-instances', inst=[i['op'] for i in out['inst_small']]), limit=10)
    ctx.assumptions += [
        'trusted: generic bit packer/unpacker in harness/codecd (interprets the layout table exported from the spec; equal to TLC Enc on every vector)',
        'trusted: refCombine/refSum in harness/codecd (8-line re-implementation of the spec\'s Combine/Sum1071; equal to TLC on every TLC sum case)',
        'API units: IPv4Fields.IHL and TCPFields.DataOffset are bytes (field*4), IPv4 FragmentOffset is bytes (field*8), IPv6 fragment offset is the field value',
        'headers are encoded into zeroed buffers (Encode does not clear reserved bits)',
        'field values wider than 30 bits are byte strings in the spec (TLC integers are 32-bit)',
        'option alphabet %s; cylinders = classes of strings that agree on every position the parser spec reads' % ALPHABET,
        'MSS=0 and truncated options are outside the encoder grammar; results on malformed strings are compared at I-spec level (drift), panics at P level']


def replay(ctx, data):
    """python3 tools/vcheck C15 --replay <file>: every input of a tier is a deterministic function of (tier, seed),
    so the recorded case is reproduced by running that tier again with the recorded seed."""
    import random
    ctx.tier = data.get('tier', 'quick')
    ctx.seed = int(data.get('seed', 1))
    ctx.rng = random.Random(ctx.seed)
    ctx.log('replaying %s: %s' % (data.get('property'), data.get('what')))
    run(ctx)
