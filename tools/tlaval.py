"""Parser for TLC's textual values and states.

Handles: integers, strings, booleans, model values (bare identifiers),
sequences/tuples <<...>>, sets {...}, records [a |-> v, ...], functions
(k :> v @@ k2 :> v2), intervals a..b (expanded to a list).
Python mapping: seq -> list, set -> ('set', [..]) flattened to sorted list by
default (sets are returned as lists tagged by the wrapper class TSet), record
-> dict, function -> dict with keys converted to str/int.
"""
import re


class TSet(list):
    """A TLA+ set (order as printed by TLC)."""
    pass


_tok = re.compile(r'''\s*(?:
    (?P<str>"(?:[^"\\]|\\.)*")|
    (?P<num>-?\d+)|
    (?P<sym><<|>>|\|->|:>|@@|\.\.|[\[\]\(\)\{\},])|
    (?P<id>[A-Za-z_][A-Za-z0-9_!]*)
)''', re.X)


def _tokens(s):
    pos = 0
    out = []
    n = len(s)
    while pos < n:
        m = _tok.match(s, pos)
        if not m:
            if s[pos:].strip() == '':
                break
            raise ValueError('bad TLA value at %r' % s[pos:pos + 40])
        pos = m.end()
        if m.group('str') is not None:
            raw = m.group('str')[1:-1]
            out.append(('str', raw.replace('\\"', '"').replace('\\\\', '\\').replace('\\n', '\n').replace('\\t', '\t')))
        elif m.group('num') is not None:
            out.append(('num', int(m.group('num'))))
        elif m.group('sym') is not None:
            out.append(('sym', m.group('sym')))
        else:
            out.append(('id', m.group('id')))
    return out


class _P:
    def __init__(self, toks):
        self.t = toks
        self.i = 0

    def peek(self):
        return self.t[self.i] if self.i < len(self.t) else (None, None)

    def eat(self, kind=None, val=None):
        k, v = self.peek()
        if (kind and k != kind) or (val is not None and v != val):
            raise ValueError('expected %s %s got %s %s' % (kind, val, k, v))
        self.i += 1
        return v

    def value(self):
        k, v = self.peek()
        if k == 'str':
            self.i += 1
            return v
        if k == 'num':
            self.i += 1
            if self.peek() == ('sym', '..'):
                self.i += 1
                hi = self.eat('num')
                return TSet(range(v, hi + 1))
            return v
        if k == 'id':
            self.i += 1
            if v == 'TRUE':
                return True
            if v == 'FALSE':
                return False
            return v
        if k == 'sym':
            if v == '<<':
                self.i += 1
                out = []
                while self.peek() != ('sym', '>>'):
                    out.append(self.value())
                    if self.peek() == ('sym', ','):
                        self.i += 1
                self.eat('sym', '>>')
                return out
            if v == '{':
                self.i += 1
                out = TSet()
                while self.peek() != ('sym', '}'):
                    out.append(self.value())
                    if self.peek() == ('sym', ','):
                        self.i += 1
                self.eat('sym', '}')
                return out
            if v == '[':
                self.i += 1
                out = {}
                while self.peek() != ('sym', ']'):
                    name = self.eat('id')
                    self.eat('sym', '|->')
                    out[name] = self.value()
                    if self.peek() == ('sym', ','):
                        self.i += 1
                self.eat('sym', ']')
                return out
            if v == '(':
                self.i += 1
                out = {}
                while True:
                    key = self.value()
                    self.eat('sym', ':>')
                    val = self.value()
                    out[_key(key)] = val
                    if self.peek() == ('sym', '@@'):
                        self.i += 1
                        continue
                    break
                self.eat('sym', ')')
                return out
        raise ValueError('unexpected token %s %s' % (k, v))


def _key(k):
    if isinstance(k, (int, str)):
        return k
    return repr(k)


def parse_value(s):
    p = _P(_tokens(s))
    v = p.value()
    if p.i != len(p.t):
        raise ValueError('trailing tokens in %r' % s[:80])
    return v


_conj = re.compile(r'^/\\ ([A-Za-z_][A-Za-z0-9_]*) = ', re.M)


def parse_state(text):
    """Parse a TLC state printed as a conjunction `/\\ var = value` (one or
    more lines per variable) or a single `var = value`."""
    text = text.strip()
    if not text.startswith('/\\'):
        m = re.match(r'^([A-Za-z_][A-Za-z0-9_]*) = ', text)
        return {m.group(1): parse_value(text[m.end():])}
    out = {}
    ms = list(_conj.finditer(text))
    for a, m in enumerate(ms):
        end = ms[a + 1].start() if a + 1 < len(ms) else len(text)
        out[m.group(1)] = parse_value(text[m.end():end])
    return out


def parse_dot(path):
    """Parse `tlc -dump dot,actionlabels` output.
    Returns (nodes: id -> state dict (lazily parsed text), edges: list of
    (src, dst, label), init: list of initial ids)."""
    nodes = {}
    edges = []
    init = []
    node_re = re.compile(r'^(-?\d+) \[label="((?:[^"\\]|\\.)*)"(.*)\]\s*;?$')
    edge_re = re.compile(r'^(-?\d+) -> (-?\d+) \[label="((?:[^"\\]|\\.)*)"')
    with open(path) as f:
        for line in f:
            line = line.rstrip('\n')
            m = edge_re.match(line)
            if m:
                edges.append((m.group(1), m.group(2), _unesc(m.group(3))))
                continue
            m = node_re.match(line)
            if m:
                nid = m.group(1)
                if nid not in nodes:
                    nodes[nid] = _unesc(m.group(2))
                if 'style = filled' in m.group(3):
                    init.append(nid)
    return nodes, edges, init


def _unesc(s):
    return s.replace('\\n', '\n').replace('\\"', '"').replace('\\\\', '\\')


_act = re.compile(r'^([A-Za-z_][A-Za-z0-9_]*)(?:\((.*)\))?$')


def parse_action(label):
    """'LockSwap(p2)' -> ('LockSwap', ['p2'])"""
    m = _act.match(label.strip())
    if not m:
        return label, []
    args = []
    if m.group(2) is not None and m.group(2).strip() != '':
        args = parse_value('<<' + m.group(2) + '>>')
    return m.group(1), args


def parse_simulation(path):
    """Parse a file written by `tlc -simulate file=...`: returns list of
    (action_name_or_None, args, state dict)."""
    out = []
    cur_act = None
    buf = []
    with open(path) as f:
        lines = f.read().split('\n')
    head = re.compile(r'^\\\* <([A-Za-z_][A-Za-z0-9_]*)(?:\((.*)\))? line ')
    for ln in lines + ['STATE_END ==']:
        if ln.startswith('STATE_'):
            if buf:
                out.append((cur_act[0], cur_act[1], parse_state('\n'.join(buf))))
                buf = []
            continue
        m = head.match(ln)
        if m:
            if buf:
                out.append((cur_act[0], cur_act[1], parse_state('\n'.join(buf))))
                buf = []
            args = parse_value('<<' + m.group(2) + '>>') if m.group(2) else []
            cur_act = (m.group(1), args)
            continue
        if ln.startswith('\\*') or ln.strip() == '' or ln.startswith('----') or ln.startswith('===='):
            if ln.startswith('\\* <Initial') or 'Initial predicate' in ln:
                cur_act = (None, [])
            continue
        if cur_act is None:
            cur_act = (None, [])
        buf.append(ln)
    return out


if __name__ == '__main__':
    import sys, json
    print(json.dumps(parse_value(sys.argv[1])))
