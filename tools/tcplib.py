"""Shared pieces of the TCP checks (C01, C02, C04, C05, C14): scenario
generation for the pair driver (harness/tcpd) and validation of its traces by
TLC against spec/tcp/TraceTcp.tla with the clauses of one property enabled."""
import json
import os
import vlib
from vlib import cfg, MV

SPEC = ['tcp']


def tcfg(props):
    return cfg(spec='TSpec', constants=dict(Check=MV('{' + ', '.join('"%s"' % p for p in props) + '}')),
               constraint='HWMark', postcondition='Accepted')


def chunks(rng, total, maxchunk):
    out = []
    while total > 0:
        n = min(total, rng.choice([1, 2, 3, 7, 64, 100, 536, 1000, 1460, 3000, maxchunk]))
        n = max(1, min(n, maxchunk))
        out.append(n)
        total -= n
    return out


def random_scenario(rng, i, maxbytes=4000, faults=True, bidir=None, iss=None):
    mtu = rng.choice([1500, 1500, 576, 200, 100, 68])
    # a transfer is at most ~250 segments long: the trace validator's bookkeeping is quadratic in the number of segments
    # of one connection, and a 32 KB transfer over a 68-byte MTU (2000 segments) adds nothing a 4 KB one does not have
    maxbytes = min(maxbytes, 250 * max(mtu - 52, 8))
    tot_a = rng.choice([1, 10, 100, 1000, maxbytes // 2, maxbytes])
    bid = rng.random() < 0.5 if bidir is None else bidir
    tot_b = rng.choice([1, 50, 500, maxbytes // 2]) if bid else 0
    sc = dict(v=rng.choice([4, 4, 4, 6]), mtu=mtu, sack=rng.random() < 0.5, cc=rng.choice(['', '', 'reno', 'cubic']),
              a=dict(writes=chunks(rng, tot_a, maxbytes), shutdown=True, read_delay_us=rng.choice([0, 0, 0, 200, 2000])),
              b=dict(writes=chunks(rng, tot_b, maxbytes), shutdown=True, read_delay_us=rng.choice([0, 0, 0, 200, 2000])),
              seed=rng.randrange(1, 1 << 30), deadline_ms=60000, tag='rnd%d' % i, flags={})
    if mtu == 68 and sc['v'] == 6:
        sc['mtu'] = 1280
    if rng.random() < 0.3:
        sc['b']['rcvbuf'] = rng.choice([1, 100, 500, 2000, 4096])
        if sc['b']['rcvbuf'] <= 100:
            # a tiny receive buffer means a segment per few bytes: keep those transfers short
            cap = 300 if sc['b']['rcvbuf'] == 1 else 2000
            w, acc = [], 0
            for x in sc['a']['writes']:
                x = min(x, cap - acc)
                if x > 0:
                    w.append(x)
                    acc += x
            sc['a']['writes'] = w or [min(cap, 100)]
    if rng.random() < 0.2:
        sc['a']['sndbuf'] = rng.choice([100, 1000, 4096])
    if faults:
        for d in ('a2b', 'b2a'):
            if rng.random() < 0.7:
                sc[d] = dict(loss=rng.choice([0, 0.05, 0.1, 0.2]), dup=rng.choice([0, 0.05, 0.1]), hold=rng.choice([0, 0.05, 0.15]),
                             budget=rng.choice([1, 2, 4, 8, 16]), replay=rng.choice([0, 0, 0.1]),
                             coalesce=rng.choice([0, 0, 0.1, 0.3]))
    if iss is not None:
        sc['a']['iss'] = iss
    return sc


WRAP_ISS = [[0x7fff, 0xff00], [0x7fff, 0xffff], [0x8000, 0x0000], [0xffff, 0xff00], [0xffff, 0xfffe], [0xffff, 0xffff], [0, 0], [0, 1]]


def run_pair(ctx, drv, scs, props, name, parallel=48, classify=None, what='TCP behaviour', kind='pair', judge_unfinished=False):
    """Run scenarios on the real stacks, validate every trace against the P-spec clauses of `props`.
    A rejected scenario is re-run once alone (verdict rule: reproduce); only a reproduced rejection is reported.
    `drv` is any driver with the command line of harness/tcpd (`<drv> pair scenarios.json out.ndjson parallel`) that writes
    the event schema of TraceTcp: the pair driver (two real stacks; kind='pair') or the raw-peer driver harness/tcprawd
    (one real stack against a scripted peer, its own scenario format; kind='rawpeer', recorded in the replay files).
    judge_unfinished: also validate traces that were cut off by the scenario deadline (every clause but the end-of-scenario
    ones of C02 is a safety clause, so a prefix of a run is judged soundly; a scripted peer can drive the stack into a
    live-lock whose trace would otherwise never be looked at)."""
    sp = os.path.join(ctx.work, name + '-scen.json')
    tp = os.path.join(ctx.work, name + '-trace.ndjson')
    vlib.write_json(sp, scs)
    ctx.run([drv, 'pair', sp, tp, str(parallel)], timeout=3000)
    segs = [[] for _ in scs]
    for e in vlib.read_ndjson(tp):
        segs[e.pop('sc')].append(e)
    for i, s in enumerate(segs):
        if not s or s[0].get('ev') != 'reset':
            raise vlib.Inconclusive('scenario %d produced no trace' % i)
        if any(e.get('ev') == 'panic' for e in s):
            ctx.violation('%s: the stack panicked in scenario %s: %s' % (what, scs[i].get('tag'), [e for e in s if e.get('ev') == 'panic'][0].get('what')),
                          dict(kind=kind, scenario=scs[i]))
    # a pinned ISS (hook H4) must be the one on the wire, otherwise the wrap scenarios silently test nothing
    for i, s in enumerate(segs):
        want = (scs[i].get('a') or {}).get('iss')
        if want:
            syn = [e for e in s if e.get('ev') == 'emit' and e.get('e') == 'a' and e.get('kind') == 'syn']
            if syn and [syn[0].get('seqraw_hi'), syn[0].get('seqraw_lo')] != list(want):
                raise vlib.Inconclusive('scenario %s: the pinned ISS %r is not the one in the SYN (%r, %r): hook H4 not effective' % (
                    scs[i].get('tag'), want, syn[0].get('seqraw_hi'), syn[0].get('seqraw_lo')))
    ctx.extra['pinned_iss_scenarios'] = ctx.extra.get('pinned_iss_scenarios', 0) + sum(1 for sc in scs if (sc.get('a') or {}).get('iss'))
    inconclusive = [i for i, s in enumerate(segs) if s[-1].get('ev') == 'end' and s[-1].get('why') in ('deadline', 'connect-timeout', 'accept-timeout')]
    unfinished = len(inconclusive)
    # A scenario that ran into its deadline (or never connected) is still a trace of real behaviour: every clause except the
    # end-of-scenario one (End, why = "done") is a safety clause that holds on prefixes, so it is judged too.  (Until the
    # third round of seeded changes such traces were skipped: a sender that corrupts the stream AND stalls went unnoticed.)
    inconclusive = []
    ok_idx = [i for i in range(len(scs)) if i not in inconclusive and not any(e.get('ev') == 'panic' for e in segs[i])]
    tc = tcfg(props)
    if 'C01' not in props:
        # the payload bytes of wire events are only read by the C01 clauses: drop them (two thirds of the trace volume)
        for sg in segs:
            for e in sg:
                if e.get('ev') in ('emit', 'arrive', 'drop') and e.get('pay'):
                    e['pay'] = []
    # Validation in passes: findings the spec can step over (KF_FLAG) that are known and hit once are switched on for every
    # segment that has no verdict yet, and those segments are validated again, so that a frequent known finding (F4 shows up
    # in almost every transfer with default buffers) does not leave the rest of the traces unexamined.
    pending = list(ok_idx)
    acc, rej = 0, []
    for npass in range(5):
        a_, r_ = vlib.validate_segments(ctx, 'TraceTcp', tc, SPEC, [segs[i] for i in pending], name='%s-p%d' % (name, npass), timeout=3000, max_reruns=8)
        unexamined = [pending[k] for k in getattr(ctx, 'last_unexamined', [])]
        newflags = set()
        still = []
        for k, ln in r_:
            i = pending[k]
            key0 = classify(scs[i], segs[i], ln) if classify else None
            if key0 in KF_FLAG and ctx.known(key0) is not None and not segs[i][0].get(KF_FLAG[key0]):
                ctx.violation('%s: %s in scenario %s' % (what, key0, scs[i].get('tag')), dict(kind=kind, scenario=scs[i]), key=key0)
                newflags.add(KF_FLAG[key0])
                still.append(i)
            else:
                rej.append((ok_idx.index(i), ln))
        acc += a_
        if not newflags:
            # segments left unexamined because of the cap stay without a verdict (counted in the evidence)
            break
        pending = still + unexamined
        for i in pending:
            for f in newflags:
                segs[i][0][f] = True
        ctx.extra['unexamined_segments'] = 0
    ok_idx_map = ok_idx
    stats = dict(scenarios=len(scs), accepted=acc, rejected=len(rej), undecided_deadline=len(inconclusive), ended_by_deadline=unfinished,
                 events=sum(len(s) for s in segs), segments_emitted=sum(1 for s in segs for e in s if e['ev'] == 'emit'),
                 faults=sum(1 for s in segs for e in s if e['ev'] == 'drop' or e.get('how') in ('dup', 'held', 'replay')),
                 bytes_read=sum(e.get('n', 0) for s in segs for e in s if e['ev'] == 'read'))
    ctx.traces += acc
    if stats['bytes_read'] == 0:
        raise vlib.Inconclusive('dead driver: no byte was ever read')
    reported = []
    for k, ln in rej:
        i = ok_idx[k]
        # a rejection that has the shape of a known finding is reported as such at once (no re-run needed: the recorded
        # trace itself shows the known shape); where the spec has a switch to step over the finding, the REST of the same
        # trace is judged with the finding tolerated
        key0 = classify(scs[i], segs[i], ln) if classify else None
        if key0 is not None and ctx.known(key0) is not None:
            if key0 not in KF_FLAG:
                ctx.violation('%s: %s in scenario %s' % (what, key0, scs[i].get('tag')), dict(kind=kind, scenario=scs[i]), key=key0)
                continue
            seg0, keyx, lnx, tries = segs[i], key0, ln, 0
            while keyx in KF_FLAG and ctx.known(keyx) is not None and tries < 4:
                tries += 1
                ctx.violation('%s: %s in scenario %s' % (what, keyx, scs[i].get('tag')), dict(kind=kind, scenario=scs[i]), key=keyx)
                seg0[0][KF_FLAG[keyx]] = True
                a3, r3 = vlib.validate_segments(ctx, 'TraceTcp', tc, SPEC, [seg0], name='%s-kf%d-%d' % (name, i, tries), count=False)
                if not r3:
                    keyx = 'tolerated'
                    break
                lnx = r3[0][1]
                keyx = classify(scs[i], seg0, lnx)
            if keyx == 'tolerated':
                ctx.traces += 1
                continue
            if keyx is not None and ctx.known(keyx) is not None and keyx not in KF_FLAG:
                ctx.violation('%s: %s in scenario %s' % (what, keyx, scs[i].get('tag')), dict(kind=kind, scenario=scs[i]), key=keyx)
                continue
        # otherwise reproduce once, alone
        sp2 = os.path.join(ctx.work, '%s-retry%d.json' % (name, i))
        tp2 = os.path.join(ctx.work, '%s-retry%d.ndjson' % (name, i))
        vlib.write_json(sp2, [scs[i]])
        ctx.run([drv, 'pair', sp2, tp2, '1'], timeout=600)
        seg2 = [e for e in vlib.read_ndjson(tp2)]
        for e in seg2:
            e.pop('sc', None)
        a2, r2 = vlib.validate_segments(ctx, 'TraceTcp', tc, SPEC, [seg2], name='%s-retry%d' % (name, i), count=False)
        if not r2:
            ev0 = segs[i][ln] if ln < len(segs[i]) else {}
            ctx.extra.setdefault('unreproduced', []).append(dict(tag=scs[i].get('tag'), at=ln,
                event={k_: v for k_, v in ev0.items() if k_ != 'pay'},
                before=[{k_: v for k_, v in e.items() if k_ not in ('pay', 'seqraw_hi', 'seqraw_lo')} for e in segs[i][max(0, ln - 6):ln]]))
            continue
        ev = seg2[r2[0][1]] if r2[0][1] < len(seg2) else {}
        key = classify(scs[i], seg2, r2[0][1]) if classify else None
        # known findings the spec can step over: report it, then judge the REST of the same trace with the finding tolerated
        tries = 0
        while key in KF_FLAG and ctx.known(key) is not None and tries < 3:
            tries += 1
            ctx.violation('%s: %s in scenario %s' % (what, key, scs[i].get('tag')), dict(kind=kind, scenario=scs[i]), key=key)
            seg2[0][KF_FLAG[key]] = True
            a3, r3 = vlib.validate_segments(ctx, 'TraceTcp', tc, SPEC, [seg2], name='%s-kf%d-%d' % (name, i, tries), count=False)
            if not r3:
                key = 'tolerated'
                break
            r2 = r3
            ev = seg2[r2[0][1]] if r2[0][1] < len(seg2) else {}
            key = classify(scs[i], seg2, r2[0][1]) if classify else None
        if key == 'tolerated':
            continue
        brief = {k_: v for k_, v in ev.items() if k_ not in ('pay', 'a', 'b')}
        ctx.violation('%s rejected by the P-spec (%s) in scenario %s at event %d: %s' % (what, '+'.join(props), scs[i].get('tag'), r2[0][1], brief),
                      dict(kind=kind, scenario=scs[i], events=[{k_: v for k_, v in e.items() if k_ != 'pay'} for e in seg2[max(0, r2[0][1] - 30):r2[0][1] + 1]]), key=key)
        reported.append(i)
    return segs, stats, reported


def sample_trace(seg, n=10):
    return [{k: v for k, v in e.items() if k not in ('pay', 'seqraw_hi', 'seqraw_lo', 'a', 'b')} for e in seg[:n]]


# ----------------------------------------------------------------- known-finding shapes (classification of a rejected trace)
def is_f1(sc, seg, ln):
    """F1: no zero-window probe (persist timer).  Shape: the trace ends in a provably quiet state in which the sender that
    still owes data believes the peer's window is closed (sndWnd = 0), and the receiver had advertised a zero window
    before (the re-opening update was lost, or an older zero-window ACK overtook it)."""
    ev = seg[ln] if ln < len(seg) else {}
    if ev.get('ev') != 'quiesce':
        return False
    for s, r in (('a', 'b'), ('b', 'a')):
        if ev.get(s, {}).get('sndwnd') != 0 or ev.get(s, {}).get('state') != 4:
            continue
        acks = [e for e in seg[:ln] if e['ev'] == 'emit' and e.get('e') == r and 'A' in e.get('flags', '') and 'S' not in e.get('flags', '') and 'R' not in e.get('flags', '')]
        # the receiver closed its window at some point AND has re-opened it since (its latest advertisement is non-zero): the
        # update exists, the sender never learnt of it.  A receiver that still advertises zero after its application drained
        # the buffer is a different defect and is not matched.
        if any(e.get('wnd') == 0 for e in acks) and acks and acks[-1].get('wnd', 0) > 0:
            return True
    return False


def is_f4(sc, seg, ln):
    """F4: with a receive window scale s > 0 the advertised right edge steps left by less than 2^s bytes."""
    ev = seg[ln] if ln < len(seg) else {}
    if ev.get('ev') != 'emit' or 'A' not in ev.get('flags', '') or 'S' in ev.get('flags', '') or 'R' in ev.get('flags', ''):
        return False
    e = ev['e']
    ws = {}
    for x in seg[:ln]:
        if x['ev'] == 'emit' and 'S' in x.get('flags', ''):
            ws[x['e']] = x.get('ws', -1)
    if ws.get('a', -1) < 0 or ws.get('b', -1) < 0 or ws[e] <= 0:
        return False
    sc_ = ws[e]
    best = -1
    for x in seg[:ln]:
        if x['ev'] == 'emit' and x.get('e') == e and 'A' in x.get('flags', '') and 'R' not in x.get('flags', '') and 'S' not in x.get('flags', ''):
            best = max(best, x['ack'] - 1 + x['wnd'] * (1 << sc_))
    edge = ev['ack'] - 1 + ev['wnd'] * (1 << sc_)
    return 0 < best - edge < (1 << sc_)


def is_f5(sc, seg, ln):
    """F5: a stale (reordered) ACK re-opens the send window: data is emitted beyond the best right edge ever offered, and an ACK
    whose ack number is lower than an earlier arrival's had arrived; the emission stays within (highest ack arrived) + (stale window)."""
    ev = seg[ln] if ln < len(seg) else {}
    if ev.get('ev') != 'emit' or ev.get('len', 0) <= 0:
        return False
    e = ev['e']
    ws = {}
    for x in seg[:ln]:
        if x['ev'] == 'emit' and 'S' in x.get('flags', ''):
            ws[x['e']] = x.get('ws', -1)
    peer = 'b' if e == 'a' else 'a'
    scale = ws.get(peer, 0) if ws.get('a', -1) >= 0 and ws.get('b', -1) >= 0 else 0
    acks = [x for x in seg[:ln] if x['ev'] == 'arrive' and x.get('to') == e and 'A' in x.get('flags', '') and 'S' not in x.get('flags', '') and x.get('ack', -1) > -900000]
    best = -1
    hi = max([x['ack'] for x in acks] or [0])
    for x in acks:
        if x['ack'] < best and ev['seq'] - 1 + ev['len'] <= hi - 1 + x['wnd'] * (1 << scale):
            return True
        best = max(best, x['ack'])
    return False


def is_f7(sc, seg, ln):
    """F7: the retransmission timer is not re-armed by a fast / partial-ACK retransmission: the head is retransmitted again less
    than 200 ms after that retransmission (third or later transmission of the segment; the second one followed at least
    two ACK arrivals acknowledging exactly up to it)."""
    ev = seg[ln] if ln < len(seg) else {}
    if ev.get('ev') != 'emit' or ev.get('len', 0) <= 0:
        return False
    e, seq = ev['e'], ev['seq']
    prev = [x for x in seg[:ln] if x['ev'] == 'emit' and x.get('e') == e and x.get('len', 0) > 0 and x.get('seq', 0) <= seq < x.get('seq', 0) + x['len']]
    if len(prev) < 2:
        return False
    tprev, tfirst = prev[-1]['t'], prev[0]['t']
    # cause side: it is the HEAD that the stale timer re-sends: data that an ACK which had arrived already covers wholly is
    # a different defect
    if any(x['ev'] == 'arrive' and x.get('to') == e and 'A' in x.get('flags', '') and x.get('ack', -1) >= seq + ev['len'] for x in seg[:ln]):
        return False
    acks = [x for x in seg[:ln] if x['ev'] == 'arrive' and x.get('to') == e and x.get('ack') == seq and x.get('len', 0) == 0 and tfirst <= x['t'] <= tprev]
    return len(acks) >= 2 and ev['t'] - tprev < 200000


def is_f14(sc, seg, ln):
    """F14: on a path whose MTU leaves no room for any payload next to a full option area (MTU - IP header - 20 - 40 <= 0, i.e. IPv4 MTU <= 80 / IPv6 MTU <= 100: the budget
    is clamped to 1 byte, "make sure we can transmit at least one byte"), a 1-byte data segment that also carries SACK
    blocks exceeds the path MTU by no more than the SACK option.  With room for payload the budget reserves the option area."""
    ev = seg[ln] if ln < len(seg) else {}
    if ev.get('ev') != 'emit' or ev.get('len', 0) != 1 or not ev.get('sack'):
        return False
    mtu = seg[0].get('mtu', 1500)
    if mtu > (100 if seg[0].get('v') == 6 else 80):
        return False
    return ev['iplen'] > mtu and ev['iplen'] - (8 * len(ev['sack']) + 4) <= mtu


def is_f28(sc, seg, ln):
    """F28: a segment FIRST sent while a fast recovery was in progress is never fast-retransmitted (the stack moves its NewReno
    recover mark to SND.NXT-1 when the recovery ends).  Cause-side shape: at the rejected event (the arrival that follows the
    third strict duplicate ACK, or a data emission that is not the mandated retransmission) the endpoint e has received >= 3
    strict duplicate ACKs (same ack, no data, unchanged window, data outstanding) for the segment at SND.UNA, and that
    segment's first emission lies INSIDE a fast-recovery episode: after a fast retransmission (a retransmission of the head
    that followed >= 3 duplicate ACKs) and before the arrival of the ACK that went past that episode's recover point (the
    highest sequence number on the wire when the episode started).  A missing fast retransmit for any other segment is not matched."""
    ev = seg[ln] if ln < len(seg) else {}
    if ev.get('ev') == 'arrive':
        e = ev.get('to')
    elif ev.get('ev') == 'emit' and ev.get('len', 0) > 0:
        e = ev.get('e')
    else:
        return False
    sent = []                  # (seq, end, index) of data emissions of e
    first = {}                 # seq -> index of the first emission that carried the byte seq (filled lazily)
    una, dups, loose, lastw = 1, 0, 0, None      # dups: strict count (as the spec counts); loose: same ack, no data
    emitmax = 1
    episodes = []              # [start index, recover (seq just beyond the highest byte sent at the start), end index or None]
    for k, x in enumerate(seg[:ln]):
        if x['ev'] == 'emit' and x.get('e') == e and x.get('len', 0) > 0:
            s0, s1 = x['seq'], x['seq'] + x['len']
            covered = any(a <= s0 < b for a, b, _ in sent)
            if covered and s0 == una and loose >= 3 and (not episodes or episodes[-1][2] is not None):
                episodes.append([k, emitmax, None])
            sent.append((s0, s1, k))
            emitmax = max(emitmax, s1)
        elif x['ev'] == 'arrive' and x.get('to') == e and 'A' in x.get('flags', '') and 'S' not in x.get('flags', '') and 'R' not in x.get('flags', '') \
                and x.get('ack', -1) > -900000:
            a = x['ack']
            if a > emitmax + 1:
                dups, lastw = 0, x['wnd']
            elif a > una:
                una, dups, loose, lastw = a, 0, 0, x['wnd']
                if episodes and episodes[-1][2] is None and a >= episodes[-1][1]:
                    episodes[-1][2] = k
            elif a == una and x.get('len', 0) == 0 and 'F' not in x.get('flags', '') and emitmax > a:
                dups = dups + 1 if x['wnd'] == lastw else 0
                loose += 1
                lastw = x['wnd']
            else:
                dups, lastw = 0, x['wnd']
    if dups < 3:
        return False
    firsts = [k for s0, s1, k in sent if s0 <= una < s1]
    if not firsts:
        return False
    f0 = min(firsts)
    return any(st < f0 and end is not None and f0 < end and una >= rec for st, rec, end in episodes)


KF_FLAG = {'F4': 'kf_f4', 'F7': 'kf_f7', 'F14': 'kf_f14', 'F28': 'kf_f28'}      # findings the spec can step over so that the rest of the trace is still judged


def classify_all(sc, seg, ln):
    # (F5 is FIXED: a fixed finding suppresses nothing, and its shape must not shadow the shapes of the known ones either: an
    # emission that matched is_f5 was reported as a plain violation instead of known finding F7 - seed-dependent, found by the
    # multi-seed sweep)
    for key, fn in (('F1', is_f1), ('F4', is_f4), ('F14', is_f14), ('F28', is_f28), ('F7', is_f7)):
        try:
            if fn(sc, seg, ln):
                return key
        except Exception:
            pass
    return None
