#!/bin/bash
# usage: tools/seedconfirm.sh <PROPERTY-ID> <worktree> [name]
# Confirms a seeded change kept by a sub-agent in <worktree>/_seed (patch.diff, demonstration, meta.json):
#  demonstration fails with the change and passes without it, the pinned tests pass with it, and then
#  runs the property's quick check against the changed tree. Copies the artefacts to /verif/seeded/<name>/.
ID=$1; WT=$2; NAME=${3:-$ID}
export GOFLAGS=-mod=mod GOPROXY=off GOSUMDB=off GOTOOLCHAIN=local
cd "$WT" || exit 2
DEMO=$(python3 -c "import json;print(json.load(open('_seed/meta.json'))['demo_cmd'])")
echo "== demo cmd: $DEMO"
git diff > /tmp/seedconfirm-$NAME.diff
if [ ! -s /tmp/seedconfirm-$NAME.diff ]; then echo "no change applied in $WT"; exit 2; fi
( timeout 900 bash -c "$DEMO" ) > /tmp/seedconfirm-$NAME.with 2>&1; RC_WITH=$?
git apply -R /tmp/seedconfirm-$NAME.diff || { echo 'cannot revert patch'; exit 2; }
( timeout 900 bash -c "$DEMO" ) > /tmp/seedconfirm-$NAME.without 2>&1; RC_WITHOUT=$?
git apply /tmp/seedconfirm-$NAME.diff || { echo 'cannot re-apply patch'; exit 2; }
PINNED="./pkg/buffer ./pkg/tmutex ./pkg/waiter ./protocol/header ./protocol/network/fragmentation ./protocol/ports ./protocol/transport/tcpconntrack"
go test -mod=mod -vet=off -count=1 $PINNED > /tmp/seedconfirm-$NAME.pinned 2>&1; RC_PIN=$?
go build -tags verif ./pkg/... ./protocol/... ./stack/... > /tmp/seedconfirm-$NAME.build 2>&1; RC_BUILD=$?
echo "== demo with change rc=$RC_WITH (want != 0), without rc=$RC_WITHOUT (want 0), pinned tests rc=$RC_PIN (want 0), build rc=$RC_BUILD (want 0)"
cd /verif
VERIF_REPO=$WT VERIF_WORKERS=${VERIF_WORKERS:-8} python3 tools/vcheck $ID --tier quick > /tmp/seedconfirm-$NAME.check 2>&1; RC_CHECK=$?
echo "== check $ID on changed tree rc=$RC_CHECK (want 1)"; grep -m3 -E 'VIOLATION|INCONCLUSIVE|KNOWN-FINDING' /tmp/seedconfirm-$NAME.check | cut -c1-300
rm -rf /verif/replays
mkdir -p /verif/seeded/$NAME && cp /tmp/seedconfirm-$NAME.diff /verif/seeded/$NAME/patch.diff && cp -r $WT/_seed/. /verif/seeded/$NAME/demo/ 2>/dev/null
python3 - <<PY
import json
m=json.load(open('$WT/_seed/meta.json'))
m.update(dict(property='$ID', confirmed=dict(demo_fails_with_change=$RC_WITH!=0, demo_passes_without=$RC_WITHOUT==0, pinned_tests_pass=$RC_PIN==0, builds=$RC_BUILD==0),
   check_quick_exit=$RC_CHECK, detected=($RC_CHECK==1),
   ran=['bash -c <demo_cmd> with the change / after git stash', 'go test -mod=mod -vet=off -count=1 (7 pinned packages)', 'VERIF_REPO=<worktree> python3 tools/vcheck $ID --tier quick']))
json.dump(m,open('/verif/seeded/$NAME/meta.json','w'),indent=1)
PY
