"""Shared machinery for the /verif checks (see DESIGN.md §2, §3).

Every check is a python module tools/checks/<id>.py with `run(ctx)`; `ctx`
is a Ctx below. Verdict rule (DESIGN §2.3):
  exit 0  property held on everything explored (KNOWN-FINDING lines allowed)
  exit 1  VIOLATION property=<id> replay=<path>  (real-code behaviour rejected by the P-spec)
  exit 2  INCONCLUSIVE (harness/TLC/build trouble) -- never a violation
"""
import json
import os
import random
import re
import shutil
import subprocess
import sys
import tempfile
import time

ROOT = os.path.dirname(os.path.dirname(os.path.abspath(__file__)))
REPO = os.environ.get('VERIF_REPO', '/repo')
SPEC = os.path.join(ROOT, 'spec')
HARNESS = os.path.join(ROOT, 'harness')
WORKROOT = os.path.join(ROOT, '.work')
JAR = '/opt/veriftools/tla/tla2tools.jar'
CMJAR = '/opt/veriftools/tla/CommunityModules-deps.jar'

GOENV = dict(GOFLAGS='-mod=mod', GOPROXY='off', GOSUMDB='off', GOTOOLCHAIN='local',
             CGO_ENABLED='0')

sys.path.insert(0, os.path.dirname(os.path.abspath(__file__)))
import tlaval  # noqa: E402


class Inconclusive(Exception):
    pass


class TLCResult(object):
    def __init__(self):
        self.rc = None
        self.out = ''
        self.generated = 0
        self.distinct = 0
        self.depth = 0
        self.ok = False
        self.kind = None        # invariant|action|temporal|postcondition|deadlock|assumption|None
        self.violated = None    # name of violated invariant/property
        self.trace = []         # counterexample: list of (action, state dict)
        self.cov = {}           # action name -> (distinct, total)
        self.dir = None
        self.wall = 0.0
        self.prints = []        # lines produced by Print/PrintT


_state_hdr = re.compile(r'^State (\d+): <([A-Za-z_][A-Za-z0-9_]*)?(.*?)>\s*$')


def parse_tlc_output(out, res):
    m = None
    for m in re.finditer(r'(\d+) states generated, (\d+) distinct states found', out):
        pass
    if m:
        res.generated = int(m.group(1))
        res.distinct = int(m.group(2))
    m = re.search(r'The depth of the complete state graph search is (\d+)', out)
    if m:
        res.depth = int(m.group(1))
    if 'Model checking completed. No error has been found.' in out:
        res.ok = True
    m = re.search(r'Error: Invariant (\S+) is violated', out)
    if m:
        res.kind, res.violated = 'invariant', m.group(1)
    m = re.search(r'Error: Action property (\S+) is violated', out)
    if m:
        res.kind, res.violated = 'action', m.group(1)
    if 'Temporal properties were violated' in out:
        res.kind, res.violated = 'temporal', 'temporal'
    m = re.search(r'Postcondition (\S+) (?:is false|was violated|is violated)', out)
    if m or 'ostcondition' in out and 'false' in out and not res.ok:
        res.kind = 'postcondition'
        res.violated = m.group(1) if m else 'postcondition'
        res.ok = False
    if 'Error: Deadlock reached' in out:
        res.kind, res.violated = 'deadlock', 'deadlock'
    m = re.search(r'Assumption .* is false', out)
    if m:
        res.kind, res.violated = 'assumption', m.group(0)
    if res.kind:
        res.ok = False
    # counterexample trace
    if res.kind in ('invariant', 'action', 'temporal', 'deadlock'):
        cur = None
        buf = []
        for ln in out.split('\n'):
            mh = re.match(r'^State (\d+): <(.*)>\s*$', ln)
            if mh:
                if cur is not None and buf:
                    _push_state(res, cur, buf)
                cur = mh.group(2)
                buf = []
                continue
            if cur is not None:
                if ln.startswith('/\\') or (buf and ln.startswith(' ')) or re.match(r'^[A-Za-z_]\w* = ', ln):
                    buf.append(ln)
                elif ln.strip() == '':
                    if buf:
                        _push_state(res, cur, buf)
                    cur = None
                    buf = []
        if cur is not None and buf:
            _push_state(res, cur, buf)
    # coverage: "<Action line a, col b to line c, col d of module M>: 12:34"
    for m in re.finditer(r'^<(\w+) line \d+, col \d+ to line \d+, col \d+ of module (\w+)>: (\d+):(\d+)', out, re.M):
        res.cov[m.group(1)] = (int(m.group(3)), int(m.group(4)))


def _push_state(res, hdr, buf):
    m = re.match(r'^([A-Za-z_]\w*)?(?:\((.*?)\))? ?(?:line.*)?$', hdr)
    act = hdr.split(' line ')[0].strip()
    try:
        st = tlaval.parse_state('\n'.join(buf))
    except Exception:
        st = {'_raw': '\n'.join(buf)}
    res.trace.append((act, st))


class Ctx(object):
    def __init__(self, pid, tier, seed, level='model_checking'):
        self.pid = pid
        self.tier = tier
        self.seed = seed
        self.level = level
        self.rng = random.Random(seed)
        self.t0 = time.time()
        os.makedirs(WORKROOT, exist_ok=True)
        self.work = tempfile.mkdtemp(prefix='%s-%s-' % (pid, tier), dir=WORKROOT)
        self.states = 0
        self.transitions = 0
        self.traces = 0
        self.samples = []
        self.extra = {}
        self.assumptions = []
        self.violations = 0
        self.known_hits = []
        self.drift = []
        self.inconclusive = None
        self.tlc_runs = []
        self.workers = int(os.environ.get('VERIF_WORKERS', '12'))
        self._kf = None
        self._bins = {}
        self._replay_n = 0
        self.keep = bool(os.environ.get('VERIF_KEEP'))

    # ------------------------------------------------------------------ util
    def log(self, *a):
        print('[%s %6.1fs]' % (self.pid, time.time() - self.t0), *a, file=sys.stderr)
        sys.stderr.flush()

    def thorough(self):
        return self.tier == 'thorough'

    def pick(self, quick, thorough):
        return thorough if self.tier == 'thorough' else quick

    def subdir(self, name):
        d = os.path.join(self.work, name)
        os.makedirs(d, exist_ok=True)
        return d

    # ------------------------------------------------------------------- TLC
    def tlc(self, module, cfg, spec_dirs, name=None, files=None, workers=None, timeout=900,
            nodeadlock=True, simulate=None, depth=None, dump_dot=False, coverage=False,
            dfs=False, seed=None, count=True, xss=None, must_pass=False, view=None, extra=None):
        """Run TLC on `module`.tla with config text `cfg` in a scratch dir that
        contains copies of every *.tla of spec_dirs (relative to /verif/spec)
        plus `files` (name -> text or ('copy', path))."""
        name = name or module
        d = self.subdir('tlc-' + name)
        for sd in ['lib'] + list(spec_dirs):
            p = os.path.join(SPEC, sd)
            if os.path.isdir(p):
                for fn in os.listdir(p):
                    if fn.endswith('.tla'):
                        shutil.copy(os.path.join(p, fn), os.path.join(d, fn))
        for fn, content in (files or {}).items():
            if isinstance(content, tuple) and content[0] == 'copy':
                shutil.copy(content[1], os.path.join(d, fn))
            else:
                with open(os.path.join(d, fn), 'w') as f:
                    f.write(content)
        with open(os.path.join(d, module + '.cfg'), 'w') as f:
            f.write(cfg)
        w = workers or self.workers
        cmd = ['java', '-XX:+UseParallelGC']
        # RECURSIVE operators over a few hundred elements overflow the default Java stack (reported by TLC as
        # "StackOverflowError ... incorrect recursive function definition"): always run with a large thread stack
        cmd.append('-Xss' + (xss or '256m'))
        if dfs:
            cmd.append('-Dtlc2.tool.queue.IStateQueue=StateDeque')
        cmd += ['-cp', JAR + ':' + CMJAR, 'tlc2.TLC', '-metadir', os.path.join(d, 'md'),
                '-workers', str(w), '-config', module + '.cfg']
        if dfs:
            # the depth-first queue cannot be checkpointed: a run that lasts longer than the checkpoint interval (30 min) dies
            # with "StateDeque does not support checkpointing"
            cmd += ['-checkpoint', '0']
        if nodeadlock:
            cmd.append('-deadlock')
        if simulate:
            cmd += ['-simulate', simulate]
        if depth:
            cmd += ['-depth', str(depth)]
        if seed is not None:
            cmd += ['-seed', str(seed)]
        if dump_dot:
            cmd += ['-dump', 'dot,actionlabels', 'graph.dot']
        if coverage:
            cmd += ['-coverage', '1']
        if extra:
            cmd += extra
        cmd.append(module + '.tla')
        res = TLCResult()
        res.dir = d
        t = time.time()
        env = dict(os.environ)
        env.pop('JAVA_TOOL_OPTIONS', None)
        try:
            p = subprocess.run(cmd, cwd=d, stdout=subprocess.PIPE, stderr=subprocess.STDOUT,
                               timeout=timeout, env=env)
        except subprocess.TimeoutExpired:
            subprocess.call(['pkill', '-f', 'metadir ' + os.path.join(d, 'md')])
            raise Inconclusive('TLC timeout (%ss) on %s' % (timeout, name))
        res.wall = time.time() - t
        res.rc = p.returncode
        res.out = p.stdout.decode('utf-8', 'replace')
        with open(os.path.join(d, 'tlc.out'), 'w') as f:
            f.write(res.out)
        parse_tlc_output(res.out, res)
        if res.rc not in (0, 10, 11, 12, 13) or (res.rc == 0 and not res.ok and not simulate):
            raise Inconclusive('TLC failed rc=%s on %s:\n%s' % (res.rc, name, res.out[-3000:]))
        if res.rc != 0 and res.kind is None:
            raise Inconclusive('TLC rc=%s unparsed on %s:\n%s' % (res.rc, name, res.out[-3000:]))
        if simulate and res.rc == 0:
            res.ok = True
        if count:
            self.states += res.distinct
            self.transitions += res.generated
        self.tlc_runs.append(dict(name=name, distinct=res.distinct, generated=res.generated,
                                  depth=res.depth, wall_s=round(res.wall, 2), ok=res.ok,
                                  violated=res.violated))
        self.log('TLC %s: %d distinct / %d generated, depth %d, %.1fs, %s' % (
            name, res.distinct, res.generated, res.depth, res.wall,
            'ok' if res.ok else 'VIOLATED %s' % res.violated))
        if must_pass and not res.ok:
            raise Inconclusive('TLC run %s expected to pass but reported %s %s\n%s' % (
                name, res.kind, res.violated, res.out[-3000:]))
        return res

    def zero_coverage(self, res, ignore=()):
        z = [a for a, (d_, t_) in res.cov.items() if t_ == 0 and a not in ignore]
        return z

    # -------------------------------------------------------------------- Go
    def go_env(self, race=False):
        env = dict(os.environ)
        env.update(GOENV)
        if race:
            env['CGO_ENABLED'] = '1'
        return env

    def go_build(self, pkg, race=False, tags='verif'):
        """Build /verif/harness/<pkg> against /repo's working tree."""
        key = (pkg, race, tags)
        if key in self._bins:
            return self._bins[key]
        gosum = os.path.join(REPO, 'go.sum')
        if os.path.exists(gosum):
            shutil.copy(gosum, os.path.join(HARNESS, 'go.sum'))
        out = os.path.join(self.subdir('bin'), pkg.replace('/', '_') + ('_race' if race else ''))
        cmd = ['go', 'build', '-tags', tags, '-o', out]
        if REPO != '/repo':
            # development aid: run the checks against a scratch worktree (mutation testing)
            mf = os.path.join(self.work, 'go.mod')
            with open(mf, 'w') as f:
                f.write(open(os.path.join(HARNESS, 'go.mod')).read().replace('=> /repo', '=> ' + REPO))
            open(os.path.join(self.work, 'go.sum'), 'w').write(open(gosum).read() if os.path.exists(gosum) else '')
            cmd.append('-modfile=' + mf)
        if race:
            cmd.append('-race')
        cmd.append('./' + pkg)
        p = subprocess.run(cmd, cwd=HARNESS, env=self.go_env(race), stdout=subprocess.PIPE,
                           stderr=subprocess.STDOUT)
        if p.returncode != 0:
            raise Inconclusive('go build %s failed (tree under test does not build with -tags %s):\n%s' % (
                pkg, tags, p.stdout.decode('utf-8', 'replace')[-4000:]))
        self._bins[key] = out
        return out

    def run(self, cmd, timeout=900, input=None, cwd=None, env=None, ok_rc=(0,)):
        try:
            p = subprocess.run(cmd, cwd=cwd or self.work, stdout=subprocess.PIPE, stderr=subprocess.PIPE,
                               timeout=timeout, input=input, env=env or self.go_env())
        except subprocess.TimeoutExpired:
            raise Inconclusive('timeout (%ss): %s' % (timeout, ' '.join(cmd[:4])))
        if ok_rc is not None and p.returncode not in ok_rc:
            raise Inconclusive('command failed rc=%d: %s\n%s\n%s' % (
                p.returncode, ' '.join(cmd[:6]), p.stdout.decode('utf-8', 'replace')[-2000:],
                p.stderr.decode('utf-8', 'replace')[-4000:]))
        return p

    # -------------------------------------------------------------- verdicts
    def known_findings(self):
        if self._kf is None:
            p = os.path.join(ROOT, 'known_findings.json')
            self._kf = json.load(open(p)).get('findings', []) if os.path.exists(p) else []
        return self._kf

    def known(self, key):
        for e in self.known_findings():
            # kf_props: other properties whose clauses this check also evaluates (e.g. C14 runs the C01/C04 clauses on
            # wrap-adjacent sequence numbers): their known findings are known here too
            if e.get('property') in ((self.pid,) + tuple(getattr(self, 'kf_props', ()))) and e.get('id') == key and e.get('status') == 'known':
                return e
        return None

    def violation(self, what, replay, key=None):
        """Report real-code behaviour rejected by the P-spec. `key` is the
        known-finding id the failing case was classified as (or None)."""
        e = self.known(key) if key else None
        if e is not None:
            if key not in self.known_hits:
                self.known_hits.append(key)
                print('KNOWN-FINDING: property=%s %s [%s] %s' % (self.pid, key, e.get('what', ''), what))
                sys.stdout.flush()
            return False
        self.violations += 1
        if self.violations > 5:
            return True  # counted, not printed again: five replay files are enough
        os.makedirs(os.path.join(ROOT, 'replays'), exist_ok=True)
        self._replay_n += 1
        path = os.path.join(ROOT, 'replays', '%s-%s-%d-%d.json' % (self.pid, self.tier, self.seed, self._replay_n))
        with open(path, 'w') as f:
            json.dump(dict(property=self.pid, what=what, seed=self.seed, tier=self.tier, replay=replay), f, indent=1, default=str)
        print('VIOLATION property=%s replay=%s' % (self.pid, path))
        print('  what: %s' % what)
        sys.stdout.flush()
        return True

    def model_drift(self, what):
        self.drift.append(what)
        print('MODEL-DRIFT property=%s %s' % (self.pid, what), file=sys.stderr)

    def sample(self, x, limit=6):
        if len(self.samples) < limit:
            self.samples.append(x)

    # --------------------------------------------------------------- finish
    def finish(self):
        cov = dict(states=self.states, transitions=self.transitions,
                   traces_validated_against_impl=self.traces, samples=self.samples,
                   tlc_runs=self.tlc_runs, known_findings_hit=self.known_hits,
                   drift=self.drift)
        cov.update(self.extra)
        if self.level != 'model_checking' or self.states == 0:
            cov.setdefault('evaluations', max(self.traces, 1))
        ev = dict(property_id=self.pid, tier=self.tier, seed=self.seed, level=self.level,
                  coverage=cov, assumptions=self.assumptions,
                  wall_s=round(time.time() - self.t0, 2), violations=self.violations)
        os.makedirs(os.path.join(ROOT, 'evidence'), exist_ok=True)
        with open(os.path.join(ROOT, 'evidence', self.pid + '.json'), 'w') as f:
            json.dump(ev, f, indent=1, default=str)
        if not self.keep:
            shutil.rmtree(self.work, ignore_errors=True)
        return 1 if self.violations else 0


def cfg(spec='Spec', init=None, next=None, constants=None, invariants=(), properties=(),
        constraint=None, action_constraint=None, view=None, postcondition=None, symmetry=None,
        check_deadlock=None, extra=''):
    lines = []
    if init:
        lines += ['INIT ' + init, 'NEXT ' + next]
    else:
        lines.append('SPECIFICATION ' + spec)
    if constants:
        lines.append('CONSTANTS')
        for k, v in constants.items():
            lines.append('  %s = %s' % (k, tla(v)) if not (isinstance(v, str) and v.startswith('<-')) else '  %s %s' % (k, v))
    if invariants:
        lines.append('INVARIANTS ' + ' '.join(invariants))
    if properties:
        lines.append('PROPERTIES ' + ' '.join(properties))
    if constraint:
        lines.append('CONSTRAINT ' + constraint)
    if action_constraint:
        lines.append('ACTION_CONSTRAINT ' + action_constraint)
    if view:
        lines.append('VIEW ' + view)
    if postcondition:
        lines.append('POSTCONDITION ' + postcondition)
    if symmetry:
        lines.append('SYMMETRY ' + symmetry)
    if check_deadlock is not None:
        lines.append('CHECK_DEADLOCK ' + ('TRUE' if check_deadlock else 'FALSE'))
    return '\n'.join(lines) + '\n' + extra


class MV(str):
    """model value / raw TLA text in cfg()"""
    pass


def tla(v):
    """python -> TLA+ text (cfg-safe subset)."""
    if isinstance(v, MV):
        return str(v)
    if isinstance(v, bool):
        return 'TRUE' if v else 'FALSE'
    if isinstance(v, int):
        return str(v)
    if isinstance(v, str):
        return '"%s"' % v.replace('\\', '\\\\').replace('"', '\\"')
    if isinstance(v, (set, frozenset)):
        return '{' + ', '.join(tla(x) for x in sorted(v, key=str)) + '}'
    if isinstance(v, (list, tuple)):
        return '<<' + ', '.join(tla(x) for x in v) + '>>'
    if isinstance(v, dict):
        return '[' + ', '.join('%s |-> %s' % (k, tla(x)) for k, x in v.items()) + ']'
    raise TypeError(type(v))


def graph_paths(nodes, edges, init, max_paths=None, rng=None):
    """Cover every edge of the state graph by root-to-edge paths.
    Returns list of paths, each a list of edge indices. Uses a BFS tree and
    greedy extension: walks from the root along uncovered edges (DFS-like) so
    the number of paths is far below the number of edges."""
    from collections import defaultdict, deque
    out = defaultdict(list)
    for i, (s, d, _l) in enumerate(edges):
        out[s].append(i)
    parent = {}
    dq = deque()
    for r in init:
        parent[r] = None
        dq.append(r)
    while dq:
        n = dq.popleft()
        for ei in out[n]:
            d = edges[ei][1]
            if d not in parent:
                parent[d] = ei
                dq.append(d)
    covered = [False] * len(edges)
    paths = []

    def root_path(n):
        p = []
        while parent[n] is not None:
            ei = parent[n]
            p.append(ei)
            n = edges[ei][0]
        p.reverse()
        return p

    order = list(range(len(edges)))
    if rng:
        rng.shuffle(order)
    for ei in order:
        if covered[ei] or edges[ei][0] not in parent:
            continue
        p = root_path(edges[ei][0]) + [ei]
        for x in p:
            covered[x] = True
        # greedy extension along uncovered edges
        n = edges[ei][1]
        seen = 0
        while True:
            nxt = [e for e in out[n] if not covered[e]]
            if not nxt:
                break
            e = nxt[0] if not rng else rng.choice(nxt)
            covered[e] = True
            p.append(e)
            n = edges[e][1]
            seen += 1
            if seen > 10000:
                break
        paths.append(p)
        if max_paths and len(paths) >= max_paths:
            break
    return paths, sum(covered), len(edges)


def main_entry(checks):
    import argparse
    ap = argparse.ArgumentParser()
    ap.add_argument('pid')
    ap.add_argument('--tier', default=os.environ.get('VERIF_TIER', 'quick'))
    ap.add_argument('--replay', default=None)
    a = ap.parse_args()
    seed = int(os.environ.get('VERIF_SEED', '1') or '1')
    mod = checks[a.pid]
    ctx = Ctx(a.pid, a.tier if a.tier in ('quick', 'thorough') else 'quick', seed,
              level=getattr(mod, 'LEVEL', 'model_checking'))
    try:
        if a.replay and hasattr(mod, 'replay'):
            mod.replay(ctx, json.load(open(a.replay)))
        else:
            mod.run(ctx)
        rc = ctx.finish()
    except Exception as e:
        if not isinstance(e, Inconclusive):
            import traceback
            traceback.print_exc()
        print('INCONCLUSIVE property=%s %s' % (a.pid, str(e)[:6000]))
        ctx.extra['inconclusive'] = str(e)[:2000]
        try:
            ctx.finish()
        except Exception:
            pass
        rc = 2
    sys.exit(rc)


# ---------------------------------------------------------------------------
# helpers shared by checks
def graph_script(ctx, tlcres, max_paths=None, extra=None):
    """Turn the dot dump of a TLC run into a replay script (dict)."""
    nodes, edges, init = tlaval.parse_dot(os.path.join(tlcres.dir, 'graph.dot'))
    paths, ncov, nedges = graph_paths(nodes, edges, init, max_paths=max_paths, rng=ctx.rng)
    used = set()
    jpaths = []
    for p in paths:
        jp = []
        for ei in p:
            s, d, lab = edges[ei]
            a, args = tlaval.parse_action(lab)
            jp.append(dict(a=a, args=args, dst=d))
            used.add(d)
        jpaths.append(jp)
    used.update(init)
    states = {nid: tlaval.parse_state(nodes[nid]) for nid in used}
    script = dict(states=states, init=init[0] if init else None, paths=jpaths)
    if extra:
        script.update(extra)
    stats = dict(graph_states=len(nodes), graph_edges=nedges, edges_replayed=ncov, paths=len(jpaths),
                 replayed_transition_fraction=round(ncov / max(nedges, 1), 4))
    return script, stats


def write_json(path, obj):
    with open(path, 'w') as f:
        json.dump(obj, f, default=_jd)


def _jd(o):
    if isinstance(o, (set, frozenset)):
        return sorted(o)
    return str(o)


def write_ndjson(path, events):
    with open(path, 'w') as f:
        for e in events:
            f.write(json.dumps(e, default=_jd))
            f.write('\n')


def read_ndjson(path):
    out = []
    with open(path) as f:
        for ln in f:
            ln = ln.strip()
            if ln:
                out.append(json.loads(ln))
    return out


def split_segments(events, reset='reset'):
    segs = []
    for e in events:
        if e.get('ev') == reset or not segs:
            segs.append([])
        segs[-1].append(e)
    return segs


def validate_segments(ctx, module, cfgtext, spec_dirs, segments, name=None, max_reruns=6, dfs=True,
                      timeout=900, files=None, count=True, jobs=None):
    """Parallel front end of _validate_seq: the segments are independent, so a large batch is cut into contiguous chunks
    of similar event volume, each validated by its own TLC process (trace validation itself is sequential: workers=1).
    Same result as the sequential version, except that the rejection cap applies per chunk."""
    total = sum(len(s) for s in segments)
    if jobs is None:
        jobs = int(os.environ.get('VERIF_VALJOBS', '0')) or max(1, min(8, ctx.workers // 2))
    jobs = max(1, min(jobs, len(segments), total // 2500))
    if jobs <= 1:
        return _validate_seq(ctx, module, cfgtext, spec_dirs, segments, name, max_reruns, dfs, timeout, files, count)
    target = total / jobs
    chunks, cur, vol = [], [], 0
    for i, s in enumerate(segments):
        cur.append(i)
        vol += len(s)
        if vol >= target and len(chunks) < jobs - 1:
            chunks.append(cur)
            cur, vol = [], 0
    if cur:
        chunks.append(cur)
    import concurrent.futures
    with concurrent.futures.ThreadPoolExecutor(max_workers=len(chunks)) as ex:
        futs = [ex.submit(_validate_seq, ctx, module, cfgtext, spec_dirs, [segments[i] for i in ch], '%s-j%d' % (name or module, k),
                          max_reruns, dfs, timeout, files, count, True) for k, ch in enumerate(chunks)]
        res = [f.result() for f in futs]
    accepted, rejected, unexamined = 0, [], []
    for ch, (a, rj, un) in zip(chunks, res):
        accepted += a
        rejected += [(ch[k], ln) for k, ln in rj]
        unexamined += [ch[k] for k in un]
    rejected.sort()
    ctx.last_unexamined = sorted(unexamined)
    if unexamined:
        ctx.extra['unexamined_segments'] = ctx.extra.get('unexamined_segments', 0) + len(unexamined)
    return accepted, rejected


def _validate_seq(ctx, module, cfgtext, spec_dirs, segments, name=None, max_reruns=6, dfs=True,
                  timeout=900, files=None, count=True, quiet_unexamined=False):
    """Validate a list of independent trace segments (each a list of events,
    the first one a `reset`) with one TLC start.  When a segment is rejected,
    the segments before it are accepted, it is recorded, and validation
    continues with the segments after it, so every segment gets a verdict (up
    to max_reruns rejections; the remainder is then returned as unexamined).
    Returns (accepted_count, rejected: list of (segment_index, line_in_segment)).
    ctx.extra['unexamined_segments'] is set if the cap was hit."""
    alive = list(range(len(segments)))
    rejected = []
    accepted = 0
    runs = 0
    unexamined = []
    if not quiet_unexamined:
        ctx.last_unexamined = []
    while alive:
        runs += 1
        evs = []
        starts = []
        for si in alive:
            starts.append(len(evs) + 1)
            evs.extend(segments[si])
        fs = dict(files or {})
        fs['trace.ndjson'] = '\n'.join(json.dumps(e, default=_jd) for e in evs) + '\n'
        r = ctx.tlc(module, cfgtext, spec_dirs, name=(name or module) + '-v%d' % runs, files=fs, workers=1,
                    dfs=dfs, timeout=timeout, count=count)
        if r.ok:
            accepted += len(alive)
            break
        if r.kind != 'postcondition':
            raise Inconclusive('trace validation %s: unexpected TLC verdict %s %s\n%s' % (module, r.kind, r.violated, r.out[-2000:]))
        m = re.search(r'"REJECTED_AT", (\d+)', r.out)
        if not m:
            raise Inconclusive('trace validation %s rejected without mark:\n%s' % (module, r.out[-2000:]))
        line = int(m.group(1))
        if line > len(evs):
            raise Inconclusive('rejection mark beyond trace')
        k = 0
        for j, st in enumerate(starts):
            if st <= line:
                k = j
        rejected.append((alive[k], line - starts[k]))
        accepted += k
        alive = alive[k + 1:]
        if len(rejected) >= max_reruns and alive:
            unexamined = list(alive)
            if not quiet_unexamined:
                ctx.extra['unexamined_segments'] = ctx.extra.get('unexamined_segments', 0) + len(alive)
                ctx.last_unexamined = list(alive)
            ctx.log('%d segments rejected; %d left unexamined' % (len(rejected), len(alive)))
            break
    if quiet_unexamined:
        return accepted, rejected, unexamined
    return accepted, rejected


def run_scenarios(ctx, drv, scs, name, what='the stack'):
    """Run a scenario list through a script driver (`<drv> run <scenarios.json> <trace.ndjson>`, one reset-separated segment
    per scenario) whose trace has a watchdog (harness/vh Trace.Watchdog: exit status 3 and a `stuck` event when an operation
    of the code under test does not return).  A stuck scenario is re-run alone: stuck again = the real code does not return
    from that operation, which is reported as a violation (non-termination, reproducible); the remaining scenarios are run
    afterwards.  Returns the list of segments aligned with scs (the partial trace for a stuck scenario)."""
    segs = []
    todo = list(range(len(scs)))
    rnd = 0
    stuck_reported = 0
    while todo:
        rnd += 1
        sp = os.path.join(ctx.work, '%s-scen-%d.json' % (name, rnd))
        tp = os.path.join(ctx.work, '%s-trace-%d.ndjson' % (name, rnd))
        write_json(sp, [scs[i] for i in todo])
        p = ctx.run([drv, 'run', sp, tp], timeout=3000, ok_rc=(0, 3))
        part = split_segments(read_ndjson(tp))
        if p.returncode == 0:
            if len(part) != len(todo):
                raise Inconclusive('driver produced %d segments for %d scenarios' % (len(part), len(todo)))
            segs += part
            break
        # watchdog: the last segment is the stuck scenario
        if not part or not any(e.get('ev') == 'stuck' for e in part[-1]):
            raise Inconclusive('driver exited with status 3 without a stuck event')
        k = len(part) - 1
        segs += part[:k]
        si = todo[k]
        sp1 = os.path.join(ctx.work, '%s-stuck-%d.json' % (name, rnd))
        tp1 = os.path.join(ctx.work, '%s-stuck-%d.ndjson' % (name, rnd))
        write_json(sp1, [scs[si]])
        p1 = ctx.run([drv, 'run', sp1, tp1], timeout=3000, ok_rc=(0, 3))
        again = split_segments(read_ndjson(tp1))
        lastop = next((e for e in reversed(part[k]) if e.get('ev') in ('op', 'call')), {})
        if p1.returncode == 3:
            stuck_reported += 1
            ctx.violation('%s does not return from an operation (no event for the watchdog period, reproduced on a re-run of the '
                          'scenario alone); last completed operation: %s' % (what, {a: b for a, b in lastop.items() if a not in ('pay', 'raw', 'goroutines')}),
                          dict(kind='stuck-scenario', scenario=scs[si], events=[e for e in part[k] if e.get('ev') != 'stuck'][-30:]))
            segs.append([e for e in part[k] if e.get('ev') != 'stuck'])
        else:
            ctx.log('a watchdog hit did not reproduce (scenario %d): machine stall? using the re-run' % si)
            segs.append(again[0] if again else part[k])
        todo = todo[k + 1:]
        if stuck_reported >= 3:
            # enough evidence; the remaining scenarios are skipped (their segments are missing: callers index by position)
            segs += [[dict(ev='reset', skipped=True)] for _ in todo]
            break
    return segs


def compare_graphs(model_edges, real_edges):
    """Both arguments: set of (src_key, label, dst_key). Returns dict with the
    differences (model-only, real-only) and the matched fraction."""
    me, re_ = set(model_edges), set(real_edges)
    both = me & re_
    return dict(model_edges=len(me), real_edges=len(re_), common=len(both),
                model_only=sorted(me - re_)[:5], real_only=sorted(re_ - me)[:5],
                n_model_only=len(me - re_), n_real_only=len(re_ - me),
                fraction=round(len(both) / max(len(me), 1), 4))


def real_graph_paths(g, rng=None):
    """Edge cover of a gate.Explore graph; returns list of paths (lists of edge dicts)."""
    keys = list(g['states'].keys())
    idx = {k: k for k in keys}
    edges = [(e['src'], e['dst'], i) for i, e in enumerate(g['edges'])]
    paths, ncov, n = graph_paths(idx, edges, [g['init']], rng=rng)
    return [[g['edges'][edges[ei][2]] for ei in p] for p in paths], ncov, n
