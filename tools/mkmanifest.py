#!/usr/bin/env python3
"""Regenerates /verif/MANIFEST.json from the table below (single source of truth)."""
import json
import os
import subprocess

ROOT = os.path.dirname(os.path.dirname(os.path.abspath(__file__)))

HOOK_COMMITS = []  # filled from `git -C /repo log` (commits whose subject starts with "verif hook")

def load_checks():
    """Each tools/checks/cNN.py declares MANIFEST = dict(technique=, text=, design=, note=[, level=])."""
    import importlib
    import sys
    sys.path.insert(0, os.path.join(ROOT, 'tools'))
    out = {}
    for fn in sorted(os.listdir(os.path.join(ROOT, 'tools', 'checks'))):
        if fn.startswith('c') and fn.endswith('.py'):
            m = importlib.import_module('checks.' + fn[:-3])
            if hasattr(m, 'MANIFEST'):
                out[fn[:-3].upper()] = m.MANIFEST
    return out


CHECKS = load_checks()

# checks that have been validated on the unchanged tree (several seeds) and are claimed in MANIFEST.json
READY = {'C01', 'C02', 'C03', 'C19', 'C04', 'C05', 'C06', 'C07', 'C08', 'C09', 'C10', 'C11', 'C12', 'C13', 'C14', 'C15', 'C16', 'C17', 'C18', 'C20'}

NOT_YET = 'check not built yet (work in progress; DESIGN.md section 7 gives the plan)'


def main():
    props = [json.loads(l) for l in open(os.path.join(ROOT, 'properties.jsonl'))]
    try:
        log = subprocess.check_output(['git', '-C', '/repo', 'log', '--format=%h %s']).decode().split('\n')
        hooks = [l.split()[0] for l in log if ' verif hook' in l]
    except Exception:
        hooks = HOOK_COMMITS
    checks = []
    na = []
    for p in props:
        pid = p['id']
        c = CHECKS.get(pid)
        if not c or pid not in READY:
            na.append(dict(property_id=pid, reason=NOT_YET if not c else 'check is being built and not yet validated on the unchanged tree with several seeds (not claimed until then)'))
            continue
        checks.append(dict(
            property_id=pid,
            quick_cmd='python3 tools/vcheck %s --tier quick' % pid,
            thorough_cmd='python3 tools/vcheck %s --tier thorough' % pid,
            evidence_file='/verif/evidence/%s.json' % pid,
            replay_cmd_template='python3 tools/vcheck %s --replay {path}' % pid,
            engine='vcheck',
            level_claimed=dict(category=c.get('level', 'model_checking'), text=c['text'], design_ref=c['design']),
            level_note=c['note'],
            technique=c['technique']))
    m = dict(
        version=1,
        setup_cmd='cd /verif/harness && cp /repo/go.sum . && GOFLAGS=-mod=mod GOPROXY=off GOSUMDB=off GOTOOLCHAIN=local CGO_ENABLED=0 go build -tags verif ./... && cd /verif && python3 tools/vcheck --help >/dev/null',
        hooks=dict(guard='verif',
                   enable='go build -tags verif (harness module /verif/harness, replace github.com/brewlin/net-protocol => /repo)',
                   baseline_off_cmd='cd /repo && go test -mod=mod -json -vet=off -count=1 -timeout 25m ./...',
                   source_commits=hooks, add_only=True),
        engines=[dict(name='vcheck', path='tools/vcheck', serves_properties=sorted(CHECKS),
                      kind_free_text='python orchestrator: TLC (exhaustive / simulate / trace validation) + Go conformance drivers built from /repo with -tags verif')],
        checks=checks,
        not_applicable=na,
        notes='Specs under spec/, Go drivers under harness/, orchestrator tools/vcheck. Exit 0 held / 1 VIOLATION / 2 inconclusive.')
    with open(os.path.join(ROOT, 'MANIFEST.json'), 'w') as f:
        json.dump(m, f, indent=1)


if __name__ == '__main__':
    main()
