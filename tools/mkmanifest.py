#!/usr/bin/env python3
"""Regenerates /verif/MANIFEST.json from the table below (single source of truth)."""
import json
import os
import subprocess

ROOT = os.path.dirname(os.path.dirname(os.path.abspath(__file__)))

HOOK_COMMITS = []  # filled from `git -C /repo log` (commits whose subject starts with "verif hook")

CHECKS = {
    'C10': dict(
        technique='TLA+ P-spec Ports + closed model MCPorts (TLC exhaustive); every transition of the TLC state graph replayed on ports.PortManager; real-width ephemeral-search cases and concurrent histories validated by TLC (trace validation / linearizability)',
        text='Exhaustive TLC over all reserve/release histories of the small configuration (Exclusive, frame properties), the k-bit model of the ephemeral loop, and conformance of the real PortManager to the same spec on every graph transition, on seeded ephemeral-search cases at real width and on racing goroutine histories linearized by TLC.',
        design='5 C10',
        note='Constants: 2 nets, 1-2 transports, addrs {any,a,b}, ports {1,2}. Ephemeral offsets are sampled (seeded), not enumerated. math/rand seeding by the harness fixes the offset. Socket-level reservation lifecycle (bind/connect/close) is covered by the stack-level sweep when present in the evidence.'),
    'C18': dict(
        technique='TLA+ I-spec TMutex at atomic-operation granularity model-checked by TLC (safety + liveness); complete reachable graph of the REAL mutex under a gate scheduler compared edge-for-edge with the TLC graph; every real transition and seeded random schedules validated by TLC against the P-level trace spec',
        text='All interleavings of 3-4 goroutines x 2 operations are explored by TLC on the I-spec (Mutex, NoLostWakeup, TryOK, NoStarve, LockReturns). The real tmutex.Mutex is driven through every reachable state/transition at hook granularity (2x2 quick, 3x2 thorough) and its graph must equal the model graph (drift otherwise); the P-level verdict comes from TLC validating the observed call/return/blocked events of every real transition against TraceTMutexProp.',
        design='5 C18',
        note='Trusted: Go runtime channels/atomics, the gate scheduler. Hook granularity is coarser than the atomic operations in one place (load+swap of a Lock loop iteration), since hooks are add-only; that interleaving is covered only by the TLC model. Bounded: <=4 goroutines x <=4 operations.'),
}

NOT_YET = 'check not built yet (work in progress; DESIGN.md section 7 gives the plan)'


def main():
    props = [json.loads(l) for l in open(os.path.join(ROOT, 'properties.jsonl'))]
    try:
        log = subprocess.check_output(['git', '-C', '/repo', 'log', '--format=%h %s']).decode().split('\n')
        hooks = [l.split()[0] for l in log if ' verif hook' in l]
    except Exception:
        hooks = HOOK_COMMITS
    checks = []
    na = []
    for p in props:
        pid = p['id']
        c = CHECKS.get(pid)
        if not c:
            na.append(dict(property_id=pid, reason=NOT_YET))
            continue
        checks.append(dict(
            property_id=pid,
            quick_cmd='python3 tools/vcheck %s --tier quick' % pid,
            thorough_cmd='python3 tools/vcheck %s --tier thorough' % pid,
            evidence_file='/verif/evidence/%s.json' % pid,
            replay_cmd_template='python3 tools/vcheck %s --replay {path}' % pid,
            engine='vcheck',
            level_claimed=dict(category=c.get('level', 'model_checking'), text=c['text'], design_ref=c['design']),
            level_note=c['note'],
            technique=c['technique']))
    m = dict(
        version=1,
        setup_cmd='cd /verif/harness && cp /repo/go.sum . && GOFLAGS=-mod=mod GOPROXY=off GOSUMDB=off GOTOOLCHAIN=local CGO_ENABLED=0 go build -tags verif ./... && cd /verif && python3 tools/vcheck --help >/dev/null',
        hooks=dict(guard='verif',
                   enable='go build -tags verif (harness module /verif/harness, replace github.com/brewlin/net-protocol => /repo)',
                   baseline_off_cmd='cd /repo && go test -mod=mod -json -vet=off -count=1 -timeout 25m ./...',
                   source_commits=hooks, add_only=True),
        engines=[dict(name='vcheck', path='tools/vcheck', serves_properties=sorted(CHECKS),
                      kind_free_text='python orchestrator: TLC (exhaustive / simulate / trace validation) + Go conformance drivers built from /repo with -tags verif')],
        checks=checks,
        not_applicable=na,
        notes='Specs under spec/, Go drivers under harness/, orchestrator tools/vcheck. Exit 0 held / 1 VIOLATION / 2 inconclusive.')
    with open(os.path.join(ROOT, 'MANIFEST.json'), 'w') as f:
        json.dump(m, f, indent=1)


if __name__ == '__main__':
    main()
