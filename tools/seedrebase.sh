#!/bin/bash
# usage: tools/seedrebase.sh <worktree>...   -- moves scratch seed worktrees onto /repo's current HEAD, keeping their uncommitted change
HEAD=$(git -C /repo rev-parse HEAD)
for WT in "$@"; do
  cd "$WT" || continue
  git diff > /tmp/rebase-$$.diff
  git apply -R /tmp/rebase-$$.diff && git checkout -q --detach $HEAD && git apply /tmp/rebase-$$.diff && echo "$WT -> $(git rev-parse --short HEAD) $(git status --short | grep -v _seed | tr '\n' ' ')" || echo "$WT: FAILED"
  rm -f /tmp/rebase-$$.diff
done
