---- MODULE Demux ----
(* C09 closed model.  P-spec: Target (most specific matching socket, or none).
   I-spec: the registry `regs` of transport endpoint ids and the four-step
   lookup of findEndpointLocked (exact 4-tuple; any-local + remote; local +
   no remote; port only), plus the port reservations that decide whether a
   bind succeeds.  TLC checks for every reachable socket population and every
   inbound 4-tuple that the lookup returns exactly the P-spec target; the
   graph (edge labels carry operation, arguments and predicted outcome) is the
   source of the histories replayed on the real stack.
   Ports: E(s) = 100 + s stands for the ephemeral port socket s gets at run time. *)
EXTENDS Integers, Sequences, FiniteSets, TLC
CONSTANTS Socks, LAddrs, Ports, Remotes, RPorts, Foreign, Primary
VARIABLES sk, regs, res
vars == <<sk, regs, res>>
AnyA == ""
NoSock == -1
\* Primary: the route's local address when the socket is unbound (the first address of the NIC)
Eph(s) == 100 + s
InitSock == [st |-> "init", laddr |-> AnyA, lport |-> 0, raddr |-> AnyA, rport |-> 0, resaddr |-> AnyA]
Init == sk = [s \in Socks |-> InitSock] /\ regs = {} /\ res = {}

\* port reservations (C10's rule; single net/transport here)
Conflict(p, a) == \E r \in res : r[1] = p /\ (a = AnyA \/ r[2] = AnyA \/ r[2] = a)
Id(la, lp, ra, rp) == <<la, lp, ra, rp>>
RegOf(id) == {r \in regs : r[1] = id}

BindUdp(s, a, p, ok) ==
  /\ sk[s].st = "init"
  /\ ok = (~Conflict(p, a) /\ RegOf(Id(a, p, AnyA, 0)) = {})
  /\ IF ok THEN /\ sk' = [sk EXCEPT ![s] = [st |-> "bound", laddr |-> a, lport |-> p, raddr |-> AnyA, rport |-> 0, resaddr |-> a]]
                /\ regs' = regs \cup {<<Id(a, p, AnyA, 0), s>>}
                /\ res' = res \cup {<<p, a>>}
     ELSE UNCHANGED vars
\* connect: from init (ephemeral port) or bound (keeps port; local address becomes the route's)
ConnectUdp(s, ra, rp, ok) ==
  /\ sk[s].st \in {"init", "bound"}
  /\ LET lp == IF sk[s].st = "init" THEN Eph(s) ELSE sk[s].lport
         la == IF sk[s].laddr = AnyA THEN Primary ELSE sk[s].laddr
         id == Id(la, lp, ra, rp)
     IN /\ ok = (RegOf(id) = {})
        /\ IF ok THEN /\ sk' = [sk EXCEPT ![s] = [st |-> "conn", laddr |-> la, lport |-> lp, raddr |-> ra, rport |-> rp,
                                                  resaddr |-> IF sk[s].st = "init" THEN la ELSE sk[s].resaddr]]
                      /\ regs' = {r \in regs : r[2] # s} \cup {<<id, s>>}
                      /\ res' = IF sk[s].st = "init" THEN res \cup {<<lp, la>>} ELSE res
           ELSE UNCHANGED vars
CloseSock(s) ==
  /\ sk[s].st \in {"init", "bound", "conn"}
  /\ sk' = [sk EXCEPT ![s].st = "closed"]
  /\ regs' = {r \in regs : r[2] # s}
  /\ res' = res \ {<<sk[s].lport, sk[s].resaddr>>}     \* the reservation made at bind/connect time is released

\* ---- P-spec
Live(s) == sk[s].st \in {"bound", "conn"}
Target(src, sport, dst, dport) ==
  IF dst \notin LAddrs THEN NoSock
  ELSE LET c == {s \in Socks : Live(s) /\ sk[s].lport = dport}
           exact == {s \in c : sk[s].st = "conn" /\ sk[s].laddr = dst /\ sk[s].raddr = src /\ sk[s].rport = sport}
           spec  == {s \in c : sk[s].st = "bound" /\ sk[s].laddr = dst}
           wild  == {s \in c : sk[s].st = "bound" /\ sk[s].laddr = AnyA}
       IN IF exact # {} THEN CHOOSE s \in exact : TRUE ELSE IF spec # {} THEN CHOOSE s \in spec : TRUE
          ELSE IF wild # {} THEN CHOOSE s \in wild : TRUE ELSE NoSock
\* ---- I-spec: findEndpointLocked
Find(id) == IF RegOf(id) = {} THEN NoSock ELSE (CHOOSE r \in RegOf(id) : TRUE)[2]
Lookup(src, sport, dst, dport) ==
  IF dst \notin LAddrs THEN NoSock
  ELSE LET a == Find(Id(dst, dport, src, sport))
           b == Find(Id(AnyA, dport, src, sport))
           c == Find(Id(dst, dport, AnyA, 0))
           d == Find(Id(AnyA, dport, AnyA, 0))
       IN IF a # NoSock THEN a ELSE IF b # NoSock THEN b ELSE IF c # NoSock THEN c ELSE d
Inject(src, sport, dst, dport, t) == t = Lookup(src, sport, dst, dport) /\ UNCHANGED vars

AllPorts == Ports \cup {Eph(s) : s \in Socks}
Next == \/ \E s \in Socks, a \in LAddrs \cup {AnyA}, p \in Ports, ok \in BOOLEAN : BindUdp(s, a, p, ok)
        \/ \E s \in Socks, ra \in Remotes, rp \in RPorts, ok \in BOOLEAN : ConnectUdp(s, ra, rp, ok)
        \/ \E s \in Socks : CloseSock(s)
        \/ \E src \in Remotes, sport \in RPorts, dst \in LAddrs \cup {Foreign}, dport \in AllPorts, t \in Socks \cup {NoSock} :
               Inject(src, sport, dst, dport, t)
Spec == Init /\ [][Next]_vars
LookupMatchesTarget == \A src \in Remotes, sport \in RPorts, dst \in LAddrs \cup {Foreign}, dport \in AllPorts :
                          Lookup(src, sport, dst, dport) = Target(src, sport, dst, dport)
OneRegPerId == \A r1, r2 \in regs : r1[1] = r2[1] => r1 = r2
UniqueTarget == \A src \in Remotes, sport \in RPorts, dst \in LAddrs, dport \in AllPorts :
   LET c == {s \in Socks : Live(s) /\ sk[s].lport = dport} IN
     /\ Cardinality({s \in c : sk[s].st = "conn" /\ sk[s].laddr = dst /\ sk[s].raddr = src /\ sk[s].rport = sport}) <= 1
     /\ Cardinality({s \in c : sk[s].st = "bound" /\ sk[s].laddr = dst}) <= 1
     /\ Cardinality({s \in c : sk[s].st = "bound" /\ sk[s].laddr = AnyA}) <= 1
====
