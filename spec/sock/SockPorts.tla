---- MODULE SockPorts ----
(* C10 at socket level (closed model, generator of histories).  Each socket
   holds at most one port reservation, made at bind / auto-bind (connect or
   write-to on an unbound socket) and released by Close; nothing else changes
   reservations.  Ports: P is a fixed port; E(s) = 100 + s stands for the
   ephemeral port socket s obtains at run time.
   Edge labels carry the operation and the result the P-spec demands. *)
EXTENDS Integers, Sequences, FiniteSets, TLC
CONSTANTS Socks, Typ, LAddrs, P, MaxOps, Primary
VARIABLES st, held, nops
vars == <<st, held, nops>>
AnyA == ""
None == <<>>
Eph(s) == 100 + s
Init == st = [s \in Socks |-> "init"] /\ held = [s \in Socks |-> None] /\ nops = 0
\* reservation = <<trans, addr, port>>
Conflict(t, a, p, except) == \E s \in Socks \ {except} : held[s] # None /\ held[s][1] = t /\ held[s][3] = p
                                 /\ (a = AnyA \/ held[s][2] = AnyA \/ held[s][2] = a)
Step == nops < MaxOps /\ nops' = nops + 1
Bind(s, a, eph, ok) ==
  /\ Step /\ st[s] = "init"
  /\ LET p == IF eph THEN Eph(s) ELSE P IN
     /\ ok = ~Conflict(Typ[s], a, p, s)
     /\ IF ok THEN st' = [st EXCEPT ![s] = "bound"] /\ held' = [held EXCEPT ![s] = <<Typ[s], a, p>>]
        ELSE UNCHANGED <<st, held>>
\* a bind to an address that is not assigned to any interface fails and must leave nothing reserved (the port was reserved
\* before the address check: the unwind has to release it)
BindForeign(s, eph) == Step /\ st[s] = "init" /\ UNCHANGED <<st, held>>
\* UDP connect: unbound -> reserves (route address, ephemeral); bound -> keeps its reservation
Connect(s) ==
  /\ Step /\ Typ[s] = "udp" /\ st[s] \in {"init", "bound", "conn"}
  /\ st' = [st EXCEPT ![s] = "conn"]
  /\ held' = IF st[s] = "init" THEN [held EXCEPT ![s] = <<"udp", Primary, Eph(s)>>] ELSE held
\* UDP write-to on an unbound socket auto-binds (any, ephemeral)
WriteTo(s) ==
  /\ Step /\ Typ[s] = "udp" /\ st[s] \in {"init", "bound", "conn"}
  /\ IF st[s] = "init" THEN st' = [st EXCEPT ![s] = "bound"] /\ held' = [held EXCEPT ![s] = <<"udp", AnyA, Eph(s)>>]
     ELSE UNCHANGED <<st, held>>
\* TCP connect (active open): the connection's 4-tuple is registered with the demultiplexer and the port reservation of
\* an earlier bind is given up at once (an unbound socket never reserves: its ephemeral port is picked by registration)
TcpConnect(s) ==
  /\ Step /\ Typ[s] = "tcp" /\ st[s] \in {"init", "bound"}
  /\ st' = [st EXCEPT ![s] = "conn"] /\ held' = [held EXCEPT ![s] = None]
Listen(s) == Step /\ Typ[s] = "tcp" /\ st[s] = "bound" /\ st' = [st EXCEPT ![s] = "listen"] /\ UNCHANGED held
Close(s) == Step /\ st[s] # "closed" /\ st' = [st EXCEPT ![s] = "closed"] /\ held' = [held EXCEPT ![s] = None]
Next == \E s \in Socks : \/ \E a \in LAddrs \cup {AnyA}, e \in BOOLEAN, ok \in BOOLEAN : Bind(s, a, e, ok)
                         \/ (\E e \in BOOLEAN : BindForeign(s, e)) \/ Connect(s) \/ TcpConnect(s) \/ WriteTo(s) \/ Listen(s) \/ Close(s)
Spec == Init /\ [][Next]_vars
Exclusive == \A s, t \in Socks : (s # t /\ held[s] # None /\ held[t] # None /\ held[s][1] = held[t][1] /\ held[s][3] = held[t][3])
                => (held[s][2] # AnyA /\ held[t][2] # AnyA /\ held[s][2] # held[t][2])
ClosedHoldsNothing == \A s \in Socks : st[s] = "closed" => held[s] = None
====
