---- MODULE TraceDemuxLin ----
(* C09 with registrations RACING deliveries: linearizability of concurrent
   histories of one real stack (harness/demuxraced) against the P-spec
       a datagram is given to the single most specific socket whose binding
       matches it at SOME INSTANT between the call and the return of its
       injection (connected 4-tuple before bound, specific local address before
       wildcard), to nobody if none matches then; never to a less specific
       socket while a more specific one is bound, never to two sockets, never to
       a socket that was not bound at any instant of the injection, never a
       datagram nobody injected, never the same datagram twice, never with
       another payload / sender.  TCP: a SYN reaches a listening socket of its
       port and address or, if there is none at that instant, is answered by a
       reset (before the history ends); no reset when a listener took it.
   Events (one totally ordered log; `call` is logged before invoking, `ret` after return):
     reset(addrs)                                    start of an independent history
     call(g, op, ...) / ret(g, ...)                  op = bind(s, addr, port) -> ok | err
                                                          connect(s, raddr, rport) -> ok, laddr | err
                                                          close(s)
                                                          inject(id, n, src, sport, dst, dport, sum)
                                                          read(s) -> ok, id, n, src, sport, sum | err
                                                          tbind(s, addr, port) -> ok | err      (TCP)
                                                          listen(s, addr, port) -> ok | err
                                                          tclose(s)
                                                          syn(id, src, dst, dport)              (id = unique source port)
     emit(kind = rst | synack | other, id)           a TCP frame leaving the stack towards source port id
     end
   TLC places the internal steps Lin(g) between call and ret.  Operations whose
   implementation touches two shared objects get two internal steps, which only
   WEAKENS the atomic reading (every accepted history satisfies the statement above):
     bind    = Claim (the port reservation: decides ok / "port is in use") ; Activate (deliverable)
     close   = Deactivate (undelivered datagrams die with the socket) ; Unclaim
     inject  = Find (the target is chosen among the bindings active at that instant) ; Enq (enters the
               target's queue, or is lost if the target was closed meanwhile)
   so that "bind failed because of X" / "delivery found nobody" need not be explained by one common instant
   of X's Bind or Close.  A queue is FIFO in Enq order; the receive buffer never fills (small payloads, few
   datagrams), so a datagram given to s is read by s in that order or s is closed with it unread; a read
   reports would-block only with an empty queue. *)
EXTENDS TraceIO, FiniteSets
VARIABLES la, claims, act, q, tl, syn, pend
tvars == <<l, la, claims, act, q, tl, syn, pend>>
G == 0..7
None == [op |-> "none"]
NoSock == -1
Done == 9
AnyA == ""

TInit == /\ l = 1 /\ la = {} /\ claims = {} /\ act = {} /\ q = <<>> /\ tl = {} /\ syn = <<>>
         /\ pend = [g \in G |-> None] /\ HWInit

Reset == /\ IsEvent("reset") /\ (\A g \in G : pend[g] = None)
         /\ la' = SeqToSet(Ev.addrs) /\ claims' = {} /\ act' = {} /\ q' = <<>> /\ tl' = {} /\ syn' = <<>>
         /\ UNCHANGED pend
End == /\ IsEvent("end") /\ (\A g \in G : pend[g] = None)
       /\ \A id \in DOMAIN syn : syn[id].to = "none" => syn[id].rst          \* nobody listened: the reset was sent
       /\ UNCHANGED <<la, claims, act, q, tl, syn, pend>>

\* ---- the P-spec: who is the addressee
Conflict(p, a) == \E c \in claims : c.port = p /\ (a = AnyA \/ c.addr = AnyA \/ c.addr = a)
Match(b, src, sport, dst, dport) == /\ b.port = dport
                                    /\ (b.laddr = AnyA \/ b.laddr = dst)
                                    /\ (b.raddr = AnyA \/ (b.raddr = src /\ b.rport = sport))
Rank(b) == (IF b.raddr # AnyA THEN 2 ELSE 0) + (IF b.laddr # AnyA THEN 1 ELSE 0)
Best(src, sport, dst, dport) ==
  IF dst \notin la THEN {}
  ELSE LET c == {b \in act : Match(b, src, sport, dst, dport)} IN {b \in c : \A o \in c : Rank(o) <= Rank(b)}
Listeners(dst, dport) == IF dst \notin la THEN {} ELSE {b \in tl : b.port = dport /\ (b.laddr = AnyA \/ b.laddr = dst)}
D(e) == [id |-> e.id, n |-> e.n, src |-> e.src, sport |-> e.sport, sum |-> e.sum]
Drop(f, s) == [x \in (DOMAIN f) \ {s} |-> f[x]]

\* the ret event of g that follows its call (peeked once, at the call: prunes the search)
RetIdx(g) == IF \E i \in (l + 1)..NT : Trace[i].ev = "ret" /\ Trace[i].g = g
             THEN CHOOSE i \in (l + 1)..NT : Trace[i].ev = "ret" /\ Trace[i].g = g /\ \A j \in (l + 1)..(i - 1) : ~(Trace[j].ev = "ret" /\ Trace[j].g = g)
             ELSE 0
Call == /\ IsEvent("call") /\ pend[Ev.g] = None
        /\ pend' = [pend EXCEPT ![Ev.g] = [op |-> Ev.op, e |-> Ev, ph |-> 0, t |-> NoSock, ri |-> RetIdx(Ev.g)]]
        /\ UNCHANGED <<la, claims, act, q, tl, syn>>
Step(g, ph) == pend' = [pend EXCEPT ![g].ph = ph]

LinBind(g, e, r) ==
  \/ /\ pend[g].ph = 0 /\ r.ok /\ ~Conflict(e.port, e.addr)                      \* succeeded: nobody held a conflicting binding
     /\ claims' = claims \cup {[s |-> e.s, port |-> e.port, addr |-> e.addr]}
     /\ Step(g, 1) /\ UNCHANGED <<act, q, tl, syn>>
  \/ /\ pend[g].ph = 0 /\ ~r.ok /\ r.err = "port is in use" /\ Conflict(e.port, e.addr)   \* refused: somebody did
     /\ Step(g, Done) /\ UNCHANGED <<claims, act, q, tl, syn>>
  \/ /\ pend[g].ph = 1
     /\ act' = act \cup {[s |-> e.s, port |-> e.port, laddr |-> e.addr, raddr |-> AnyA, rport |-> 0]}
     /\ q' = q @@ (e.s :> <<>>)
     /\ Step(g, Done) /\ UNCHANGED <<claims, tl, syn>>

LinConnect(g, e, r) ==
  /\ pend[g].ph = 0
  /\ \E b \in act : /\ b.s = e.s
                    /\ IF r.ok
                       THEN /\ r.laddr \in la /\ (b.laddr # AnyA => r.laddr = b.laddr)
                            /\ act' = (act \ {b}) \cup {[b EXCEPT !.laddr = r.laddr, !.raddr = e.raddr, !.rport = e.rport]}
                       ELSE act' = act
  /\ Step(g, Done) /\ UNCHANGED <<claims, q, tl, syn>>

LinClose(g, e) ==
  \/ /\ pend[g].ph = 0 /\ (\E b \in act : b.s = e.s)
     /\ act' = {b \in act : b.s # e.s} /\ q' = Drop(q, e.s)
     /\ Step(g, 1) /\ UNCHANGED <<claims, tl, syn>>
  \/ /\ pend[g].ph = 0 /\ ~(\E b \in act : b.s = e.s) /\ ~(\E c \in claims : c.s = e.s)      \* never bound
     /\ Step(g, Done) /\ UNCHANGED <<claims, act, q, tl, syn>>
  \/ /\ pend[g].ph = 1
     /\ claims' = {c \in claims : c.s # e.s}
     /\ Step(g, Done) /\ UNCHANGED <<act, q, tl, syn>>

LinInject(g, e) ==
  \/ /\ pend[g].ph = 0
     /\ LET B == Best(e.src, e.sport, e.dst, e.dport) IN
          IF B = {} THEN Step(g, Done)
          ELSE \E b \in B : pend' = [pend EXCEPT ![g].ph = 1, ![g].t = b.s]
     /\ UNCHANGED <<claims, act, q, tl, syn>>
  \/ /\ pend[g].ph = 1
     /\ q' = IF pend[g].t \in DOMAIN q THEN [q EXCEPT ![pend[g].t] = Append(@, D(e))] ELSE q
     /\ Step(g, Done) /\ UNCHANGED <<claims, act, tl, syn>>

LinRead(g, e, r) ==
  /\ pend[g].ph = 0 /\ e.s \in DOMAIN q
  /\ IF r.ok THEN q[e.s] # <<>> /\ Head(q[e.s]) = D(r) /\ q' = [q EXCEPT ![e.s] = Tail(@)]
     ELSE r.err = "operation would block" /\ q[e.s] = <<>> /\ q' = q
  /\ Step(g, Done) /\ UNCHANGED <<claims, act, tl, syn>>

\* ---- TCP listener lifecycle on the same port numbers.  Its own bind results are not judged here (a closed TCP
\* endpoint gives its port back inline but other resources asynchronously: C03/C10); what is judged is that UDP
\* never notices it and that a SYN is either taken by a listener or reset.
LinTcp(g, e, r) ==
  /\ pend[g].ph = 0
  /\ CASE e.op = "tbind"  -> tl' = tl
       [] e.op = "listen" -> tl' = IF r.ok THEN tl \cup {[s |-> e.s, port |-> e.port, laddr |-> e.addr]} ELSE tl
       [] e.op = "tclose" -> tl' = {b \in tl : b.s # e.s}
  /\ Step(g, Done) /\ UNCHANGED <<claims, act, q, syn>>
\* syn[id] = "none": nobody listened at its instant (a reset is due before the history ends, no SYN-ACK ever)
\*           "lst" : a listener took it (no reset ever; a SYN-ACK may follow, or nothing if the listener closed first)
LinSyn(g, e) ==
  /\ pend[g].ph = 0
  /\ syn' = syn @@ (e.id :> [to |-> IF Listeners(e.dst, e.dport) = {} THEN "none" ELSE "lst", rst |-> FALSE, dst |-> e.dst, dport |-> e.dport])
  /\ Step(g, Done) /\ UNCHANGED <<claims, act, q, tl>>
Emit == /\ IsEvent("emit")
        /\ LET e == Ev IN
             \* answers come from the address and port the SYN was sent to
             CASE e.kind = "rst"    -> /\ e.id \in DOMAIN syn /\ syn[e.id].to = "none" /\ ~syn[e.id].rst
                                       /\ e.from = syn[e.id].dst /\ e.port = syn[e.id].dport
                                       /\ syn' = [syn EXCEPT ![e.id].rst = TRUE]
               [] e.kind = "synack" -> /\ e.id \in DOMAIN syn /\ syn[e.id].to = "lst"
                                       /\ e.from = syn[e.id].dst /\ e.port = syn[e.id].dport /\ syn' = syn
               [] OTHER             -> FALSE
        /\ UNCHANGED <<la, claims, act, q, tl, pend>>

Lin(g) == /\ pend[g] # None /\ pend[g].ph # Done /\ pend[g].ri # 0
          /\ LET e == pend[g].e  r == Trace[pend[g].ri] IN
               CASE e.op = "bind"    -> LinBind(g, e, r)
                 [] e.op = "connect" -> LinConnect(g, e, r)
                 [] e.op = "close"   -> LinClose(g, e)
                 [] e.op = "inject"  -> LinInject(g, e)
                 [] e.op = "read"    -> LinRead(g, e, r)
                 [] e.op = "syn"     -> LinSyn(g, e)
                 [] OTHER            -> LinTcp(g, e, r)
          /\ UNCHANGED <<l, la>>
Ret == /\ IsEvent("ret") /\ pend[Ev.g] # None /\ pend[Ev.g].ph = Done
       /\ pend' = [pend EXCEPT ![Ev.g] = None] /\ UNCHANGED <<la, claims, act, q, tl, syn>>
TNext == Reset \/ End \/ Call \/ Ret \/ Emit \/ \E g \in G : Lin(g)
TSpec == TInit /\ [][TNext]_tvars
====
