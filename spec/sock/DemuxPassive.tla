---- MODULE DemuxPassive ----
(* C09 closed model, passive opens: one listener, and the connection endpoints
   it creates for the SYNs it takes from its queue.  Structured like the code
   (tcp/accept.go): the demultiplexer hands a SYN to the most specific
   registered endpoint (Arrive); the listener goroutine takes a SYN from its
   queue and starts a handler goroutine (Spawn); the handler creates the
   endpoint and registers its 4-tuple, which fails if the 4-tuple is taken
   (Register); a handler whose registration failed closes its endpoint
   (FailClose); Close unregisters BY ID - whoever holds the entry - if and
   only if the endpoint believes it is registered (stack/transport_demuxer.go:
   unregisterEndpoint deletes the map entry without looking at its owner).
   FlagEarly = TRUE is the variant in which the endpoint is marked registered
   before the registration is attempted; TLC must find LiveReachable violated
   for it (a SYN and its retransmission both queued at the listener).
   P-spec: a live connection is the target of its 4-tuple until it closes;
   everything else goes to the listener. *)
EXTENDS Integers, Sequences, FiniteSets, TLC
CONSTANTS Eps, Tuples, MaxQ, FlagEarly
VARIABLES ep, regs, q
vars == <<ep, regs, q>>
Listener == -1
None == [st |-> "none", id |-> 0, flag |-> FALSE]
Init == ep = [e \in Eps |-> None] /\ regs = {} /\ q = <<>>
Holder(t) == IF \E r \in regs : r[1] = t THEN (CHOOSE r \in regs : r[1] = t)[2] ELSE Listener
\* ---- I-spec
Lookup(t) == Holder(t)
Arrive(t) == /\ Lookup(t) = Listener /\ Len(q) < MaxQ
             /\ q' = Append(q, t) /\ UNCHANGED <<ep, regs>>
ArriveAtConn(t) == Lookup(t) # Listener /\ UNCHANGED vars          \* a retransmitted SYN that reaches the connection: ignored
Spawn(e) == /\ q # <<>> /\ ep[e].st = "none"
            /\ ep' = [ep EXCEPT ![e] = [st |-> "created", id |-> Head(q), flag |-> FlagEarly]]
            /\ q' = Tail(q) /\ UNCHANGED regs
Register(e) == /\ ep[e].st = "created"
               /\ IF Holder(ep[e].id) = Listener
                  THEN /\ regs' = regs \cup {<<ep[e].id, e>>}
                       /\ ep' = [ep EXCEPT ![e].st = "live", ![e].flag = TRUE]
                  ELSE /\ ep' = [ep EXCEPT ![e].st = "failed"] /\ UNCHANGED regs
               /\ UNCHANGED q
Unreg(e) == IF ep[e].flag THEN {r \in regs : r[1] # ep[e].id} ELSE regs
FailClose(e) == /\ ep[e].st = "failed"
                /\ regs' = Unreg(e) /\ ep' = [ep EXCEPT ![e].st = "closed", ![e].flag = FALSE] /\ UNCHANGED q
Close(e) == /\ ep[e].st = "live"
            /\ regs' = Unreg(e) /\ ep' = [ep EXCEPT ![e].st = "closed", ![e].flag = FALSE] /\ UNCHANGED q
Next == \/ \E t \in Tuples : Arrive(t) \/ ArriveAtConn(t)
        \/ \E e \in Eps : Spawn(e) \/ Register(e) \/ FailClose(e) \/ Close(e)
Spec == Init /\ [][Next]_vars
\* ---- P-spec
Live(t) == {e \in Eps : ep[e].st = "live" /\ ep[e].id = t}
Target(t) == IF Live(t) # {} THEN CHOOSE e \in Live(t) : TRUE ELSE Listener
OneLivePerTuple == \A t \in Tuples : Cardinality(Live(t)) <= 1
LiveReachable == \A t \in Tuples : Lookup(t) = Target(t)
OneRegPerId == \A r1, r2 \in regs : r1[1] = r2[1] => r1 = r2
====
