---- MODULE TraceSock ----
(* P-spec of the socket layer as a trace validator (C09 demultiplexing, C11
   UDP datagram semantics, C03 "no socket => one RST", used by the drivers
   built on harness/sockd).  State is the abstract host:
     addrs   set of <<nic, address>> assigned;  promisc  set of nics
     socks   sid -> [typ, v, st, laddr, lport, raddr, rport, nets, rcvclosed]
     q       sid -> sequence of datagrams [src, sport, pay] the socket holds (UDP)
     pemit   UDP datagrams emitted and not yet attributed to a Write
     expect  a reply the next emitted TCP frame must be (or NoExp)
   Admission of an arriving datagram is nondeterministic (it may be dropped
   whole under buffer pressure) except: it MUST be dropped if the read side is
   closed or no socket matches, and MUST be admitted if the target's queue is
   empty. *)
EXTENDS TraceIO, FiniteSets
VARIABLES addrs, promisc, socks, q, pemit, expect
tvars == <<l, addrs, promisc, socks, q, pemit, expect>>
AnyA == ""
NoSock == -1
NoExp == [kind |-> "none"]
Live == {"bound", "conn", "listen"}

TInit == l = 1 /\ addrs = {} /\ promisc = {} /\ socks = <<>> /\ q = <<>> /\ pemit = <<>> /\ expect = NoExp /\ HWInit
Sids == DOMAIN socks

Fld(r, f, d) == IF f \in DOMAIN r THEN r[f] ELSE d

\* ----------------------------------------------------------------- C09: the target of a packet
\* a subnet the interface owns is kept in addrs as <<nic, "net:" + textual prefix>> (byte-aligned IPv4 subnets: "10.1." = 10.1/16)
IsNet(a) == Len(a) > 4 /\ SubSeq(a, 1, 4) = "net:"
InNet(dst, a) == LET pre == SubSeq(a, 5, Len(a)) IN Len(dst) >= Len(pre) /\ SubSeq(dst, 1, Len(pre)) = pre
\* (prefixes that are not byte-aligned are kept as <<nic, "cidr:a.b.c.d/len">>; which of them contain the destination of an injected
\*  packet is arithmetic the scenario generator did: field innets of the injection event)
Accepts(nic, dst) == <<nic, dst>> \in addrs \/ nic \in promisc
                     \/ (\E a \in addrs : a[1] = nic /\ IsNet(a[2]) /\ InNet(dst, a[2]))
                     \/ (\E a \in addrs : a[1] = nic /\ a[2] \in SeqToSet(Fld(Ev, "innets", <<>>)))
\* (a socket bound to an interface - Bind or Connect with a NIC id - matches only what arrived on that interface: rnic; 0 = any)
Cands(typ, nic, v, dport) == {s \in Sids : socks[s].typ = typ /\ socks[s].st \in Live /\ socks[s].lport = dport /\ v \in socks[s].nets
                                             /\ socks[s].rnic \in {0, nic}}
Target(typ, nic, v, src, sport, dst, dport) ==
  IF ~Accepts(nic, dst) THEN NoSock
  ELSE LET c == Cands(typ, nic, v, dport)
           exact == {s \in c : socks[s].st = "conn" /\ socks[s].laddr = dst /\ socks[s].raddr = src /\ socks[s].rport = sport}
           spec  == {s \in c : socks[s].st # "conn" /\ socks[s].laddr = dst}
           wild  == {s \in c : socks[s].st # "conn" /\ socks[s].laddr = AnyA}
       IN IF exact # {} THEN CHOOSE s \in exact : TRUE
          ELSE IF spec # {} THEN CHOOSE s \in spec : TRUE
          ELSE IF wild # {} THEN CHOOSE s \in wild : TRUE
          ELSE NoSock
\* at most one socket per binding: otherwise "the single socket" is ill-defined (registration must have failed)
UniqueBinding == \A s, t \in Sids : (s # t /\ socks[s].st \in Live /\ socks[t].st \in Live /\ socks[s].typ = socks[t].typ
                                     /\ socks[s].lport = socks[t].lport /\ socks[s].nets \cap socks[t].nets # {}
                                     /\ socks[s].laddr = socks[t].laddr /\ socks[s].raddr = socks[t].raddr /\ socks[s].rport = socks[t].rport)
                                    => FALSE

\* ----------------------------------------------------------------- events
Reset == /\ IsEvent("reset")
         /\ pemit = <<>> /\ expect = NoExp                                  \* nothing unattributed left over
         /\ addrs' = {<<a[1], a[2]>> : a \in SeqToSet(Fld(Ev, "addrs", <<>>))}
         /\ promisc' = {} /\ socks' = <<>> /\ q' = <<>> /\ pemit' = <<>> /\ expect' = NoExp

NewSock == /\ IsEvent("op") /\ Ev.op \in {"udp", "tcp"} /\ expect = NoExp
           /\ socks' = (Ev.s :> [typ |-> Ev.op, v |-> Ev.v, st |-> "init", laddr |-> AnyA, lport |-> 0, raddr |-> AnyA, rport |-> 0,
                                 nets |-> {Ev.v}, rcvclosed |-> FALSE, v6only |-> FALSE, bnic |-> 0, rnic |-> 0,
                                 holds |-> FALSE, haddr |-> AnyA, hport |-> 0, hnets |-> {},
                                 tcpst |-> "", syn |-> <<-1, -1>>, peers |-> {}, kids |-> {}]) @@ socks
           /\ q' = (Ev.s :> <<>>) @@ q
           /\ UNCHANGED <<addrs, promisc, pemit, expect>>

NetsOf(sk, addr) == IF sk.v = 4 THEN {4} ELSE IF addr = AnyA /\ ~sk.v6only THEN {4, 6} ELSE {6}

Bind == /\ IsEvent("op") /\ Ev.op = "bind" /\ expect = NoExp
        /\ IF Ev.err = ""
           \* (a dual-stack IPv6 socket bound to a v4-mapped address is an IPv4 socket bound to the embedded address: eaddr)
           THEN LET mapped == socks[Ev.s].v = 6 /\ "eaddr" \in DOMAIN Ev
                    la == IF mapped THEN Ev.eaddr ELSE Ev.addr
                    nets == IF mapped THEN {4} ELSE NetsOf(socks[Ev.s], Ev.addr) IN
                socks' = [socks EXCEPT ![Ev.s].st = "bound", ![Ev.s].laddr = la, ![Ev.s].lport = Ev.lport,
                                       ![Ev.s].nets = nets,
                                       \* (only UDP binds to an interface; a TCP Bind ignores the interface id it is given: observation in DESIGN 8.9)
                                       ![Ev.s].bnic = (IF socks[Ev.s].typ = "udp" THEN Fld(Ev, "nic", 0) ELSE 0),
                                       ![Ev.s].rnic = (IF socks[Ev.s].typ = "udp" THEN Fld(Ev, "nic", 0) ELSE 0),
                                       ![Ev.s].holds = TRUE, ![Ev.s].haddr = la, ![Ev.s].hport = Ev.lport,
                                       ![Ev.s].hnets = nets]
           ELSE UNCHANGED socks
        /\ UNCHANGED <<addrs, promisc, q, pemit>> /\ expect' = expect

Connect == /\ IsEvent("op") /\ Ev.op = "connect" /\ expect = NoExp /\ socks[Ev.s].typ = "udp"
           /\ IF Ev.err = ""
              THEN socks' = [socks EXCEPT ![Ev.s].st = "conn", ![Ev.s].laddr = Ev.laddr, ![Ev.s].lport = Ev.lport,
                                          \* (connecting a v6 socket to a v4-mapped address makes it an IPv4 socket: eaddr)
                                          ![Ev.s].raddr = Fld(Ev, "eaddr", Ev.addr), ![Ev.s].rport = Ev.port,
                                          ![Ev.s].nets = IF socks[Ev.s].v = 4 \/ "eaddr" \in DOMAIN Ev THEN {4} ELSE {6},
                                          \* (the interface named at Bind wins over the one named at Connect)
                                          ![Ev.s].rnic = IF socks[Ev.s].bnic # 0 THEN socks[Ev.s].bnic ELSE Fld(Ev, "nic", 0),
                                          ![Ev.s].holds = TRUE,
                                          ![Ev.s].haddr = IF socks[Ev.s].holds THEN socks[Ev.s].haddr ELSE Ev.laddr,
                                          ![Ev.s].hport = IF socks[Ev.s].holds THEN socks[Ev.s].hport ELSE Ev.lport,
                                          ![Ev.s].hnets = IF socks[Ev.s].holds THEN socks[Ev.s].hnets
                                                          ELSE IF socks[Ev.s].v = 4 THEN {4} ELSE IF socks[Ev.s].v6only THEN {6} ELSE {4, 6}]
              ELSE UNCHANGED socks
           /\ UNCHANGED <<addrs, promisc, q, pemit>> /\ expect' = expect

Listen == /\ IsEvent("op") /\ Ev.op = "listen" /\ expect = NoExp
          /\ IF Ev.err = "" THEN socks' = [socks EXCEPT ![Ev.s].st = "listen"] ELSE UNCHANGED socks
          /\ UNCHANGED <<addrs, promisc, q, pemit>> /\ expect' = expect

SetOpt == /\ IsEvent("op") /\ Ev.op = "setopt" /\ expect = NoExp
          /\ IF Ev.opt = "v6only" /\ Ev.err = "" THEN socks' = [socks EXCEPT ![Ev.s].v6only = (Ev.val # 0)] ELSE UNCHANGED socks
          /\ UNCHANGED <<addrs, promisc, q, pemit>> /\ expect' = expect

AutoBind(s, lp) == [socks EXCEPT ![s].st = "bound", ![s].lport = lp, ![s].nets = NetsOf(socks[s], AnyA),
                                  ![s].holds = TRUE, ![s].haddr = AnyA, ![s].hport = lp, ![s].hnets = NetsOf(socks[s], AnyA)]
\* C11 emission side: a successful write is exactly one emitted datagram with exactly these bytes,
\* from the socket's port to the addressed peer; a failed write emits nothing.
Write == /\ IsEvent("op") /\ Ev.op = "write" /\ expect = NoExp
         /\ LET sk == socks[Ev.s]
                hasTo == "to" \in DOMAIN Ev /\ Ev.to # "null"
                \* (a v4-mapped IPv6 destination travels over IPv4 to the embedded address: eaddr)
                daddr == IF "to" \in DOMAIN Ev THEN Fld(Ev.to, "eaddr", Ev.to.addr) ELSE sk.raddr
                dport == IF "to" \in DOMAIN Ev THEN Ev.to.port ELSE sk.rport
            IN IF Ev.err = ""
               THEN /\ Len(pemit) = 1
                    /\ pemit[1].pay = Ev.pay /\ Ev.wn = Ev.pay.n
                    /\ pemit[1].dst = daddr /\ pemit[1].dport = dport /\ pemit[1].sport = Ev.lport
                    /\ (sk.st # "init" => sk.lport = Ev.lport)
                    /\ (sk.laddr # AnyA => pemit[1].src = sk.laddr)
                    /\ (\E n \in {a[1] : a \in addrs} : <<n, pemit[1].src>> \in addrs)
                    /\ pemit[1].lenok /\ pemit[1].sumok /\ pemit[1].iphdrok
                    /\ socks' = IF sk.st = "init" THEN AutoBind(Ev.s, Ev.lport) ELSE socks
               ELSE /\ pemit = <<>>
                    /\ socks' = IF sk.st = "init" /\ "lport" \in DOMAIN Ev /\ Ev.lport # 0 THEN AutoBind(Ev.s, Ev.lport) ELSE socks
         /\ pemit' = <<>> /\ UNCHANGED <<addrs, promisc, q>> /\ expect' = expect

EmitUdp == /\ IsEvent("emit") /\ Ev.kind = "udp" /\ expect = NoExp
           /\ pemit' = Append(pemit, Ev)
           /\ UNCHANGED <<addrs, promisc, socks, q, expect>>

\* C11/C09 receive side
Dgram(e) == [src |-> e.src, sport |-> e.sport, pay |-> e.pay]
\* queue entries are [d |-> datagram, maybe |-> it may have been dropped on arrival (the socket was not empty then)]
AllMaybe(qs) == \A k \in 1..Len(qs) : qs[k].maybe
\* index of the first entry equal to d that is reachable by skipping droppable entries only, or 0
FirstMatch(qs, d) == LET I == {i \in 1..Len(qs) : qs[i].d = d /\ \A j \in 1..(i - 1) : qs[j].maybe} IN
                     IF I = {} THEN 0 ELSE CHOOSE i \in I : \A k \in I : i <= k
\* what a drain returned (gs, in order) is the queue with some droppable entries left out
RECURSIVE SubMatch(_, _)
SubMatch(qs, gs) == IF gs = <<>> THEN AllMaybe(qs)
                    ELSE LET i == FirstMatch(qs, Dgram(Head(gs))) IN i > 0 /\ SubMatch(SubSeq(qs, i + 1, Len(qs)), Tail(gs))
InjectUdp == /\ IsEvent("op") /\ Ev.op = "inject" /\ Ev.kind = "udp" /\ expect = NoExp /\ pemit = <<>>
             /\ UniqueBinding
             /\ LET t == Target("udp", Fld(Ev, "nic", 1), Ev.v, Ev.src, Ev.sport, Ev.dst, Ev.dport) IN
                IF t = NoSock \/ socks[t].rcvclosed \/ Fld(Ev, "forcelen", 0) # 0
                THEN UNCHANGED q                                                        \* nobody gets it
                \* whole, to the single target - or dropped whole under buffer pressure, which is only possible when the target
                \* already holds something: the entry is then marked droppable and the reads decide (no branching here: a burst of
                \* k arrivals would otherwise make 2^k behaviours)
                ELSE q' = [q EXCEPT ![t] = Append(@, [d |-> Dgram(Ev), maybe |-> (@ # <<>>)])]
             /\ UNCHANGED <<addrs, promisc, socks, pemit, expect>>

Read == /\ IsEvent("op") /\ Ev.op = "read" /\ expect = NoExp /\ socks[Ev.s].typ = "udp"
        /\ IF Ev.ok
           THEN /\ FirstMatch(q[Ev.s], Dgram(Ev)) > 0                                   \* FIFO, whole, true sender (droppable ones before it were dropped)
                /\ q' = [q EXCEPT ![Ev.s] = SubSeq(@, FirstMatch(@, Dgram(Ev)) + 1, Len(@))]
           ELSE /\ AllMaybe(q[Ev.s]) /\ q' = [q EXCEPT ![Ev.s] = <<>>]                    \* nothing there: whatever was pending had been dropped
                /\ (Ev.err = "endpoint is closed for receive" => socks[Ev.s].rcvclosed)
        /\ UNCHANGED <<addrs, promisc, socks, pemit, expect>>

\* drain every socket: what each socket returns is exactly its queue, everything else returns nothing
GotOf(s) == SelectSeq(Ev.got, LAMBDA g : g.s = s)
ReadAll == /\ IsEvent("op") /\ Ev.op = "readall" /\ expect = NoExp
           /\ \A i \in 1..Len(Ev.got) : Ev.got[i].s \in Sids
           /\ \A s \in Sids : socks[s].typ = "udp" =>
                 SubMatch(q[s], GotOf(s))
           /\ \A s \in Sids : socks[s].typ = "tcp" => GotOf(s) = <<>>
           /\ q' = [s \in Sids |-> <<>>]
           /\ UNCHANGED <<addrs, promisc, socks, pemit, expect>>

Shutdown == /\ IsEvent("op") /\ Ev.op = "shutdown" /\ expect = NoExp
            /\ IF Ev.err = "" /\ \E i \in 1..Len(Ev.how) : SubSeq(Ev.how, i, i) = "r"
               THEN socks' = [socks EXCEPT ![Ev.s].rcvclosed = TRUE] /\ q' = q
               ELSE UNCHANGED <<socks, q>>
            /\ UNCHANGED <<addrs, promisc, pemit, expect>>

\* (an established TCP connection that the application closes lingers in the demultiplexer until its closing handshake is
\* over: state "linger"; it is not a candidate of Target any more, but segments of its 4-tuple may still reach it)
Close == /\ IsEvent("op") /\ Ev.op = "close" /\ expect = NoExp
         /\ socks' = [socks EXCEPT ![Ev.s].st = IF socks[Ev.s].typ = "tcp" /\ socks[Ev.s].tcpst \in {"estab", "disturbed"} THEN "linger" ELSE "closed",
                                    ![Ev.s].rcvclosed = TRUE, ![Ev.s].holds = FALSE]
         /\ q' = [q EXCEPT ![Ev.s] = <<>>]
         /\ UNCHANGED <<addrs, promisc, pemit, expect>>

AddrOps == /\ IsEvent("op") /\ Ev.op \in {"addaddr", "rmaddr", "promisc", "addsubnet", "rmsubnet"} /\ expect = NoExp
           /\ IF Ev.op = "promisc" THEN promisc' = (IF Ev.on THEN promisc \cup {Ev.nic} ELSE promisc \ {Ev.nic}) /\ UNCHANGED addrs
              ELSE /\ UNCHANGED promisc
                   /\ addrs' = IF Ev.err # "" THEN addrs
                               ELSE IF Ev.op = "addaddr" THEN addrs \cup {<<Ev.nic, Ev.addr>>}
                               ELSE IF Ev.op = "rmaddr" THEN addrs \ {<<Ev.nic, Ev.addr>>}
                               ELSE IF Ev.op = "addsubnet" THEN addrs \cup {<<Ev.nic, Ev.key>>}
                               ELSE addrs \ {<<Ev.nic, Ev.key>>}
           /\ UNCHANGED <<socks, q, pemit, expect>>

\* ----------------------------------------------------------------- TCP segments and resets (C09 "TCP answers with a reset", C03 NoSocket)
\* 32-bit sequence numbers travel as (hi, lo) 16-bit halves
Add32(hi, lo, n) == LET s == lo + n IN <<(hi + s \div 65536) % 65536, s % 65536>>
SegLen(e) == e.pay.n + (IF \E i \in 1..Len(e.flags) : SubSeq(e.flags, i, i) = "S" THEN 1 ELSE 0)
                     + (IF \E i \in 1..Len(e.flags) : SubSeq(e.flags, i, i) = "F" THEN 1 ELSE 0)
HasFlag(e, c) == \E i \in 1..Len(e.flags) : SubSeq(e.flags, i, i) = c
SynOf(e) == {s \in Sids : socks[s].typ = "tcp" /\ socks[s].st = "conn" /\ socks[s].tcpst = "synsent" /\ socks[s].laddr = e.src
                            /\ socks[s].lport = e.sport /\ socks[s].raddr = e.dst /\ socks[s].rport = e.dport}
InjectTcp == /\ IsEvent("op") /\ Ev.op = "inject" /\ Ev.kind = "tcp" /\ expect = NoExp
             /\ UniqueBinding
             /\ LET t == Target("tcp", Fld(Ev, "nic", 1), Ev.v, Ev.src, Ev.sport, Ev.dst, Ev.dport)
                    synack == t # NoSock /\ socks[t].tcpst = "synsent" /\ socks[t].syn[1] >= 0
                              /\ HasFlag(Ev, "S") /\ HasFlag(Ev, "A") /\ ~HasFlag(Ev, "R") /\ ~HasFlag(Ev, "F") /\ Ev.pay.n = 0
                              /\ <<Ev.ackhi, Ev.acklo>> = Add32(socks[t].syn[1], socks[t].syn[2], 1)
                    \* the first SYN of a peer that reaches a listener is answered with a SYN-ACK (later segments of that peer
                    \* belong to the half-open connection the listener created, which is not modelled here)
                    lsyn == t # NoSock /\ socks[t].st = "listen" /\ Ev.flags = "S" /\ Ev.pay.n = 0 /\ <<Ev.src, Ev.sport>> \notin socks[t].peers
                    ling == \/ \E x \in Sids : (socks[x].st = "linger" /\ socks[x].laddr = Ev.dst /\ socks[x].lport = Ev.dport
                                                  /\ socks[x].raddr = Ev.src /\ socks[x].rport = Ev.sport)
                            \* ... and so may the half-open connections a listener created for the peers whose SYN it answered
                            \/ \E x \in Sids : (socks[x].typ = "tcp" /\ <<Ev.src, Ev.sport>> \in socks[x].peers /\ socks[x].lport = Ev.dport
                                                  /\ (socks[x].laddr = Ev.dst \/ socks[x].laddr = AnyA) /\ socks[x].st # "listen")
                    \* a connection the listener created (its SYN-ACK is on the wire): the 4-tuple is the most specific binding from then
                    \* on.  The segment that acknowledges the SYN-ACK goes to that connection and completes its handshake (data it
                    \* carries may be dropped: the peer retransmits): Accept then returns the connection.  In-order data that arrives
                    \* once it has been accepted is acknowledged by the CONNECTION at once (the listener never would)
                    kidset == IF t # NoSock /\ socks[t].st = "listen" /\ Ev.flags \in {"A", "PA"}
                              THEN {k \in socks[t].kids : k.src = Ev.src /\ k.sport = Ev.sport /\ k.rcv = <<Ev.seqhi, Ev.seqlo>> /\ k.snd = <<Ev.ackhi, Ev.acklo>>
                                                            /\ (~k.done \/ (k.est /\ Ev.pay.n > 0))}
                              ELSE {}
                IN
                IF ling
                THEN /\ expect' = [kind |-> "notcp", src |-> Ev.dst, dst |-> Ev.src, sport |-> Ev.dport, dport |-> Ev.sport, tosock |-> TRUE]
                     /\ UNCHANGED socks
                ELSE IF t = NoSock /\ Accepts(Fld(Ev, "nic", 1), Ev.dst) /\ ~HasFlag(Ev, "R")
                THEN /\ expect' = [kind |-> "rst", src |-> Ev.dst, dst |-> Ev.src, sport |-> Ev.dport, dport |-> Ev.sport,
                                seq |-> IF HasFlag(Ev, "A") THEN <<Ev.ackhi, Ev.acklo>> ELSE <<0, 0>>,
                                ack |-> Add32(Ev.seqhi, Ev.seqlo, SegLen(Ev))]
                     /\ UNCHANGED socks
                ELSE IF kidset # {}
                THEN LET k == CHOOSE x \in kidset : TRUE
                         nxt == Add32(Ev.seqhi, Ev.seqlo, Ev.pay.n) IN
                     /\ expect' = IF k.est
                                  THEN [kind |-> "dataack", src |-> Ev.dst, dst |-> Ev.src, sport |-> Ev.dport, dport |-> Ev.sport, seq |-> k.snd, ack |-> nxt]
                                  ELSE [kind |-> "notcp", src |-> Ev.dst, dst |-> Ev.src, sport |-> Ev.dport, dport |-> Ev.sport, tosock |-> TRUE]
                     /\ socks' = [socks EXCEPT ![t].kids = (@ \ {k}) \cup {IF k.est THEN [k EXCEPT !.rcv = nxt] ELSE [k EXCEPT !.done = TRUE]}]
                ELSE IF lsyn
                THEN /\ expect' = [kind |-> "synack", src |-> Ev.dst, dst |-> Ev.src, sport |-> Ev.dport, dport |-> Ev.sport,
                                    ack |-> Add32(Ev.seqhi, Ev.seqlo, 1), ls |-> t]
                     /\ socks' = [socks EXCEPT ![t].peers = @ \cup {<<Ev.src, Ev.sport>>}]
                ELSE IF synack
                THEN /\ expect' = [kind |-> "hsack", src |-> Ev.dst, dst |-> Ev.src, sport |-> Ev.dport, dport |-> Ev.sport,
                                    seq |-> <<Ev.ackhi, Ev.acklo>>, ack |-> Add32(Ev.seqhi, Ev.seqlo, 1)]
                     /\ socks' = [socks EXCEPT ![t].tcpst = "estab"]
                ELSE /\ expect' = [kind |-> "notcp", src |-> Ev.dst, dst |-> Ev.src, sport |-> Ev.dport, dport |-> Ev.sport,
                                tosock |-> (t # NoSock)]
                     \* any other segment that reaches a connecting socket may change its handshake state (a plain SYN is a
                     \* simultaneous open, ...): no expectation about a later SYN-ACK any more
                     /\ socks' = IF t # NoSock /\ socks[t].tcpst = "synsent" THEN [socks EXCEPT ![t].tcpst = "disturbed"] ELSE socks
             /\ UNCHANGED <<addrs, promisc, q, pemit>>

\* exactly one reset that acknowledges the segment (sequence 0 if it carried no ACK)
EmitRst == /\ IsEvent("emit") /\ Ev.kind = "tcp" /\ expect.kind = "rst"
           /\ HasFlag(Ev, "R") /\ ~HasFlag(Ev, "S")
           /\ Ev.src = expect.src /\ Ev.dst = expect.dst /\ Ev.sport = expect.sport /\ Ev.dport = expect.dport
           /\ <<Ev.seqhi, Ev.seqlo>> = expect.seq
           /\ HasFlag(Ev, "A") /\ <<Ev.ackhi, Ev.acklo>> = expect.ack
           /\ Ev.sumok /\ Ev.iphdrok /\ Ev.pay.n = 0
           /\ expect' = [kind |-> "notcp", src |-> expect.src, dst |-> expect.dst, sport |-> expect.sport, dport |-> expect.dport, tosock |-> FALSE]
           /\ UNCHANGED <<addrs, promisc, socks, q, pemit>>

\* after the (optional) reset: no further TCP frame for that 4-tuple unless a socket took the segment;
\* the expectation ends at the next op event
SameTuple(e) == e.src = expect.src /\ e.dst = expect.dst /\ e.sport = expect.sport /\ e.dport = expect.dport
\* (while another expectation is open, frames of OTHER 4-tuples may still appear: replies that come from protocol goroutines -
\*  a listener's SYN-ACK, the final ACK of an active open - can be later than the settle that followed their cause)
EmitTcpOther == /\ IsEvent("emit") /\ Ev.kind = "tcp"
                /\ ~(HasFlag(Ev, "S") /\ ~HasFlag(Ev, "A") /\ ~HasFlag(Ev, "R") /\ SynOf(Ev) # {})
                /\ (IF expect.kind = "none" THEN TRUE
                    ELSE IF expect.kind = "notcp" THEN (SameTuple(Ev) => expect.tosock)
                    ELSE ~SameTuple(Ev))
                /\ UNCHANGED <<addrs, promisc, socks, q, pemit, expect>>
\* (the reset of the no-socket path is emitted synchronously inside the injection, so it must be there at the next settle;
\* the final ACK of an active open and the SYN-ACK of a listener come from protocol goroutines: they may be late, so such an
\* expectation survives a settle and is simply dropped at the next operation - what it still forbids is a RESET instead)
Settle == /\ IsEvent("op") /\ Ev.op \in {"settle", "sleep"} /\ expect.kind \notin {"rst", "dataack"}
          /\ expect' = (IF expect.kind \in {"hsack", "synack"} THEN expect ELSE NoExp) /\ UNCHANGED <<addrs, promisc, socks, q, pemit>>
EndExpect == /\ expect.kind \in {"notcp", "hsack", "synack"} /\ l <= NT /\ Trace[l].ev = "op" /\ Trace[l].op \notin {"settle", "sleep"}
             /\ expect' = NoExp /\ UNCHANGED <<l, addrs, promisc, socks, q, pemit>>
EmitOther == /\ IsEvent("emit") /\ Ev.kind \notin {"udp", "tcp"}
             /\ UNCHANGED <<addrs, promisc, socks, q, pemit, expect>>
\* TCP active open: Connect registers the full 4-tuple with the demultiplexer at once (the SYN goes out; the handshake
\* completes later) and gives up the port reservation made by an earlier bind: from here on only the 4-tuple is taken.
\* A connect that collides with an existing registration of the same 4-tuple fails and changes nothing.
ConnStarted(e) == e \in {"", "connection attempt started"}
TcpConnect == /\ IsEvent("op") /\ Ev.op = "connect" /\ expect = NoExp /\ socks[Ev.s].typ = "tcp"
              /\ IF ConnStarted(Ev.err)
                 THEN socks' = [socks EXCEPT ![Ev.s].st = "conn", ![Ev.s].laddr = Ev.laddr, ![Ev.s].lport = Ev.lport,
                                             ![Ev.s].raddr = Ev.addr, ![Ev.s].rport = Ev.port,
                                             ![Ev.s].nets = IF socks[Ev.s].v = 4 THEN {4} ELSE {6},
                                             ![Ev.s].rnic = IF socks[Ev.s].bnic # 0 THEN socks[Ev.s].bnic ELSE Fld(Ev, "nic", 0),
                                             ![Ev.s].holds = FALSE, ![Ev.s].tcpst = "synsent"]
                 ELSE UNCHANGED socks
              /\ UNCHANGED <<addrs, promisc, q, pemit, expect>>
\* a connection whose handshake the peer has completed is handed out by Accept (the oldest one first is not demanded)
Ready(s) == {k \in socks[s].kids : k.done /\ ~k.est}
TcpAccept == /\ IsEvent("op") /\ Ev.op = "accept" /\ expect = NoExp /\ socks[Ev.s].typ = "tcp"
             /\ IF Ready(Ev.s) # {}
                THEN /\ Ev.err = ""
                     /\ \E k \in Ready(Ev.s) : k.src = Ev.raddr /\ k.sport = Ev.rport
                     /\ socks' = [socks EXCEPT ![Ev.s].kids = {IF k.src = Ev.raddr /\ k.sport = Ev.rport THEN [k EXCEPT !.est = TRUE] ELSE k : k \in @}]
                ELSE UNCHANGED socks
             /\ UNCHANGED <<addrs, promisc, q, pemit, expect>>
\* the SYN of an active open (first transmission or retransmission): remember its sequence number
EmitSyn == /\ IsEvent("emit") /\ Ev.kind = "tcp" /\ HasFlag(Ev, "S") /\ ~HasFlag(Ev, "A") /\ ~HasFlag(Ev, "R") /\ SynOf(Ev) # {}
           /\ socks' = [s \in Sids |-> IF s \in SynOf(Ev) THEN [socks[s] EXCEPT !.syn = <<Ev.seqhi, Ev.seqlo>>] ELSE socks[s]]
           /\ UNCHANGED <<addrs, promisc, q, pemit, expect>>
\* the SYN-ACK that acknowledges exactly that SYN reaches the connecting socket (the most specific match): the handshake
\* completes, i.e. the next frame on that 4-tuple is the final ACK (not a reset: a socket matched)
EmitSynAck == /\ IsEvent("emit") /\ Ev.kind = "tcp" /\ expect.kind = "synack"
              /\ HasFlag(Ev, "S") /\ HasFlag(Ev, "A") /\ ~HasFlag(Ev, "R")
              /\ Ev.src = expect.src /\ Ev.dst = expect.dst /\ Ev.sport = expect.sport /\ Ev.dport = expect.dport
              /\ <<Ev.ackhi, Ev.acklo>> = expect.ack
              /\ expect' = [kind |-> "notcp", src |-> expect.src, dst |-> expect.dst, sport |-> expect.sport, dport |-> expect.dport, tosock |-> TRUE]
              /\ socks' = [socks EXCEPT ![expect.ls].kids = @ \cup {[src |-> expect.dst, sport |-> expect.dport, rcv |-> expect.ack,
                                                                      snd |-> Add32(Ev.seqhi, Ev.seqlo, 1), done |-> FALSE, est |-> FALSE]}]
              /\ UNCHANGED <<addrs, promisc, q, pemit>>
\* the connection acknowledges exactly the data it was handed (a hard obligation: Settle is not enabled while it is open)
EmitDataAck == /\ IsEvent("emit") /\ Ev.kind = "tcp" /\ expect.kind = "dataack"
               /\ HasFlag(Ev, "A") /\ ~HasFlag(Ev, "R") /\ ~HasFlag(Ev, "S")
               /\ Ev.src = expect.src /\ Ev.dst = expect.dst /\ Ev.sport = expect.sport /\ Ev.dport = expect.dport
               /\ <<Ev.seqhi, Ev.seqlo>> = expect.seq /\ <<Ev.ackhi, Ev.acklo>> = expect.ack /\ Ev.sumok
               /\ expect' = [kind |-> "notcp", src |-> expect.src, dst |-> expect.dst, sport |-> expect.sport, dport |-> expect.dport, tosock |-> TRUE]
               /\ UNCHANGED <<addrs, promisc, socks, q, pemit>>
EmitHsAck == /\ IsEvent("emit") /\ Ev.kind = "tcp" /\ expect.kind = "hsack"
             /\ HasFlag(Ev, "A") /\ ~HasFlag(Ev, "R") /\ ~HasFlag(Ev, "S")
             /\ Ev.src = expect.src /\ Ev.dst = expect.dst /\ Ev.sport = expect.sport /\ Ev.dport = expect.dport
             /\ <<Ev.seqhi, Ev.seqlo>> = expect.seq /\ <<Ev.ackhi, Ev.acklo>> = expect.ack
             /\ expect' = [kind |-> "notcp", src |-> expect.src, dst |-> expect.dst, sport |-> expect.sport, dport |-> expect.dport, tosock |-> TRUE]
             /\ UNCHANGED <<addrs, promisc, socks, q, pemit>>
\* C10 at socket level: IsPortAvailable answers exactly "no live socket holds a conflicting reservation":
\* reservations are made at bind / auto-bind, are exclusive, and are released by Close (and by nothing else)
HeldConflict(nets, t, a, p) == \E s \in Sids : socks[s].holds /\ socks[s].typ = t /\ socks[s].hport = p /\ socks[s].hnets \cap nets # {}
                                  /\ (a = AnyA \/ socks[s].haddr = AnyA \/ socks[s].haddr = a)
Avail == /\ IsEvent("op") /\ Ev.op = "avail" /\ expect = NoExp
         /\ \A i \in 1..Len(Ev.tuples) : LET tu == Ev.tuples[i] IN Ev.avail[i] = ~HeldConflict(SeqToSet(tu[1]), tu[2], tu[3], tu[4])
         /\ UNCHANGED <<addrs, promisc, socks, q, pemit, expect>>

TNext == Reset \/ NewSock \/ Bind \/ Connect \/ Listen \/ SetOpt \/ Write \/ EmitUdp \/ InjectUdp \/ Read \/ ReadAll
         \/ Shutdown \/ Close \/ AddrOps \/ InjectTcp \/ EmitRst \/ EmitTcpOther \/ Settle \/ EndExpect \/ EmitOther
         \/ TcpConnect \/ TcpAccept \/ EmitSyn \/ EmitHsAck \/ EmitSynAck \/ EmitDataAck \/ Avail
TSpec == TInit /\ [][TNext]_tvars
====
