---- MODULE Udp ----
(* C11 closed model of one UDP socket's receive side.
   I-spec: the queue with the code's admission rule (drop when the read side
   is closed / the socket is not ready / used >= max, otherwise enqueue the
   whole datagram and add its size), Read pops the front.
   P-spec (history variables): `arrived` = datagrams sent to the socket (ids in
   arrival order), `returned` = datagrams Read has returned.
   Datagram d = [id, snd (sender), sz].  *)
EXTENDS Integers, Sequences, FiniteSets, TLC
CONSTANTS MaxArr, Cap
VARIABLES q, used, ready, closed, arrived, returned, lastErr
vars == <<q, used, ready, closed, arrived, returned, lastErr>>
Senders == {"a", "b"}
Sizes == {0, 1, 2}
Init == q = <<>> /\ used = 0 /\ ready = FALSE /\ closed = FALSE /\ arrived = <<>> /\ returned = <<>> /\ lastErr = "none"

Bind == ~ready /\ ~closed /\ ready' = TRUE /\ UNCHANGED <<q, used, closed, arrived, returned, lastErr>>
Arrive(s, z) ==
  /\ Len(arrived) < MaxArr
  /\ LET d == [id |-> Len(arrived) + 1, snd |-> s, sz |-> z] IN
     /\ arrived' = Append(arrived, d)
     /\ IF ~ready \/ closed \/ used >= Cap
        THEN UNCHANGED <<q, used>>                       \* dropped whole
        ELSE q' = Append(q, d) /\ used' = used + z       \* enqueued whole (may overshoot Cap: the code admits while used < max)
  /\ UNCHANGED <<ready, closed, returned, lastErr>>
Read ==
  /\ IF q = <<>>
     THEN lastErr' = (IF closed THEN "closed" ELSE "wouldblock") /\ UNCHANGED <<q, used, returned>>
     ELSE /\ returned' = Append(returned, Head(q)) /\ q' = Tail(q) /\ used' = used - Head(q).sz /\ lastErr' = "none"
  /\ UNCHANGED <<ready, closed, arrived>>
ShutdownRead == ready /\ ~closed /\ closed' = TRUE /\ UNCHANGED <<q, used, ready, arrived, returned, lastErr>>
Close == ~closed /\ closed' = TRUE /\ q' = <<>> /\ used' = 0 /\ UNCHANGED <<ready, arrived, returned, lastErr>>
Next == Bind \/ (\E s \in Senders, z \in Sizes : Arrive(s, z)) \/ Read \/ ShutdownRead \/ Close
Spec == Init /\ [][Next]_vars

\* every returned datagram is one that arrived, returned at most once, in arrival order
Ids(s) == {s[i].id : i \in 1..Len(s)}
NoInvent == /\ \A i \in 1..Len(returned) : \E j \in 1..Len(arrived) : arrived[j] = returned[i]
            /\ \A i, j \in 1..Len(returned) : i # j => returned[i].id # returned[j].id
Fifo == \A i, j \in 1..Len(returned) : i < j => returned[i].id < returned[j].id
ClosedEmpty == TRUE
TypeOK == used >= 0 /\ (q = <<>> => used = 0) /\ Ids(q) \cap Ids(returned) = {}
\* what is queued and what was returned never overlap, and queued ids are increasing (no reordering inside the queue)
====
