---- MODULE DemuxTcp ----
(* C09 closed model, TCP half (companion of Demux, which is UDP).  Sockets are
   TCP: bind reserves the port (no registration yet), listen registers
   (local address, port), connect (active open) registers the full 4-tuple and
   gives the bind reservation up, so that another socket may take the same
   local port next to the connection.  P-spec: Target = the most specific
   registered socket (connection before listener, specific listener before
   wildcard listener), or none.  I-spec: the registry and the four-step lookup
   of findEndpointLocked.  TLC checks Lookup = Target in every reachable
   state; the graph (edge labels = operation, arguments, predicted outcome) is
   the source of the histories replayed on the real stack, where the
   observable outcome of an injected segment is: a reset (no socket), the
   final ACK of the handshake (valid SYN-ACK to the connecting socket), a
   SYN-ACK (SYN to a listener), or anything from a socket.
   Eph(s) = 100 + s stands for the ephemeral port socket s gets at run time. *)
EXTENDS Integers, Sequences, FiniteSets, TLC
CONSTANTS Socks, LAddrs, Ports, Remotes, RPorts, Foreign, Primary
VARIABLES sk, regs, res
vars == <<sk, regs, res>>
AnyA == ""
NoSock == -1
Eph(s) == 100 + s
InitSock == [st |-> "init", laddr |-> AnyA, lport |-> 0, raddr |-> AnyA, rport |-> 0, held |-> FALSE]
Init == sk = [s \in Socks |-> InitSock] /\ regs = {} /\ res = {}
Conflict(p, a) == \E r \in res : r[1] = p /\ (a = AnyA \/ r[2] = AnyA \/ r[2] = a)
Id(la, lp, ra, rp) == <<la, lp, ra, rp>>
RegOf(id) == {r \in regs : r[1] = id}

Bind(s, a, p, ok) ==
  /\ sk[s].st = "init"
  /\ ok = ~Conflict(p, a)
  /\ IF ok THEN /\ sk' = [sk EXCEPT ![s] = [st |-> "bound", laddr |-> a, lport |-> p, raddr |-> AnyA, rport |-> 0, held |-> TRUE]]
                /\ res' = res \cup {<<p, a>>} /\ UNCHANGED regs
     ELSE UNCHANGED vars
Listen(s) ==
  /\ sk[s].st = "bound"
  /\ sk' = [sk EXCEPT ![s].st = "listen"]
  /\ regs' = regs \cup {<<Id(sk[s].laddr, sk[s].lport, AnyA, 0), s>>} /\ UNCHANGED res
\* active open: from init (ephemeral port, never reserved) or bound (keeps the port, gives the reservation up)
Connect(s, ra, rp, ok) ==
  /\ sk[s].st \in {"init", "bound"}
  /\ LET lp == IF sk[s].st = "init" THEN Eph(s) ELSE sk[s].lport
         la == IF sk[s].laddr = AnyA THEN Primary ELSE sk[s].laddr
         id == Id(la, lp, ra, rp)
     IN /\ ok = (RegOf(id) = {})
        /\ IF ok THEN /\ sk' = [sk EXCEPT ![s] = [st |-> "conn", laddr |-> la, lport |-> lp, raddr |-> ra, rport |-> rp, held |-> FALSE]]
                      /\ regs' = regs \cup {<<id, s>>}
                      /\ res' = IF sk[s].held THEN res \ {<<sk[s].lport, sk[s].laddr>>} ELSE res
           ELSE UNCHANGED vars
CloseSock(s) ==
  /\ sk[s].st \in {"init", "bound", "listen", "conn"}
  /\ sk' = [sk EXCEPT ![s].st = "closed", ![s].held = FALSE]
  /\ regs' = {r \in regs : r[2] # s}
  /\ res' = IF sk[s].held THEN res \ {<<sk[s].lport, sk[s].laddr>>} ELSE res
\* ---- P-spec
Target(src, sport, dst, dport) ==
  IF dst \notin LAddrs THEN NoSock
  ELSE LET c == {s \in Socks : sk[s].st \in {"listen", "conn"} /\ sk[s].lport = dport}
           exact == {s \in c : sk[s].st = "conn" /\ sk[s].laddr = dst /\ sk[s].raddr = src /\ sk[s].rport = sport}
           spec  == {s \in c : sk[s].st = "listen" /\ sk[s].laddr = dst}
           wild  == {s \in c : sk[s].st = "listen" /\ sk[s].laddr = AnyA}
       IN IF exact # {} THEN CHOOSE s \in exact : TRUE ELSE IF spec # {} THEN CHOOSE s \in spec : TRUE
          ELSE IF wild # {} THEN CHOOSE s \in wild : TRUE ELSE NoSock
\* ---- I-spec: findEndpointLocked
Find(id) == IF RegOf(id) = {} THEN NoSock ELSE (CHOOSE r \in RegOf(id) : TRUE)[2]
Lookup(src, sport, dst, dport) ==
  IF dst \notin LAddrs THEN NoSock
  ELSE LET a == Find(Id(dst, dport, src, sport))
           b == Find(Id(AnyA, dport, src, sport))
           c == Find(Id(dst, dport, AnyA, 0))
           d == Find(Id(AnyA, dport, AnyA, 0))
       IN IF a # NoSock THEN a ELSE IF b # NoSock THEN b ELSE IF c # NoSock THEN c ELSE d
\* an injected segment: kind "syn" (S) or "synack" (SA acknowledging the SYN this stack sent on that 4-tuple, if any)
Inject(kind, src, sport, dst, dport, t) == t = Lookup(src, sport, dst, dport) /\ UNCHANGED vars
AllPorts == Ports \cup {Eph(s) : s \in Socks}
Next == \/ \E s \in Socks, a \in LAddrs \cup {AnyA}, p \in Ports, ok \in BOOLEAN : Bind(s, a, p, ok)
        \/ \E s \in Socks : Listen(s) \/ CloseSock(s)
        \/ \E s \in Socks, ra \in Remotes, rp \in RPorts, ok \in BOOLEAN : Connect(s, ra, rp, ok)
        \/ \E kind \in {"syn", "synack"}, src \in Remotes, sport \in RPorts, dst \in LAddrs \cup {Foreign}, dport \in AllPorts, t \in Socks \cup {NoSock} :
               Inject(kind, src, sport, dst, dport, t)
Spec == Init /\ [][Next]_vars
LookupMatchesTarget == \A src \in Remotes, sport \in RPorts, dst \in LAddrs \cup {Foreign}, dport \in AllPorts :
                          Lookup(src, sport, dst, dport) = Target(src, sport, dst, dport)
OneRegPerId == \A r1, r2 \in regs : r1[1] = r2[1] => r1 = r2
\* reservations are exclusive, and a socket that holds one is bound or listening
ResExclusive == \A r1, r2 \in res : (r1 # r2 /\ r1[1] = r2[1]) => (r1[2] # AnyA /\ r2[2] # AnyA)
====
