---- MODULE DemuxNic ----
(* C09 closed model, interface dimension ("over several ... interfaces").
   Two interfaces, each owning one address (strong host: a packet is processed
   only if its destination is assigned to the interface it arrived on, or that
   interface is promiscuous).  A socket may be bound to an interface (Bind with
   a NIC id, or Connect with a NIC id): it then matches only packets that
   arrived on that interface.
   I-spec: one registration table per interface plus the stack-wide table 0
   (NIC.DeliverTransportPacket: the interface's table first, then the
   stack-wide one, each with the four-step lookup of findEndpointLocked), the
   port reservations (which ignore interfaces) and the route table (default
   routes leave through interface 1 only, as in the harness host).
   P-spec: Target = the most specific live socket among those whose interface
   binding admits the arrival interface.
   TLC checks Lookup = Target for every reachable population, arrival
   interface and 4-tuple; the graph is replayed on the real stack (two NICs). *)
EXTENDS Integers, Sequences, FiniteSets, TLC
CONSTANTS Socks, Ports, Remotes, RPorts, Foreign
VARIABLES sk, regs, res, prom
vars == <<sk, regs, res, prom>>
AnyA == ""
NoSock == -1
Nics == {1, 2}
A(n) == IF n = 1 THEN "10.0.0.1" ELSE "10.0.1.1"
LAddrs == {A(n) : n \in Nics}
Eph(s) == 100 + s
InitSock == [st |-> "init", laddr |-> AnyA, lport |-> 0, raddr |-> AnyA, rport |-> 0, resaddr |-> AnyA, bnic |-> 0, rnic |-> 0]
Init == sk = [s \in Socks |-> InitSock] /\ regs = {} /\ res = {} /\ prom = {}

Conflict(p, a) == \E r \in res : r[1] = p /\ (a = AnyA \/ r[2] = AnyA \/ r[2] = a)
Id(la, lp, ra, rp) == <<la, lp, ra, rp>>
RegOf(tab, id) == {r \in regs : r[1] = tab /\ r[2] = id}

\* CheckLocalAddress: the wildcard always; a specific address must be assigned to the named interface (to any, when none is named)
ValidLocal(n, a) == a = AnyA \/ (n = 0 /\ a \in LAddrs) \/ (n # 0 /\ a = A(n))
BindUdp(s, a, p, n, ok) ==
  /\ sk[s].st = "init"
  /\ ok = (ValidLocal(n, a) /\ ~Conflict(p, a) /\ RegOf(n, Id(a, p, AnyA, 0)) = {})
  /\ IF ok THEN /\ sk' = [sk EXCEPT ![s] = [st |-> "bound", laddr |-> a, lport |-> p, raddr |-> AnyA, rport |-> 0, resaddr |-> a, bnic |-> n, rnic |-> n]]
                /\ regs' = regs \cup {<<n, Id(a, p, AnyA, 0), s>>}
                /\ res' = res \cup {<<p, a>>}
                /\ UNCHANGED prom
     ELSE UNCHANGED vars
\* Connect(remote, NIC n): the interface of an earlier Bind wins (a different one is an error); a route exists only through
\* interface 1, from the wildcard or from interface 1's address
ConnectUdp(s, ra, rp, n, ok) ==
  /\ sk[s].st \in {"init", "bound"}
  /\ LET en == IF sk[s].bnic # 0 THEN sk[s].bnic ELSE n
         lp == IF sk[s].st = "init" THEN Eph(s) ELSE sk[s].lport
         la == A(1)
         id == Id(la, lp, ra, rp)
         legal == (sk[s].bnic = 0 \/ n = 0 \/ n = sk[s].bnic) /\ en \in {0, 1} /\ sk[s].laddr \in {AnyA, A(1)}
     IN /\ ok = (legal /\ RegOf(en, id) = {})
        /\ IF ok THEN /\ sk' = [sk EXCEPT ![s] = [st |-> "conn", laddr |-> la, lport |-> lp, raddr |-> ra, rport |-> rp,
                                                  resaddr |-> IF sk[s].st = "init" THEN la ELSE sk[s].resaddr,
                                                  bnic |-> sk[s].bnic, rnic |-> en]]
                      /\ regs' = {r \in regs : r[3] # s} \cup {<<en, id, s>>}
                      /\ res' = IF sk[s].st = "init" THEN res \cup {<<lp, la>>} ELSE res
                      /\ UNCHANGED prom
           ELSE UNCHANGED vars
CloseSock(s) ==
  /\ sk[s].st \in {"init", "bound", "conn"}
  /\ sk' = [sk EXCEPT ![s].st = "closed"]
  /\ regs' = {r \in regs : r[3] # s}
  /\ res' = res \ {<<sk[s].lport, sk[s].resaddr>>}
  /\ UNCHANGED prom
Promisc(n, on) == /\ prom' = (IF on THEN prom \cup {n} ELSE prom \ {n}) /\ prom' # prom /\ UNCHANGED <<sk, regs, res>>

\* ---- P-spec
Live(s) == sk[s].st \in {"bound", "conn"}
Accepts(n, dst) == dst = A(n) \/ n \in prom
Target(n, src, sport, dst, dport) ==
  IF ~Accepts(n, dst) THEN NoSock
  ELSE LET c == {s \in Socks : Live(s) /\ sk[s].lport = dport /\ sk[s].rnic \in {0, n}}
           exact == {s \in c : sk[s].st = "conn" /\ sk[s].laddr = dst /\ sk[s].raddr = src /\ sk[s].rport = sport}
           spec  == {s \in c : sk[s].st = "bound" /\ sk[s].laddr = dst}
           wild  == {s \in c : sk[s].st = "bound" /\ sk[s].laddr = AnyA}
       IN IF exact # {} THEN CHOOSE s \in exact : TRUE ELSE IF spec # {} THEN CHOOSE s \in spec : TRUE
          ELSE IF wild # {} THEN CHOOSE s \in wild : TRUE ELSE NoSock
\* ---- I-spec: the interface's table, then the stack-wide one
Find(tab, id) == IF RegOf(tab, id) = {} THEN NoSock ELSE (CHOOSE r \in RegOf(tab, id) : TRUE)[3]
Lookup4(tab, src, sport, dst, dport) ==
  LET a == Find(tab, Id(dst, dport, src, sport))
      b == Find(tab, Id(AnyA, dport, src, sport))
      c == Find(tab, Id(dst, dport, AnyA, 0))
      d == Find(tab, Id(AnyA, dport, AnyA, 0))
  IN IF a # NoSock THEN a ELSE IF b # NoSock THEN b ELSE IF c # NoSock THEN c ELSE d
Lookup(n, src, sport, dst, dport) ==
  IF ~Accepts(n, dst) THEN NoSock
  ELSE LET x == Lookup4(n, src, sport, dst, dport) IN IF x # NoSock THEN x ELSE Lookup4(0, src, sport, dst, dport)
Inject(n, src, sport, dst, dport, t) == t = Lookup(n, src, sport, dst, dport) /\ UNCHANGED vars

AllPorts == Ports \cup {Eph(s) : s \in Socks}
Next == \/ \E s \in Socks, a \in LAddrs \cup {AnyA}, p \in Ports, n \in Nics \cup {0}, ok \in BOOLEAN : BindUdp(s, a, p, n, ok)
        \/ \E s \in Socks, ra \in Remotes, rp \in RPorts, n \in {0, 1}, ok \in BOOLEAN : ConnectUdp(s, ra, rp, n, ok)
        \/ \E s \in Socks : CloseSock(s)
        \/ \E n \in Nics, on \in BOOLEAN : Promisc(n, on)
        \/ \E n \in Nics, src \in Remotes, sport \in RPorts, dst \in LAddrs \cup {Foreign}, dport \in AllPorts, t \in Socks \cup {NoSock} :
               Inject(n, src, sport, dst, dport, t)
Spec == Init /\ [][Next]_vars
LookupMatchesTarget == \A n \in Nics, src \in Remotes, sport \in RPorts, dst \in LAddrs \cup {Foreign}, dport \in AllPorts :
                          Lookup(n, src, sport, dst, dport) = Target(n, src, sport, dst, dport)
OneRegPerId == \A r1, r2 \in regs : (r1[1] = r2[1] /\ r1[2] = r2[2]) => r1 = r2
\* "the single socket": never two equally specific live sockets for one arrival
UniqueTarget == \A n \in Nics, src \in Remotes, sport \in RPorts, dst \in LAddrs, dport \in AllPorts :
   LET c == {s \in Socks : Live(s) /\ sk[s].lport = dport /\ sk[s].rnic \in {0, n}} IN
     /\ Cardinality({s \in c : sk[s].st = "conn" /\ sk[s].laddr = dst /\ sk[s].raddr = src /\ sk[s].rport = sport}) <= 1
     /\ Cardinality({s \in c : sk[s].st = "bound" /\ sk[s].laddr = dst}) <= 1
     /\ Cardinality({s \in c : sk[s].st = "bound" /\ sk[s].laddr = AnyA}) <= 1
\* an interface-bound socket never receives what arrived on another interface (stated separately: the point of this model)
NicBoundOnlyOwnNic == \A n \in Nics, src \in Remotes, sport \in RPorts, dst \in LAddrs \cup {Foreign}, dport \in AllPorts :
   LET t == Lookup(n, src, sport, dst, dport) IN t # NoSock => sk[t].rnic \in {0, n}
====
