---- MODULE TraceUdpLin ----
(* Linearizability of concurrent deliveries and reads on ONE UDP socket against
   the sequential P-spec of C11 (queue of whole datagrams: FIFO, at most once,
   whole-or-nothing admission; an arrival at an empty queue is admitted).
   Events: reset | call(g, op = inject(id, n, sport, sum) | read) | ret(g, [ok, n, sport, sum | err]) | other(empty).
   Lin(g) is the internal linearization step TLC places between call and ret. *)
EXTENDS TraceIO, FiniteSets
VARIABLES q, pend
tvars == <<l, q, pend>>
G == 0..19
None == [op |-> "none"]
TInit == l = 1 /\ q = <<>> /\ pend = [g \in G |-> None] /\ HWInit
Reset == IsEvent("reset") /\ (\A g \in G : pend[g] = None) /\ q' = <<>> /\ UNCHANGED pend
D(e) == [n |-> e.n, sport |-> e.sport, sum |-> e.sum]
Call == /\ IsEvent("call") /\ pend[Ev.g] = None
        /\ pend' = [pend EXCEPT ![Ev.g] = IF Ev.op = "inject" THEN [op |-> "inject", d |-> D(Ev), done |-> FALSE]
                                          ELSE [op |-> "read", done |-> FALSE, res |-> [ok |-> FALSE]]]
        /\ UNCHANGED q
\* the ret event of g that follows (peek: prunes the search)
NextRet(g) == LET idx == CHOOSE i \in l..NT : Trace[i].ev = "ret" /\ Trace[i].g = g /\ \A j \in l..(i - 1) : ~(Trace[j].ev = "ret" /\ Trace[j].g = g) IN Trace[idx]
HasRet(g) == \E i \in l..NT : Trace[i].ev = "ret" /\ Trace[i].g = g
Lin(g) == /\ pend[g] # None /\ ~pend[g].done /\ HasRet(g)
          /\ IF pend[g].op = "inject"
             THEN /\ \/ q' = Append(q, pend[g].d)                  \* admitted whole
                     \/ (q # <<>> /\ q' = q)                       \* or dropped whole (only under pressure: never at an empty queue)
                  /\ pend' = [pend EXCEPT ![g].done = TRUE]
             ELSE LET r == NextRet(g) IN
                  /\ IF r.ok THEN q # <<>> /\ Head(q) = D(r) /\ q' = Tail(q)      \* FIFO, whole, true sender port
                     ELSE q = <<>> /\ q' = q                                       \* would-block only when nothing is queued
                  /\ pend' = [pend EXCEPT ![g].done = TRUE]
          /\ UNCHANGED l
Ret == /\ IsEvent("ret") /\ pend[Ev.g] # None /\ pend[Ev.g].done
       /\ pend' = [pend EXCEPT ![Ev.g] = None] /\ UNCHANGED q
Other == IsEvent("other") /\ Ev.empty /\ UNCHANGED <<q, pend>>     \* C09: the socket on the other port got nothing
TNext == Reset \/ Call \/ Ret \/ Other \/ \E g \in G : Lin(g)
TSpec == TInit /\ [][TNext]_tvars
====
