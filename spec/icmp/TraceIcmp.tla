---- MODULE TraceIcmp ----
(* P-spec of C13 as trace validator over wire observations.
   req   : id, v (4|6), src, dst, own (dst is an address assigned to the stack), ident, seq, pay
   reply : v, src, dst, ident, seq, pay, sumok, iphdrok
   quiesce : the harness waited for the replies it is owed (or gave up after a long time)
   pay = [n |-> length, h |-> first bytes, t |-> last bytes, s |-> RFC 1071 sum]  *)
EXTENDS TraceIO, FiniteSets
VARIABLES pending, must
tvars == <<l, pending, must>>
Cap == 10
TInit == l = 1 /\ pending = {} /\ must = {} /\ HWInit
Reset == IsEvent("reset") /\ pending' = {} /\ must' = {}
Key(e) == [v |-> e.v, a |-> e.src, b |-> e.dst, ident |-> e.ident, seq |-> e.seq, pay |-> e.pay]
Req == /\ IsEvent("req")
       /\ IF Ev.own
          THEN /\ pending' = pending \cup {[id |-> Ev.id, k |-> Key(Ev)]}
               /\ must' = IF Cardinality(pending) < Cap \/ Ev.v = 6 THEN must \cup {Ev.id} ELSE must
          ELSE UNCHANGED <<pending, must>>
\* a reply must mirror exactly one pending request: from the pinged address to the requester
Reply == /\ IsEvent("reply")
         /\ Ev.sumok /\ Ev.iphdrok
         /\ \E p \in pending :
              /\ p.k = [v |-> Ev.v, a |-> Ev.dst, b |-> Ev.src, ident |-> Ev.ident, seq |-> Ev.seq, pay |-> Ev.pay]
              /\ pending' = pending \ {p} /\ must' = must \ {p.id}
Quiesce == IsEvent("quiesce") /\ must = {} /\ UNCHANGED <<pending, must>>
Skip == (IsEvent("other") \/ IsEvent("note")) /\ UNCHANGED <<pending, must>>
TNext == Reset \/ Req \/ Reply \/ Quiesce \/ Skip
TSpec == TInit /\ [][TNext]_tvars
====
