---- MODULE Icmp ----
(* C13.  P-spec of echo handling: `pending` = requests the stack is obliged to
   answer or may still answer (a bag as a set of request ids), `must` = those
   accepted while fewer than Cap were pending.  I-spec of the IPv4 path: a
   bounded channel of capacity Cap drained by one replier goroutine (IPv6
   answers synchronously: Cap irrelevant).  A request record is
   [id, own, key] where key abstracts (ident, seq, payload, src, dst). *)
EXTENDS Integers, Sequences, FiniteSets, TLC
CONSTANTS Cap, NReq
VARIABLES chan, busy, arrived, pending, must, replied, bad
vars == <<chan, busy, arrived, pending, must, replied, bad>>
Ids == 1..NReq
Init == chan = <<>> /\ busy = 0 /\ arrived = 0 /\ pending = {} /\ must = {} /\ replied = {} /\ bad = FALSE

\* a request arrives: own = addressed to one of the stack's addresses
Request(own) ==
  /\ arrived < NReq /\ arrived' = arrived + 1
  /\ LET r == arrived + 1 IN
     IF own
     THEN /\ pending' = pending \cup {r}
          /\ must' = IF Cardinality(pending) < Cap THEN must \cup {r} ELSE must
          /\ chan' = IF Len(chan) < Cap THEN Append(chan, r) ELSE chan      \* select/default: drop when full
     ELSE UNCHANGED <<pending, must, chan>>
  /\ UNCHANGED <<busy, replied, bad>>
\* replier goroutine takes the next request
Take == busy = 0 /\ chan # <<>> /\ busy' = Head(chan) /\ chan' = Tail(chan) /\ UNCHANGED <<arrived, pending, must, replied, bad>>
\* and emits the mirrored reply
Reply == /\ busy # 0
         /\ bad' = (bad \/ busy \notin pending)             \* NoUnsolicited / at most one reply
         /\ pending' = pending \ {busy} /\ must' = must \ {busy} /\ replied' = replied \cup {busy}
         /\ busy' = 0 /\ UNCHANGED <<chan, arrived>>
Next == (\E o \in BOOLEAN : Request(o)) \/ Take \/ Reply
Spec == Init /\ [][Next]_vars /\ WF_vars(Take) /\ WF_vars(Reply)
NoUnsolicited == ~bad
\* the I-spec keeps every must-answer request queued or in service: none is lost
MustQueued == \A r \in must : busy = r \/ \E i \in 1..Len(chan) : chan[i] = r
AllAnswered == <>[](must = {})
====
