---- MODULE TcpHs ----
(* C03 closed model: ONE endpoint of the stack in the handshake phase against
   an arbitrary scripted peer (I-spec: a transcription of connect.go
   synSentState / synRcvdState / checkAck and accept.go handleListenSegment /
   createCookie / isCookieValid at handler granularity), with the P-level
   monitors of the property:
     AcceptOK            a connection reaches the accept queue only after a SYN
                         and then a non-RST segment with ACK = iss+1 (iss: what
                         the stack chose in the SYN-ACK answering that SYN)
     ConnectOK           an active open completes only after a SYN and an ACK of
                         exactly iss+1 were delivered (SYN-ACK, or SYN then ACK)
     BadAck              a non-RST segment acknowledging anything else, delivered
                         to a connection in SYN-SENT / SYN-RCVD, is answered by
                         exactly one RST whose sequence number is that ack number
                         and creates no connection (cookie mode has no such
                         connection: it may drop silently)
     ResetNeverAnswered  nothing is emitted in response to a RST
   Sequence arithmetic is modulo M (wrap explored: ISS placements 0, 1, H-1, H,
   M-1).  Code variant CookieExact (FALSE = the tree as found: the MSS index and
   the peer's sequence number are ADDED into the cookie and validation uses the
   sequence number of the ACK itself, so ack numbers iss+1-(ND-1) .. iss+1+(ND-1)
   (finding F21) and any pair (seq+k, ack+k) (finding F22) are accepted).  Observation
   outside the statement: synRcvdState completes on ANY sequence number of the
   final ACK (no RFC 793 acceptability test); the property does not speak about
   that number, so AcceptOK does not either. *)
EXTENDS Integers, Sequences, FiniteSets, TLC
CONSTANTS M, W, MaxSeg, Roles, CookieExact, ND, PeerISSs, OwnISSs
H == M \div 2
SeqOff == {0, 1, 2, H}
AckOff == {-1, 0, 1, 2, H}
FlagSets == {"S", "SA", "A", "R", "RA", "FA", "N"}
HasS(f) == f \in {"S", "SA"}
HasA(f) == f \in {"SA", "A", "RA", "FA"}
HasR(f) == f \in {"R", "RA"}
SegLen(f) == IF f \in {"S", "SA", "FA"} THEN 1 ELSE 0
Md(x) == x % M
Acceptable(seq, nxt) == Md(seq - nxt) < W

VARIABLES role, st, iss, irs, active, known, piss, K, nseg, out, acceptq, connup,
          synSeen, issued, sent, qual, qual21, cqual, okBadAck, okRst
vars == <<role, st, iss, irs, active, known, piss, K, nseg, out, acceptq, connup,
          synSeen, issued, sent, qual, qual21, cqual, okBadAck, okRst>>

Rst(sq, s, f)  == [f |-> "RA", seq |-> sq, ack |-> Md(s + SegLen(f))]
SynAck(i, r)   == [f |-> "SA", seq |-> i, ack |-> Md(r + 1)]
Syn(i)         == [f |-> "S", seq |-> i, ack |-> 0]
AckSeg(i, r)   == [f |-> "A", seq |-> Md(i + 1), ack |-> Md(r + 1)]

Cookie(seq, d) == Md(K + seq + d)
\* The hash is treated as unforgeable (the 2^-22 guessing probability is not explored): a cookie validates only if it
\* derives from a SYN-ACK actually issued to that peer.  As found, createCookie ADDS the peer's sequence number and the
\* MSS index into the cookie and isCookieValid subtracts the sequence number of the ACK itself, so all that is checked
\* is that (ack - seq) differs from (r.iss - r.irs) by a legal index shift: F21 (index tolerance), F22 (common shift)
Shift(ack, seq, r) == Md(ack - seq - r.iss + r.irs + ND) - ND
CookieValid(ack, seq) ==
  \E r \in issued : IF CookieExact THEN r.irs = Md(seq - 1) /\ r.iss = Md(ack - 1)
                                   ELSE (r.d + Shift(ack, seq, r)) \in 0..(ND - 1)

Init == /\ role \in Roles
        /\ piss \in PeerISSs /\ K \in OwnISSs
        /\ active = (role = "active")
        /\ st = IF role = "active" THEN "synsent" ELSE "listen"
        /\ iss = IF role = "active" THEN K ELSE 0
        /\ known = (role = "active")
        /\ irs = 0 /\ nseg = 0
        /\ out = IF role = "active" THEN <<Syn(K)>> ELSE <<>>
        /\ acceptq = 0 /\ connup = FALSE
        /\ synSeen = FALSE /\ issued = {} /\ sent = IF role = "active" THEN {K} ELSE {}
        /\ qual = FALSE /\ qual21 = FALSE /\ cqual = FALSE
        /\ okBadAck = TRUE /\ okRst = TRUE

\* the peer's segment: flags f, sequence number piss+so, ack number (stack ISS if known, else 0)+ao, MSS index d
SeqOf(so) == Md(piss + so)
AckOf(f, ao) == IF HasA(f) THEN Md((IF known THEN iss ELSE 0) + ao) ELSE 0
DSet == {0, ND - 1}          \* MSS index of a SYN: lowest / highest table entry
Shape(f, so, ao, d) == /\ f \in FlagSets /\ so \in SeqOff /\ ao \in AckOff /\ d \in DSet
                       /\ (~HasA(f) => ao = 0) /\ (f # "S" => d = 0)
                       /\ nseg < MaxSeg

\* ---- P-level monitors (history folded into a few booleans/sets)
QualNow(f, seq, ack, tol) ==
  /\ HasA(f) /\ ~HasR(f)
  /\ \E r \in issued : /\ synSeen                  \* r answers a delivered SYN (the model emits SYN-ACKs for nothing else)
                       /\ IF tol THEN Shift(ack, seq, r) \in (1 - ND)..(ND - 1)       \* shape of F21 / F22
                                 ELSE ack = Md(r.iss + 1)
Monitors(f, seq, ack, o, st2, dd) ==
  /\ synSeen' = (synSeen \/ (HasS(f) /\ ~HasR(f)))
  /\ issued' = issued \cup {[iss |-> o[i].seq, irs |-> Md(o[i].ack - 1), d |-> dd] : i \in {j \in 1..Len(o) : o[j].f = "SA"}}
  /\ sent' = sent \cup {o[i].seq : i \in {j \in 1..Len(o) : HasS(o[j].f)}}
  /\ qual' = (qual \/ QualNow(f, seq, ack, FALSE))
  /\ qual21' = (qual21 \/ QualNow(f, seq, ack, TRUE))
  /\ cqual' = (cqual \/ (HasA(f) /\ ~HasR(f) /\ (\E x \in sent : ack = Md(x + 1)) /\ (HasS(f) \/ synSeen)))
  /\ okBadAck' = (okBadAck /\ ((st \in {"synsent", "synrcvd"} /\ HasA(f) /\ ~HasR(f) /\ ack # Md(iss + 1))
                               => (Len(o) = 1 /\ HasR(o[1].f) /\ o[1].seq = ack /\ st2 = st)))
  /\ okRst' = (okRst /\ (HasR(f) => o = <<>>))
  /\ nseg' = nseg + 1 /\ out' = o
  /\ UNCHANGED <<role, piss, K, active>>

Same(f, seq, ack, o) == /\ Monitors(f, seq, ack, o, st, 0) /\ UNCHANGED <<st, iss, irs, known, acceptq, connup>>

\* ---- listener (accept.go handleListenSegment): exact flag patterns only
ListenSyn(f, so, ao, d) ==
  /\ Shape(f, so, ao, d) /\ st = "listen" /\ f = "S"
  /\ LET seq == SeqOf(so) c == Cookie(SeqOf(so), d) IN
     /\ iss' = c /\ irs' = seq /\ known' = TRUE
     /\ st' = IF role = "cookie" THEN "listen" ELSE "synrcvd"
     /\ Monitors(f, seq, 0, <<SynAck(c, seq)>>, st', d)
     /\ UNCHANGED <<acceptq, connup>>
ListenAckValid(f, so, ao, d) ==
  /\ Shape(f, so, ao, d) /\ st = "listen" /\ f = "A" /\ CookieValid(AckOf(f, ao), SeqOf(so))
  /\ st' = "est" /\ acceptq' = acceptq + 1
  /\ iss' = Md(AckOf(f, ao) - 1) /\ irs' = Md(SeqOf(so) - 1) /\ known' = TRUE
  /\ Monitors(f, SeqOf(so), AckOf(f, ao), <<>>, st', 0)
  /\ UNCHANGED connup
ListenDrop(f, so, ao, d) ==
  /\ Shape(f, so, ao, d) /\ st = "listen" /\ f # "S" /\ ~(f = "A" /\ CookieValid(AckOf(f, ao), SeqOf(so)))
  /\ Same(f, SeqOf(so), AckOf(f, ao), <<>>)

\* ---- handshake (connect.go)
InHs == st \in {"synsent", "synrcvd"}
Gone == IF active THEN "dead" ELSE "listen"          \* a failed active open stays registered in the error state; a failed passive one is closed
HsRst(f, so, ao, d) ==
  /\ Shape(f, so, ao, d) /\ InHs /\ HasR(f)
  /\ LET seq == SeqOf(so) ack == AckOf(f, ao)
         kill == IF st = "synsent" THEN HasA(f) /\ ack = Md(iss + 1) ELSE Acceptable(seq, Md(irs + 1)) IN
     /\ st' = IF kill THEN Gone ELSE st
     /\ Monitors(f, seq, ack, <<>>, st', 0)
     /\ UNCHANGED <<iss, irs, known, acceptq, connup>>
HsBadAck(f, so, ao, d) ==
  /\ Shape(f, so, ao, d) /\ InHs /\ ~HasR(f) /\ HasA(f) /\ AckOf(f, ao) # Md(iss + 1)
  /\ Same(f, SeqOf(so), AckOf(f, ao), <<Rst(AckOf(f, ao), SeqOf(so), f)>>)
Good(f, ao) == ~HasR(f) /\ (HasA(f) => AckOf(f, ao) = Md(iss + 1))
SentNoSyn(f, so, ao, d) ==
  /\ Shape(f, so, ao, d) /\ st = "synsent" /\ Good(f, ao) /\ ~HasS(f)
  /\ Same(f, SeqOf(so), AckOf(f, ao), <<>>)
SentSynAck(f, so, ao, d) ==
  /\ Shape(f, so, ao, d) /\ st = "synsent" /\ Good(f, ao) /\ f = "SA"
  /\ st' = "est" /\ connup' = TRUE /\ irs' = SeqOf(so)
  /\ Monitors(f, SeqOf(so), AckOf(f, ao), <<AckSeg(iss, SeqOf(so))>>, st', 0)
  /\ UNCHANGED <<iss, known, acceptq>>
SentSyn(f, so, ao, d) ==
  /\ Shape(f, so, ao, d) /\ st = "synsent" /\ f = "S"
  /\ st' = "synrcvd" /\ irs' = SeqOf(so)
  /\ Monitors(f, SeqOf(so), 0, <<SynAck(iss, SeqOf(so))>>, st', 0)
  /\ UNCHANGED <<iss, known, acceptq, connup>>
RcvdOtherSyn(f, so, ao, d) ==                         \* a second SYN with another sequence number
  /\ Shape(f, so, ao, d) /\ st = "synrcvd" /\ Good(f, ao) /\ HasS(f) /\ SeqOf(so) # irs
  /\ LET seq == SeqOf(so) ack == AckOf(f, ao) r == Rst(IF HasA(f) THEN AckOf(f, ao) ELSE 0, SeqOf(so), f) IN
     IF active
     THEN \E ni \in OwnISSs :                          \* resetState draws a fresh ISS and the SYN is sent again
            /\ st' = "synsent" /\ iss' = ni
            /\ Monitors(f, seq, ack, <<r, Syn(ni)>>, st', 0)
            /\ UNCHANGED <<irs, known, acceptq, connup>>
     ELSE /\ st' = "listen" /\ Monitors(f, seq, ack, <<r>>, st', 0)
          /\ UNCHANGED <<iss, irs, known, acceptq, connup>>
RcvdAck(f, so, ao, d) ==                              \* ack = iss+1: the handshake completes (whatever the sequence number)
  /\ Shape(f, so, ao, d) /\ st = "synrcvd" /\ Good(f, ao) /\ HasA(f) /\ (HasS(f) => SeqOf(so) = irs)
  /\ st' = "est"
  /\ IF active THEN connup' = TRUE /\ UNCHANGED acceptq ELSE acceptq' = acceptq + 1 /\ UNCHANGED connup
  /\ Monitors(f, SeqOf(so), AckOf(f, ao), <<>>, st', 0)
  /\ UNCHANGED <<iss, irs, known>>
RcvdIgnore(f, so, ao, d) ==
  /\ Shape(f, so, ao, d) /\ st = "synrcvd" /\ ~HasR(f) /\ ~HasA(f) /\ (HasS(f) => SeqOf(so) = irs)
  /\ Same(f, SeqOf(so), 0, <<>>)
DeadSeg(f, so, ao, d) ==                              \* failed active open: the endpoint stays registered, nobody reads its queue
  /\ Shape(f, so, ao, d) /\ st = "dead"
  /\ Same(f, SeqOf(so), AckOf(f, ao), <<>>)

Next == \E f \in FlagSets, so \in SeqOff, ao \in AckOff, d \in DSet :
          \/ ListenSyn(f, so, ao, d) \/ ListenAckValid(f, so, ao, d) \/ ListenDrop(f, so, ao, d)
          \/ HsRst(f, so, ao, d) \/ HsBadAck(f, so, ao, d)
          \/ SentNoSyn(f, so, ao, d) \/ SentSynAck(f, so, ao, d) \/ SentSyn(f, so, ao, d)
          \/ RcvdOtherSyn(f, so, ao, d) \/ RcvdAck(f, so, ao, d) \/ RcvdIgnore(f, so, ao, d)
          \/ DeadSeg(f, so, ao, d)
Spec == Init /\ [][Next]_vars
\* the last response is determined by the step; hiding it merges states that differ only in it (invariants speak about monitors)
ViewNoOut == <<role, st, iss, irs, active, known, piss, K, nseg, acceptq, connup, synSeen, issued, sent, qual, qual21, cqual, okBadAck, okRst>>

\* quotient used only to DUMP a replay graph (not for the exhaustive run): everything the next steps depend on, placement-free
ViewReplay == <<role, st, active, known, nseg, acceptq, connup, out, Md(irs - piss), Md(iss - K - irs),
                {<<Md(r.irs - piss), Md(r.iss - K - r.irs), r.d>> : r \in issued}>>

\* ---- the property
AcceptOK  == acceptq > 0 => (qual \/ (~CookieExact /\ qual21))   \* second disjunct: known findings F21 / F22
AcceptStrict == acceptq > 0 => qual                  \* fails on the tree as found (F21, F22): shows that the monitors bite
ConnectOK == connup => cqual
BadAck    == okBadAck
ResetNeverAnswered == okRst
TypeOK == /\ st \in {"listen", "synsent", "synrcvd", "est", "dead"} /\ iss \in 0..(M - 1) /\ irs \in 0..(M - 1)
          /\ acceptq \in 0..MaxSeg /\ nseg \in 0..MaxSeg /\ Len(out) <= 2
          /\ (connup => role = "active") /\ (acceptq > 0 => role # "active")
\* every peer segment is handled by exactly one case (the case split is total and disjoint)
====
