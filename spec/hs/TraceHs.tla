---- MODULE TraceHs ----
(* C03 P-spec as a trace validator over wire + API observations of the REAL
   stack driven by harness/hsd (one stack, scripted raw peer).  Events:
     reset    scenario header: role ("passive"/"active"), cookie (0 normal, 1 every
              SYN gets a cookie, 2 backlog pressure), kf21 (known finding F21 accepted)
     inj      a peer segment handed to the stack: pp (peer index = 4-tuple), flags,
              (seqhi,seqlo), (ackhi,acklo), rseq / rack (relative forms), n, win,
              omss / ows (what a SYN's option list offers: MSS or 536, window scale or -1;
              omss = -1: malformed list, no claim)
     emit     a frame of the stack decoded by the harness's own decoder
     settle   the stack is quiescent (every goroutine parked)
     accept   result of Accept(): ok + peer index, or would-block
     up       state of the active open: connected / connecting / error
     closel   the listener was closed (afterwards a 4-tuple with nothing left on it has no socket: every segment gets the reset)
     listen connect connret retarget state probecall probe end   bookkeeping
   32-bit sequence numbers are (hi, lo) pairs of 16-bit halves.
   Per 4-tuple the spec keeps what was DELIVERED (SYNs, qualifying ACKs), what the
   stack CHOSE (ISS of every SYN / SYN-ACK it emitted) and a three-valued view of
   the handshake connection ("def": one certainly exists in SYN-SENT/SYN-RCVD,
   "maybe", "no") - the BadAck obligation is only imposed in "def".  *)
EXTENDS TraceIO, FiniteSets
VARIABLES cfg, syn, issued, own, cur, qual, qual21, qual22, cqual, expect, probing, pmss, pws, sws, edge, gone
tvars == <<l, cfg, syn, issued, own, cur, qual, qual21, qual22, cqual, expect, probing, pmss, pws, sws, edge, gone>>

PP == 0..7
None32 == <<-1, -1>>
NoCur == [st |-> "no", iss |-> None32, irs1 |-> None32]
NoExp == [kind |-> "none", pp |-> -1, seq |-> None32, ack |-> None32]
Free(p) == [kind |-> "free", pp |-> p, seq |-> None32, ack |-> None32]
Fld(r, f, d) == IF f \in DOMAIN r THEN r[f] ELSE d
Add32(p, n) == LET s == p[2] + n IN <<(p[1] + (s \div 65536)) % 65536, s % 65536>>
HasFlag(e, c) == \E i \in 1..Len(e.flags) : SubSeq(e.flags, i, i) = c
Seq32(e) == <<e.seqhi, e.seqlo>>
Ack32(e) == <<e.ackhi, e.acklo>>

Blank == /\ syn = [p \in PP |-> {}] /\ issued = [p \in PP |-> {}] /\ own = [p \in PP |-> {}]
         /\ cur = [p \in PP |-> NoCur] /\ qual = [p \in PP |-> FALSE] /\ qual21 = [p \in PP |-> FALSE] /\ qual22 = [p \in PP |-> FALSE]
         /\ cqual = FALSE /\ expect = NoExp /\ probing = FALSE /\ gone = FALSE
         /\ pmss = [p \in PP |-> -1] /\ pws = [p \in PP |-> -1] /\ sws = [p \in PP |-> -1] /\ edge = [p \in PP |-> -1]
TInit == l = 1 /\ cfg = [role |-> "none", cookie |-> 0, kf21 |-> FALSE, kf22 |-> FALSE, nosock |-> FALSE] /\ Blank /\ HWInit

Reset == /\ IsEvent("reset") /\ expect.kind \in {"none", "free"}
         /\ cfg' = [role |-> Ev.role, cookie |-> Ev.cookie, kf21 |-> Fld(Ev, "kf21", FALSE), kf22 |-> Fld(Ev, "kf22", FALSE), nosock |-> Fld(Ev, "nosock", FALSE)]
         /\ syn' = [p \in PP |-> {}] /\ issued' = [p \in PP |-> {}] /\ own' = [p \in PP |-> {}]
         /\ cur' = [p \in PP |-> NoCur] /\ qual' = [p \in PP |-> FALSE] /\ qual21' = [p \in PP |-> FALSE] /\ qual22' = [p \in PP |-> FALSE]
         /\ cqual' = FALSE /\ expect' = NoExp /\ probing' = FALSE /\ gone' = FALSE
         /\ pmss' = [p \in PP |-> -1] /\ pws' = [p \in PP |-> -1] /\ sws' = [p \in PP |-> -1] /\ edge' = [p \in PP |-> -1]

Keep == UNCHANGED <<cfg, syn, issued, own, cur, qual, qual21, qual22, cqual, pmss, pws, sws, edge, gone>>
\* API calls after which the stack may emit on its own until the next settle
Book == /\ \/ IsEvent("listen") \/ IsEvent("connret") \/ IsEvent("retarget") \/ IsEvent("state") \/ IsEvent("probe") \/ IsEvent("end")
        /\ expect.kind \in {"none", "free"}
        /\ Keep /\ UNCHANGED <<expect, probing>>
\* the listener is closed: half-open connections may linger (state unknown), queued connections are torn down
CloseListener == /\ IsEvent("closel") /\ expect.kind = "none" /\ cfg.role = "passive"
                 /\ gone' = TRUE /\ expect' = Free(0)
                 /\ cur' = [p \in PP |-> IF cur[p].st = "def" THEN [cur[p] EXCEPT !.st = "maybe"] ELSE cur[p]]
                 /\ UNCHANGED <<cfg, syn, issued, own, qual, qual21, qual22, cqual, probing, pmss, pws, sws, edge>>
ConnectCall == /\ IsEvent("connect") /\ expect.kind = "none" /\ cfg.role = "active"
               /\ expect' = Free(0) /\ Keep /\ UNCHANGED probing
ProbeCall == /\ IsEvent("probecall") /\ expect.kind = "none"
             /\ expect' = Free(Ev.pp) /\ probing' = TRUE /\ Keep

\* ---------------------------------------------------------------- a peer segment is delivered
\* a SYN-ACK r the stack issued answers a SYN that was delivered before
Answers(p, r) == \E s \in syn[p] : Add32(s, 1) = r.irs1
QualNow(p, e) == /\ HasFlag(e, "A") /\ ~HasFlag(e, "R")
                 /\ \E r \in issued[p] : Answers(p, r) /\ Ack32(e) = Add32(r.iss, 1)
\* shape of known finding F21: sequence number right, ack number off by at most 3 (MSS index tolerance of the cookie)
Qual21Now(p, e) == /\ HasFlag(e, "A") /\ ~HasFlag(e, "R")
                   /\ \E r \in issued[p] : /\ Answers(p, r) /\ Seq32(e) = r.irs1
                                           /\ \E k \in -3..3 : Ack32(e) = Add32(r.iss, 1 + k)
\* shape of known finding F22: sequence and ack number shifted by the same amount (only their difference is validated)
Sub32(a, b) == LET lo == a[2] - b[2] IN <<(a[1] - b[1] + (lo \div 65536)) % 65536, lo % 65536>>
Qual22Now(p, e) == /\ HasFlag(e, "A") /\ ~HasFlag(e, "R")
                   /\ \E r \in issued[p] : /\ Answers(p, r) /\ Seq32(e) # r.irs1
                                           /\ \E k \in -3..3 : Sub32(Ack32(e), Seq32(e)) = Add32(Sub32(Add32(r.iss, 1), r.irs1), k)
CurAfter(p, e) ==
  LET c == cur[p] S == HasFlag(e, "S") A == HasFlag(e, "A") R == HasFlag(e, "R") IN
  IF c.st # "def" THEN c
  ELSE IF R THEN (IF cfg.role = "passive" /\ Seq32(e) = c.irs1 THEN NoCur        \* reset exactly at RCV.NXT: the half-open connection is gone,
                  ELSE [c EXCEPT !.st = "maybe"])                                \* the 4-tuple is fresh again
  ELSE IF A /\ Ack32(e) # Add32(c.iss, 1) THEN (IF S THEN [c EXCEPT !.st = "maybe"] ELSE c)
  ELSE IF A THEN [c EXCEPT !.st = "maybe"]                              \* acknowledges iss+1: may complete
  ELSE IF S THEN (IF c.irs1 = None32 /\ cfg.role = "active" THEN [c EXCEPT !.irs1 = Add32(Seq32(e), 1)]   \* simultaneous open
                  ELSE IF c.irs1 = Add32(Seq32(e), 1) THEN c           \* duplicate SYN
                  ELSE [c EXCEPT !.st = "maybe"])
  ELSE c
\* the listener was closed and nothing can be left on this 4-tuple: no half-open connection (cur "no": never begun, or
\* reset at RCV.NXT) and no handshake that may have put a connection into the accept queue
NoSocketLeft(p) == gone /\ cfg.role = "passive" /\ cur[p].st = "no" /\ ~qual[p] /\ ~qual21[p] /\ ~qual22[p]
EffWs(p) == IF pws[p] >= 0 /\ sws[p] >= 0 THEN pws[p] ELSE 0
Inj == /\ IsEvent("inj") /\ expect.kind = "none" /\ Ev.pp \in PP
       /\ LET p == Ev.pp c == cur[p] S == HasFlag(Ev, "S") A == HasFlag(Ev, "A") R == HasFlag(Ev, "R")
              synopt == S /\ ~R /\ "omss" \in DOMAIN Ev
              mss2 == IF synopt THEN Ev.omss ELSE pmss[p]
              ws2 == IF synopt THEN Ev.ows ELSE pws[p]
              eff == IF ws2 >= 0 /\ sws[p] >= 0 THEN ws2 ELSE 0
              w == IF S THEN Ev.win ELSE Ev.win * (2 ^ eff)
              cand == IF R \/ ws2 = -2 THEN -1
                      ELSE IF A /\ Ev.rack > -100000 /\ Ev.rack < 100000 THEN Ev.rack + w
                      ELSE IF S /\ ~A THEN 1 + w ELSE -1
              e2 == IF ws2 = -2 THEN -1 ELSE IF cand > edge[p] THEN cand ELSE edge[p] IN
          /\ expect' = IF probing THEN Free(p)
                       \* no socket for this family (IPv4 peer, the only socket is IPV6_V6ONLY): exactly one reset that acknowledges
                       \* the segment, sequence number = its ack number (0 without ACK); a reset gets nothing
                       ELSE IF (cfg.nosock \/ NoSocketLeft(p)) /\ ~R
                            THEN [kind |-> "mustrst", pp |-> p, seq |-> IF A THEN Ack32(Ev) ELSE <<0, 0>>,
                                  ack |-> Add32(Seq32(Ev), Ev.n + (IF S THEN 1 ELSE 0) + (IF HasFlag(Ev, "F") THEN 1 ELSE 0))]
                       ELSE IF R THEN [kind |-> "quiet", pp |-> p, seq |-> None32, ack |-> None32]                       \* ResetNeverAnswered (any state)
                       ELSE IF c.st = "def" /\ A /\ Ack32(Ev) # Add32(c.iss, 1) /\ cfg.cookie = 0
                            THEN [kind |-> "mustrst", pp |-> p, seq |-> Ack32(Ev), ack |-> None32]    \* BadAck
                       ELSE Free(p)
          /\ cur' = [cur EXCEPT ![p] = CurAfter(p, Ev)]
          /\ syn' = [syn EXCEPT ![p] = IF S /\ ~R THEN @ \cup {Seq32(Ev)} ELSE @]
          /\ qual' = [qual EXCEPT ![p] = @ \/ QualNow(p, Ev)]
          /\ qual21' = [qual21 EXCEPT ![p] = @ \/ Qual21Now(p, Ev)]
          /\ qual22' = [qual22 EXCEPT ![p] = @ \/ Qual22Now(p, Ev)]
          /\ cqual' = (cqual \/ (cfg.role = "active" /\ A /\ ~R /\ (\E x \in own[p] : Ack32(Ev) = Add32(x, 1)) /\ (S \/ syn[p] # {})))
          /\ pmss' = [pmss EXCEPT ![p] = mss2] /\ pws' = [pws EXCEPT ![p] = ws2]
          /\ edge' = [edge EXCEPT ![p] = e2]
          /\ UNCHANGED <<cfg, issued, own, sws, probing, gone>>

\* ---------------------------------------------------------------- the stack emits
IsTcp == Ev.kind = "tcp" /\ Ev.pp \in PP /\ Ev.addrok
\* a SYN / SYN-ACK the stack already sent, sent again by its retransmission timer: allowed at any time
EmitRetx == /\ IsEvent("emit") /\ IsTcp /\ HasFlag(Ev, "S") /\ ~HasFlag(Ev, "R") /\ Seq32(Ev) \in own[Ev.pp]
            /\ Keep /\ UNCHANGED <<expect, probing>>
EmitSyn == /\ IsEvent("emit") /\ IsTcp /\ HasFlag(Ev, "S") /\ ~HasFlag(Ev, "R") /\ Seq32(Ev) \notin own[Ev.pp]
           /\ expect.kind = "free" /\ Ev.sumok /\ Ev.ipok
           /\ LET p == Ev.pp r == [iss |-> Seq32(Ev), irs1 |-> Ack32(Ev)] IN
              /\ own' = [own EXCEPT ![p] = @ \cup {Seq32(Ev)}]
              /\ sws' = [sws EXCEPT ![p] = Ev.ws]
              /\ IF HasFlag(Ev, "A")
                 THEN /\ issued' = [issued EXCEPT ![p] = IF Answers(p, r) THEN @ \cup {r} ELSE @]
                      /\ cur' = [cur EXCEPT ![p] =
                                  IF ~Answers(p, r) THEN @
                                  ELSE IF cfg.role = "passive" THEN (IF cfg.cookie = 0 THEN [st |-> "def", iss |-> r.iss, irs1 |-> r.irs1]
                                                                     ELSE IF cfg.cookie = 2 THEN [st |-> "maybe", iss |-> r.iss, irs1 |-> r.irs1] ELSE @)
                                  ELSE @]                                \* active, simultaneous open: the connection stays what it was
                 ELSE /\ issued' = issued
                      /\ cur' = [cur EXCEPT ![p] = IF cfg.role = "active" THEN [st |-> "def", iss |-> r.iss, irs1 |-> None32] ELSE @]
           /\ UNCHANGED <<cfg, syn, qual, qual21, qual22, cqual, expect, probing, pmss, pws, edge, gone>>
\* BadAck: the reply is a reset whose sequence number is the offending acknowledgement number; nothing follows it
EmitMustRst == /\ IsEvent("emit") /\ IsTcp /\ expect.kind = "mustrst" /\ Ev.pp = expect.pp
               /\ HasFlag(Ev, "R") /\ ~HasFlag(Ev, "S") /\ Seq32(Ev) = expect.seq /\ Ev.sumok /\ Ev.ipok /\ Ev.n = 0
               /\ (expect.ack # None32 => (HasFlag(Ev, "A") /\ Ack32(Ev) = expect.ack))
               /\ expect' = [kind |-> "quiet", pp |-> expect.pp, seq |-> None32, ack |-> None32]
               /\ Keep /\ UNCHANGED probing
\* what the peer allowed: segments no longer than the MSS it offered, nothing beyond the window it offered
Respect(p) == /\ (pmss[p] >= 0 => Ev.n <= pmss[p])
              /\ (edge[p] >= 0 /\ Ev.rseq > -100000 => Ev.rseq + Ev.n <= edge[p])
EmitFree == /\ IsEvent("emit") /\ expect.kind = "free"
            /\ (Ev.kind = "tcp" => ~(HasFlag(Ev, "S") /\ ~HasFlag(Ev, "R")))
            /\ (Ev.kind = "tcp" /\ Ev.pp \in PP /\ Ev.addrok /\ Ev.n > 0 /\ ~HasFlag(Ev, "R")) => Respect(Ev.pp)
            /\ Keep /\ UNCHANGED <<expect, probing>>

Settle == /\ IsEvent("settle") /\ Ev.idle /\ expect.kind # "mustrst"
          /\ expect' = IF probing THEN expect ELSE NoExp
          /\ Keep /\ UNCHANGED probing

\* ---------------------------------------------------------------- API observations
\* AcceptOK: a connection is handed out only for a 4-tuple on which a SYN and then an ACK of exactly iss+1 were delivered
Accept == /\ IsEvent("accept") /\ expect.kind = "none" /\ cfg.role = "passive"
          /\ IF Ev.ok
             THEN /\ Ev.pp \in PP /\ Ev.raddrok
                  /\ qual[Ev.pp] \/ (cfg.kf21 /\ qual21[Ev.pp]) \/ (cfg.kf22 /\ qual22[Ev.pp])
                  /\ qual' = [qual EXCEPT ![Ev.pp] = FALSE] /\ qual21' = [qual21 EXCEPT ![Ev.pp] = FALSE] /\ qual22' = [qual22 EXCEPT ![Ev.pp] = FALSE]
                  /\ cur' = [cur EXCEPT ![Ev.pp] = [@ EXCEPT !.st = "est"]]
                  /\ expect' = Free(Ev.pp)                               \* its protocol loop starts with whatever is queued
                  \* a connection that exists only through a known finding: its ISS / MSS index are not what was negotiated, no further claim
                  /\ pmss' = [pmss EXCEPT ![Ev.pp] = IF qual[Ev.pp] THEN @ ELSE -1]
                  /\ pws' = [pws EXCEPT ![Ev.pp] = IF qual[Ev.pp] THEN @ ELSE -2]
                  /\ edge' = [edge EXCEPT ![Ev.pp] = IF qual[Ev.pp] THEN @ ELSE -1]
             ELSE UNCHANGED <<qual, qual21, qual22, cur, expect, pmss, pws, edge>>
          /\ UNCHANGED <<cfg, syn, issued, own, cqual, probing, sws, gone>>
\* ConnectOK: the active open reports success only after a SYN and an ACK of exactly iss+1 were delivered
Up == /\ IsEvent("up") /\ expect.kind = "none" /\ cfg.role = "active"
      /\ Ev.res = "connected" => cqual
      /\ cur' = [cur EXCEPT ![0] = IF Ev.res = "connecting" THEN @ ELSE [@ EXCEPT !.st = IF Ev.res = "connected" THEN "est" ELSE "maybe"]]
      /\ UNCHANGED <<cfg, syn, issued, own, qual, qual21, qual22, cqual, expect, probing, pmss, pws, sws, edge, gone>>

TNext == Reset \/ Book \/ CloseListener \/ ConnectCall \/ ProbeCall \/ Inj \/ EmitRetx \/ EmitSyn \/ EmitMustRst \/ EmitFree \/ Settle \/ Accept \/ Up
TSpec == TInit /\ [][TNext]_tvars
====
