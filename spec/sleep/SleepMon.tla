---- MODULE SleepMon ----
(* The C19 P-spec as a deterministic monitor over observation events of the
   real Sleeper/Waker (see TraceSleepProp for the event vocabulary and the
   meaning of every clause).  Each operator M<Event>(ev) is the transition of
   the monitor on event record ev; it is not enabled iff the event contradicts
   the property.  Used by TraceSleepProp (one recorded schedule after the
   other) and GraphSleepProp (every path of the explored real-code graph). *)
EXTENDS Integers, Sequences, FiniteSets
CONSTANT TolerateF25   \* known finding F25 (see NothingComplete / StrictNothing below)
VARIABLES a, att, pend, cons, comp, parkedv, doneRet
mvars == <<a, att, pend, cons, comp, parkedv, doneRet>>
P == 0..8
WK == 1..8
None == [op |-> "none", w |-> 0, block |-> FALSE, wit |-> FALSE, swit |-> FALSE]
MHas(r, f) == f \in DOMAIN r
MSeqToSet(s) == {s[i] : i \in DOMAIN s}

AssertInFlight(pd, w) == \E q \in P : pd[q].op = "Assert" /\ pd[q].w = w
\* C19 literally (STRICT): no attached waker has a completed, unconsumed assertion, where comp = wakers for
\* which an Assert call has returned while the waker was asserted and nothing has consumed it since
StrictNothing(av, at, cp) == \A w \in at : ~(w \in av /\ w \in cp)
\* the clause everything is judged by once known finding F25 is tolerated: the strict clause may fail only in
\* the shape of F25 -- every asserted attached waker still has an Assert call in flight at that moment (the
\* Assert that returned found the waker already asserted by one that has not queued it yet)
NothingComplete(av, at, pd) == \A w \in at : (w \in av) => AssertInFlight(pd, w)
\* calls in progress that can still report a consumption of w
Cand(at, pd, w) == Cardinality({p \in P : pd[p].op = "Clear" /\ pd[p].w = w})
                   + (IF pd[0].op = "Fetch" /\ w \in at THEN 1 ELSE 0)
\* the moment (av, at, pd) witnesses what call c needs to have seen
Wit(c, av, at, pd) == CASE c.op = "Assert" -> c.w \in av
                        [] c.op = "Clear"  -> c.w \notin av
                        [] c.op = "Fetch"  -> ~c.block /\ NothingComplete(av, at, pd)
                        [] OTHER -> FALSE
SWit(c, av, at, cp) == c.op = "Fetch" /\ ~c.block /\ StrictNothing(av, at, cp)
Quiet(pd) == \A p \in P \ {0} : pd[p] = None
\* holds after every event
OK(av, at, pd, cn, pk) ==
    /\ \A w \in WK : cn[w] <= Cand(at, pd, w)                                     \* every consumption gets reported
    /\ pk => (pd[0].op \in {"Fetch", "Done"} /\ pd[0].block)                      \* only blocking calls sleep
    /\ ~(pk /\ Quiet(pd) /\ (pd[0].op = "Done" \/ \E w \in at : w \in av))        \* no lost wake-up
Post == OK(a', att', pend', cons', parkedv')

\* fresh sleeper and wakers; pre: wakers 1..nw already attached; q: wakers 1..q asserted by completed Asserts
MStart(nw, pre, q) == /\ a = 1..q /\ pend = [p \in P |-> None] /\ cons = [w \in WK |-> 0] /\ comp = 1..q /\ parkedv = FALSE /\ doneRet = FALSE
                      /\ att = IF pre THEN 1..nw ELSE {}
MReset(ev) == /\ a' = 1..ev.preq /\ pend' = [p \in P |-> None] /\ cons' = [w \in WK |-> 0] /\ comp' = 1..ev.preq
              /\ parkedv' = FALSE /\ doneRet' = FALSE
              /\ att' = IF ev.pre THEN 1..ev.nw ELSE {}

MCall(ev) == /\ LET p == ev.p  op == ev.op
                    c == [op |-> op, w |-> IF MHas(ev, "w") THEN ev.w ELSE 0,
                          block |-> IF MHas(ev, "block") THEN ev.block ELSE (op = "Done"), wit |-> FALSE, swit |-> FALSE] IN
                /\ pend[p] = None
                /\ (p = 0) <=> (op \in {"AddWaker", "Fetch", "Done"})
                /\ (p # 0) => (op \in {"Assert", "Clear"})
                /\ (p = 0) => ~doneRet
                /\ (op = "AddWaker") => c.w \notin att
                /\ pend' = [pend EXCEPT ![p] = [c EXCEPT !.wit = Wit(c, a, att, pend),       \* the moment of the call counts
                                                          !.swit = SWit(c, a, att, comp)]]
             /\ UNCHANGED <<a, att, cons, comp, parkedv, doneRet>>
             /\ Post

MObs(ev) == /\ LET av == MSeqToSet(ev.asserted) IN
               /\ \A w \in av \ a : AssertInFlight(pend, w)                             \* asserted only by an Assert in progress
               /\ cons' = [w \in WK |-> IF w \in a \ av THEN cons[w] + 1 ELSE cons[w]]  \* consumed: to be reported
               /\ a' = av
               /\ comp' = comp \ (a \ av)                                                 \* consumed: no longer complete
               /\ pend' = [p \in P |-> IF pend[p] = None THEN None
                                       ELSE [pend[p] EXCEPT !.wit = @ \/ Wit(pend[p], av, att, pend),
                                                            !.swit = @ \/ SWit(pend[p], av, att, comp \ (a \ av))]]
            /\ parkedv' = ev.parked
            /\ doneRet => ~ev.dirty                                                     \* nobody touches it after Done
            /\ UNCHANGED <<att, doneRet>>
            /\ Post

MRet(ev) == /\ LET p == ev.p  c == pend[ev.p] IN
               /\ c.op = ev.op
               /\ CASE c.op = "Assert" -> c.wit /\ UNCHANGED cons
                    [] c.op = "Clear"  -> IF ev.ok THEN cons[c.w] > 0 /\ cons' = [cons EXCEPT ![c.w] = @ - 1]
                                          ELSE c.wit /\ UNCHANGED cons
                    [] c.op = "Fetch"  -> IF ev.ok THEN /\ ev.id \in att /\ cons[ev.id] > 0
                                                        /\ cons' = [cons EXCEPT ![ev.id] = @ - 1]
                                          ELSE /\ ~c.block /\ UNCHANGED cons
                                               /\ c.wit                                  \* never outside the shape of F25
                                               /\ (c.swit \/ TolerateF25)                 \* the literal clause
                    [] OTHER -> UNCHANGED cons
               /\ pend' = [pend EXCEPT ![p] = None]
               /\ att' = CASE c.op = "AddWaker" -> att \cup {c.w} [] c.op = "Done" -> {} [] OTHER -> att
               /\ doneRet' = (doneRet \/ c.op = "Done")
               /\ comp' = IF c.op = "Assert" /\ c.w \in a THEN comp \cup {c.w} ELSE comp   \* a completed assertion
            /\ UNCHANGED <<a, parkedv>>
            /\ Post

\* The watchdog of the driver: the call of goroutine ev.p has not come back (no next gate, no return) long after
\* it was given the step.  C19 lets a call stay away only by SLEEPING, only in a blocking Fetch / Done, and only
\* while no completed assertion obliges it to return (Post: the lost wake-up clause with parked = TRUE).  A call
\* that spins (ev.state = "spinning"), or any other call that does not return, never returns: rejected.
MStuck(ev) == /\ ev.state = "parked"
              /\ pend[ev.p].op # "none" /\ pend[ev.p].block
              /\ parkedv' = TRUE
              /\ UNCHANGED <<a, att, pend, cons, comp, doneRet>>
              /\ Post

\* entry of `new`: <<w, id, ok, id2, ok2>> = two Asserts of w then two non-blocking fetches on the new sleeper
MReattach(ev) == /\ doneRet /\ \A p \in P : pend[p] = None
                 /\ Len(ev.old) = 0
                 /\ \A i \in DOMAIN ev.new : LET e == ev.new[i] IN
                       Len(e) = 5 /\ e[3] = TRUE /\ e[2] = 100 + e[1] /\ e[5] = FALSE
                 /\ UNCHANGED mvars
====
