---- MODULE MCSleep ----
(* Model-checking wrapper of Sleep: function-valued constant Target (which
   waker each waker goroutine operates on) is chosen in the cfg by
   `Target <- T_xyz`. *)
EXTENDS Sleep
T_1    == <<1>>
T_11   == <<1, 1>>
T_12   == <<1, 2>>
T_22   == <<2, 2>>
T_111  == <<1, 1, 1>>
T_112  == <<1, 1, 2>>
T_123  == <<1, 2, 3>>
T_122  == <<1, 2, 2>>
T_211  == <<2, 1, 1>>
T_1122 == <<1, 1, 2, 2>>
T_1112 == <<1, 1, 1, 2>>
====
