---- MODULE TraceSleepProp ----
(* P-spec of C19 as a trace validator over observations of the REAL
   Sleeper/Waker driven by the gate scheduler.  No knowledge of the internal
   pointers: only calls, returns and state observations.  The gate scheduler
   is the only source of order: one move of one goroutine per step, and per
   move the events  [call]  [obs of the state after the move]  [ret].

   Events
     reset    (nw, pre)                start of a segment; pre: wakers 1..nw already attached
     call     (p, op [, w] [, block])  p = 0 the sleeper goroutine (AddWaker w / Fetch block / Done),
                                       p >= 1 a waker goroutine (Assert w / Clear w)
     ret      (p, op [, ok] [, id])    Clear: ok;  Fetch: id (= waker number) and ok
     obs      (parked, asserted, dirty) parked: the sleeper goroutine is descheduled inside gopark;
                                       asserted: wakers for which the public IsAsserted() is true;
                                       dirty: something is queued on / recorded in the sleeper (accessor)
     reattach (old, new)               after Done returned and everything is idle: results of probing the
                                       old sleeper and of attaching every waker to a new sleeper

   The abstract state is the set a of wakers with an unconsumed assertion, as
   IsAsserted shows it after every move.  What C19 says about it:
     * a waker becomes asserted only while an Assert of it is in progress; an Assert returns only after
       the waker was asserted at some moment of the call;
     * an assertion disappears only by being consumed, and every consumption is reported exactly once:
       by a Clear of that waker returning true or by Fetch returning that (attached) waker -- cons[w]
       counts consumptions not yet reported, never more than there are calls in progress that could
       still report them.  Hence Fetch returns only wakers asserted since they were last returned or
       cleared, and any number of Asserts before the fetch give one notification;
     * Clear returns false only if the waker was not asserted at some moment of the call;
     * a non-blocking Fetch reports nothing only if at some moment of the call no attached waker had a
       completed unconsumed assertion (asserted, and no Assert of it still in progress); a blocking Fetch
       never reports nothing;
     * the sleeper is never parked while no waker call is in progress and an attached waker is asserted
       (or Done is waiting): the lost wake-up as a STATE; only blocking calls park;
     * after Done returned nothing touches the sleeper (never dirty), and the re-attachment probe
       delivers only to the new sleeper, one notification per waker. *)
EXTENDS TraceIO, FiniteSets
VARIABLES a, att, pend, cons, parkedv, doneRet
tvars == <<l, a, att, pend, cons, parkedv, doneRet>>
P == 0..8
WK == 1..8
None == [op |-> "none", w |-> 0, block |-> FALSE, wit |-> FALSE]

AssertInFlight(pd, w) == \E q \in P : pd[q].op = "Assert" /\ pd[q].w = w
\* no attached waker has a completed, unconsumed assertion
NothingComplete(av, at, pd) == \A w \in at : (w \in av) => AssertInFlight(pd, w)
\* calls in progress that can still report a consumption of w
Cand(at, pd, w) == Cardinality({p \in P : pd[p].op = "Clear" /\ pd[p].w = w})
                   + (IF pd[0].op = "Fetch" /\ w \in at THEN 1 ELSE 0)
\* the moment (av, at, pd) witnesses what call c needs to have seen
Wit(c, av, at, pd) == CASE c.op = "Assert" -> c.w \in av
                        [] c.op = "Clear"  -> c.w \notin av
                        [] c.op = "Fetch"  -> ~c.block /\ NothingComplete(av, at, pd)
                        [] OTHER -> FALSE
Quiet(pd) == \A p \in P \ {0} : pd[p] = None
\* holds after every event
OK(av, at, pd, cn, pk) ==
    /\ \A w \in WK : cn[w] <= Cand(at, pd, w)                                     \* every consumption gets reported
    /\ pk => (pd[0].op \in {"Fetch", "Done"} /\ pd[0].block)                      \* only blocking calls sleep
    /\ ~(pk /\ Quiet(pd) /\ (pd[0].op = "Done" \/ \E w \in at : w \in av))        \* no lost wake-up
Post == OK(a', att', pend', cons', parkedv')

Fresh == /\ a' = {} /\ pend' = [p \in P |-> None] /\ cons' = [w \in WK |-> 0] /\ parkedv' = FALSE /\ doneRet' = FALSE
TInit == /\ l = 1 /\ a = {} /\ att = {} /\ pend = [p \in P |-> None] /\ cons = [w \in WK |-> 0]
         /\ parkedv = FALSE /\ doneRet = FALSE /\ HWInit

Reset == /\ IsEvent("reset") /\ Fresh
         /\ att' = IF Ev.pre THEN 1..Ev.nw ELSE {}

Call == /\ IsEvent("call")
        /\ LET p == Ev.p  op == Ev.op
               c == [op |-> op, w |-> IF Has(Ev, "w") THEN Ev.w ELSE 0,
                     block |-> IF Has(Ev, "block") THEN Ev.block ELSE (op = "Done"), wit |-> FALSE] IN
           /\ pend[p] = None
           /\ (p = 0) <=> (op \in {"AddWaker", "Fetch", "Done"})
           /\ (p # 0) => (op \in {"Assert", "Clear"})
           /\ (p = 0) => ~doneRet
           /\ (op = "AddWaker") => c.w \notin att
           /\ pend' = [pend EXCEPT ![p] = [c EXCEPT !.wit = Wit(c, a, att, pend)]]   \* the moment of the call counts
        /\ UNCHANGED <<a, att, cons, parkedv, doneRet>>
        /\ Post

Obs == /\ IsEvent("obs")
       /\ LET av == SeqToSet(Ev.asserted) IN
          /\ \A w \in av \ a : AssertInFlight(pend, w)                             \* asserted only by an Assert in progress
          /\ cons' = [w \in WK |-> IF w \in a \ av THEN cons[w] + 1 ELSE cons[w]]  \* consumed: to be reported
          /\ a' = av
          /\ pend' = [p \in P |-> IF pend[p] = None THEN None
                                  ELSE [pend[p] EXCEPT !.wit = @ \/ Wit(pend[p], av, att, pend)]]
       /\ parkedv' = Ev.parked
       /\ doneRet => ~Ev.dirty                                                     \* nobody touches it after Done
       /\ UNCHANGED <<att, doneRet>>
       /\ Post

Ret == /\ IsEvent("ret")
       /\ LET p == Ev.p  c == pend[Ev.p] IN
          /\ c.op = Ev.op
          /\ CASE c.op = "Assert" -> c.wit /\ UNCHANGED cons
               [] c.op = "Clear"  -> IF Ev.ok THEN cons[c.w] > 0 /\ cons' = [cons EXCEPT ![c.w] = @ - 1]
                                     ELSE c.wit /\ UNCHANGED cons
               [] c.op = "Fetch"  -> IF Ev.ok THEN /\ Ev.id \in att /\ cons[Ev.id] > 0
                                                   /\ cons' = [cons EXCEPT ![Ev.id] = @ - 1]
                                     ELSE ~c.block /\ c.wit /\ UNCHANGED cons
               [] OTHER -> UNCHANGED cons
          /\ pend' = [pend EXCEPT ![p] = None]
          /\ att' = CASE c.op = "AddWaker" -> att \cup {c.w} [] c.op = "Done" -> {} [] OTHER -> att
          /\ doneRet' = (doneRet \/ c.op = "Done")
       /\ UNCHANGED <<a, parkedv>>
       /\ Post

\* entry of `new`: <<w, id, ok, id2, ok2>> = two Asserts of w then two non-blocking fetches on the new sleeper
Reattach == /\ IsEvent("reattach")
            /\ doneRet /\ \A p \in P : pend[p] = None
            /\ Len(Ev.old) = 0
            /\ \A i \in DOMAIN Ev.new : LET e == Ev.new[i] IN
                  Len(e) = 5 /\ e[3] = TRUE /\ e[2] = 100 + e[1] /\ e[5] = FALSE
            /\ UNCHANGED <<a, att, pend, cons, parkedv, doneRet>>

TNext == Reset \/ Call \/ Ret \/ Obs \/ Reattach
TSpec == TInit /\ [][TNext]_tvars
====
