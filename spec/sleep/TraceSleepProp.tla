---- MODULE TraceSleepProp ----
(* P-spec of C19 as a trace validator over observations of the REAL
   Sleeper/Waker driven by the gate scheduler.  No knowledge of the internal
   pointers: only calls, returns and state observations.  The gate scheduler
   is the only source of order: one move of one goroutine per step, and per
   move the events  [call]  [obs of the state after the move]  [ret].

   Events
     reset    (nw, pre, preq)          start of a segment; pre: wakers 1..nw already attached; wakers 1..preq
                                       already asserted (by completed Asserts) and queued
     stuck    (p, op, state)           watchdog: the call of goroutine p did not come back; state: spinning | parked
     call     (p, op [, w] [, block])  p = 0 the sleeper goroutine (AddWaker w / Fetch block / Done),
                                       p >= 1 a waker goroutine (Assert w / Clear w)
     ret      (p, op [, ok] [, id])    Clear: ok;  Fetch: id (= waker number) and ok
     obs      (parked, asserted, dirty) parked: the sleeper goroutine is descheduled inside gopark;
                                       asserted: wakers for which the public IsAsserted() is true;
                                       dirty: something is queued on / recorded in the sleeper (accessor)
     reattach (old, new)               after Done returned and everything is idle: results of probing the
                                       old sleeper and of attaching every waker to a new sleeper

   The abstract state is the set a of wakers with an unconsumed assertion, as
   IsAsserted shows it after every move.  What C19 says about it:
     * a waker becomes asserted only while an Assert of it is in progress; an Assert returns only after
       the waker was asserted at some moment of the call;
     * an assertion disappears only by being consumed, and every consumption is reported exactly once:
       by a Clear of that waker returning true or by Fetch returning that (attached) waker -- cons[w]
       counts consumptions not yet reported, never more than there are calls in progress that could
       still report them.  Hence Fetch returns only wakers asserted since they were last returned or
       cleared, and any number of Asserts before the fetch give one notification;
     * Clear returns false only if the waker was not asserted at some moment of the call;
     * a non-blocking Fetch reports nothing only if at some moment of the call no attached waker had a
       completed unconsumed assertion (STRICT: some Assert call of it has returned and nothing consumed it
       since); known finding F25 (cfg constant TolerateF25) tolerates exactly one shape of failure of that
       clause: every such waker still had another Assert call in progress at that moment; a blocking Fetch
       never reports nothing;
     * the sleeper is never parked while no waker call is in progress and an attached waker is asserted
       (or Done is waiting): the lost wake-up as a STATE; only blocking calls park;
     * after Done returned nothing touches the sleeper (never dirty), and the re-attachment probe
       delivers only to the new sleeper, one notification per waker. *)
EXTENDS TraceIO, SleepMon
tvars == <<l, mvars>>
TInit == l = 1 /\ MStart(0, FALSE, 0) /\ HWInit
Reset == IsEvent("reset") /\ MReset(Ev)
Call == IsEvent("call") /\ MCall(Ev)
Obs == IsEvent("obs") /\ MObs(Ev)
Ret == IsEvent("ret") /\ MRet(Ev)
Reattach == IsEvent("reattach") /\ MReattach(Ev)
Stuck == IsEvent("stuck") /\ MStuck(Ev)
TNext == Reset \/ Call \/ Ret \/ Obs \/ Reattach \/ Stuck
TSpec == TInit /\ [][TNext]_tvars
====
