---- MODULE Sleep ----
(* I-spec of pkg/sleep (Sleeper/Waker) at the granularity of its atomic
   operations, with the P-level properties of C19 as invariants / temporal
   formulas over ghost variables.

   One action = one atomic operation (load / store / swap / CAS on
   Waker.s, Sleeper.sharedList, Sleeper.waitingG; gopark+commitSleep; goready)
   followed by the goroutine-local computation up to the next atomic
   operation.  This is exactly the granularity of the verif hook points
   (pkg/sleep/verif_hooks.go lists them), so the same module serves for the
   exhaustive runs and for the comparison with the real-code graph.

     ws[w]     Waker.s        "nil" | "slp" (points to the sleeper) | "asserted"
     shared    Sleeper.sharedList as the sequence of queued wakers, head first
               (the CAS of a push compares the head only, as the code does)
     local     Sleeper.localList
     waitingG  0 | 1 (preparingG) | 2 (the sleeper's G)
     parked    the sleeper goroutine is descheduled inside gopark

   Goroutines: one sleeper (AddWaker for wakers 1..NW in order unless
   PreAttach, then up to MaxF fetches, each blocking or not, and at any idle
   moment Done) and waker goroutines G = 1..Len(Target); goroutine g runs up to
   MaxG operations, each Assert or Clear, on waker Target[g]. *)
EXTENDS Integers, Sequences, FiniteSets, TLC
CONSTANTS NW,        \* number of wakers; W == 1..NW
          Target,    \* sequence over W (a function G -> W); set through MCSleep
          MaxG,      \* operations per waker goroutine
          MaxF,      \* fetches of the sleeper
          PreAttach, \* TRUE: all wakers are attached in the initial state
          ClearOK,   \* FALSE: the waker goroutines only Assert (smaller graphs for the same-waker races)
          PreQ       \* wakers 1..PreQ are already asserted and queued (by completed Asserts, in order) in the
                     \* initial state; needs PreAttach
W == 1..NW
G == 1..Len(Target)
T(g) == Target[g]

VARIABLES ws, shared, local, waitingG, parked,                    \* the lock-free state
          pcF, fblock, fw, fops, nadd, sp, sv, dq, pend, inDone,  \* sleeper goroutine
          pcG, gv, gg, gops,                                      \* waker goroutines
          ghost, complete, viol                                   \* history for the properties
mem   == <<ws, shared, local, waitingG, parked>>
slp   == <<pcF, fblock, fw, fops, nadd, sp, sv, dq, pend, inDone>>
wkr   == <<pcG, gv, gg, gops>>
hist  == <<ghost, complete, viol>>
vars  == <<mem, slp, wkr, hist>>

HeadOr0(s) == IF s = <<>> THEN 0 ELSE Head(s)
Rev(s) == [i \in 1..Len(s) |-> s[Len(s) + 1 - i]]
RangeOf(s) == {s[i] : i \in DOMAIN s}
InAssert(g) == pcG[g] \in {"A1", "A2", "E1", "E2", "E3", "E4", "E5"}

Init == /\ ws = [w \in W |-> IF w <= PreQ THEN "asserted" ELSE IF PreAttach THEN "slp" ELSE "nil"]
        /\ shared = [i \in 1..PreQ |-> PreQ + 1 - i] /\ local = <<>> /\ waitingG = 0 /\ parked = FALSE
        /\ pcF = "idle" /\ fblock = FALSE /\ fw = 0 /\ fops = 0
        /\ nadd = (IF PreAttach THEN NW ELSE 0) /\ sp = "nil" /\ sv = 0
        /\ dq = <<>> /\ pend = {} /\ inDone = FALSE
        /\ pcG = [g \in G |-> "idle"] /\ gv = [g \in G |-> 0] /\ gg = [g \in G |-> 0] /\ gops = [g \in G |-> 0]
        /\ ghost = [w \in W |-> w <= PreQ] /\ complete = [w \in W |-> w <= PreQ] /\ viol = {}

\* ------------------------------------------------------------------ sleeper
\* Done's loop "for pending != nil { pulled := nextWaker(true); remove }" as far as it runs without atomic operations
RECURSIVE DoneLoop(_, _)
DoneLoop(loc, pd) == IF pd = {} THEN [pc |-> "finished", loc |-> loc, pd |-> pd]
                     ELSE IF loc # <<>> THEN DoneLoop(Tail(loc), pd \ {Head(loc)})
                     ELSE [pc |-> "L2", loc |-> loc, pd |-> pd]

\* Entry of nextWaker from Fetch with local list `loc`: pop, or go and look at the shared list.
FetchNext(loc) == IF loc # <<>>
                  THEN pcF' = "Fswap" /\ fw' = Head(loc) /\ local' = Tail(loc)
                  ELSE pcF' = "L2" /\ fw' = 0 /\ local' = loc

StartAdd == /\ pcF = "idle" /\ ~inDone /\ nadd < NW
            /\ pcF' = "AW1"
            /\ UNCHANGED <<mem, fblock, fw, fops, nadd, sp, sv, dq, pend, inDone, wkr, hist>>
AW == nadd + 1                                           \* the waker being added
AW1 == /\ pcF = "AW1"                                    \* load w.s
       /\ IF ws[AW] = "asserted" THEN pcF' = "SE1" /\ UNCHANGED sp
          ELSE pcF' = "AW2" /\ sp' = ws[AW]
       /\ UNCHANGED <<mem, fblock, fw, fops, nadd, sv, dq, pend, inDone, wkr, hist>>
AW2 == /\ pcF = "AW2"                                    \* CAS w.s: p -> sleeper
       /\ IF ws[AW] = sp THEN ws' = [ws EXCEPT ![AW] = "slp"] /\ pcF' = "idle" /\ nadd' = nadd + 1
          ELSE pcF' = "AW1" /\ UNCHANGED <<ws, nadd>>
       /\ sp' = "nil"
       /\ UNCHANGED <<shared, local, waitingG, parked, fblock, fw, fops, sv, dq, pend, inDone, wkr, hist>>
SE1 == /\ pcF = "SE1"                                    \* enqueueAssertedWaker run by the sleeper: load sharedList
       /\ sv' = HeadOr0(shared) /\ pcF' = "SE2"
       /\ UNCHANGED <<mem, fblock, fw, fops, nadd, sp, dq, pend, inDone, wkr, hist>>
SE2 == /\ pcF = "SE2"                                    \* CAS sharedList
       /\ IF HeadOr0(shared) = sv THEN shared' = <<AW>> \o shared /\ pcF' = "SE3"
          ELSE pcF' = "SE1" /\ UNCHANGED shared
       /\ sv' = 0
       /\ UNCHANGED <<ws, local, waitingG, parked, fblock, fw, fops, nadd, sp, dq, pend, inDone, wkr, hist>>
SE3 == /\ pcF = "SE3"                                    \* load waitingG: the sleeper itself is running, so it reads 0
       /\ Assert(waitingG = 0, "SE3: waitingG # 0 while the sleeper runs AddWaker")
       /\ pcF' = "idle" /\ nadd' = nadd + 1
       /\ UNCHANGED <<mem, fblock, fw, fops, sp, sv, dq, pend, inDone, wkr, hist>>

StartFetch(b) == /\ pcF = "idle" /\ ~inDone /\ nadd = NW /\ fops < MaxF
                 /\ fblock' = b /\ fops' = fops + 1
                 /\ FetchNext(local)
                 /\ UNCHANGED <<ws, shared, waitingG, parked, nadd, sp, sv, dq, pend, inDone, wkr, hist>>
\* load sharedList at the top of the loop in nextWaker
FL2 == /\ pcF = "L2"
       /\ IF shared # <<>> THEN pcF' = "Lswap" /\ UNCHANGED <<viol, fblock>>
          ELSE IF ~fblock /\ ~inDone
               THEN /\ pcF' = "idle" /\ fblock' = FALSE  \* non-blocking Fetch reports nothing
                    /\ viol' = IF \E w \in W : complete[w] /\ ~\E g \in G : T(g) = w /\ InAssert(g)
                               THEN viol \cup {"NBSound"} ELSE viol
               ELSE pcF' = "L3" /\ UNCHANGED <<viol, fblock>>
       /\ UNCHANGED <<mem, fw, fops, nadd, sp, sv, dq, pend, inDone, wkr, ghost, complete>>
FL3 == /\ pcF = "L3" /\ waitingG' = 1 /\ pcF' = "L4"     \* StoreUintptr(preparingG)
       /\ UNCHANGED <<ws, shared, local, parked, fblock, fw, fops, nadd, sp, sv, dq, pend, inDone, wkr, hist>>
FL4 == /\ pcF = "L4"                                     \* the re-check of sharedList
       /\ pcF' = (IF shared # <<>> THEN "L4b" ELSE "L5")
       /\ UNCHANGED <<mem, fblock, fw, fops, nadd, sp, sv, dq, pend, inDone, wkr, hist>>
FL4b == /\ pcF = "L4b" /\ waitingG' = 0 /\ pcF' = "Lswap"
        /\ UNCHANGED <<ws, shared, local, parked, fblock, fw, fops, nadd, sp, sv, dq, pend, inDone, wkr, hist>>
FL5 == /\ pcF = "L5"                                     \* gopark; commitSleep (CAS preparingG -> G) runs inside it
       /\ IF waitingG = 1 THEN waitingG' = 2 /\ parked' = TRUE /\ pcF' = "parked"
          ELSE pcF' = "L2" /\ UNCHANGED <<waitingG, parked>>
       /\ UNCHANGED <<ws, shared, local, fblock, fw, fops, nadd, sp, sv, dq, pend, inDone, wkr, hist>>
\* swap sharedList with nil, reverse into the local list, pop the first
FLswap == /\ pcF = "Lswap"
          /\ Assert(shared # <<>>, "Lswap with an empty shared list (nil dereference in the code)")
          /\ shared' = <<>>
          /\ IF inDone
             THEN LET r == DoneLoop(Rev(shared) \o local, pend) IN
                  pcF' = r.pc /\ local' = r.loc /\ pend' = r.pd /\ UNCHANGED fw
             ELSE FetchNext(Rev(shared) \o local) /\ UNCHANGED pend
          /\ UNCHANGED <<ws, waitingG, parked, fblock, fops, nadd, sp, sv, dq, inDone, wkr, hist>>
\* Fetch: swap w.s with the sleeper pointer; return the waker iff it was asserted
FFswap == /\ pcF = "Fswap"
          /\ ws' = [ws EXCEPT ![fw] = "slp"]
          /\ IF ws[fw] = "asserted"
             THEN /\ pcF' = "idle" /\ fw' = 0 /\ fblock' = FALSE /\ UNCHANGED local
                  /\ viol' = IF ghost[fw] THEN viol ELSE viol \cup {"NoInvented"}
                  /\ ghost' = [ghost EXCEPT ![fw] = FALSE] /\ complete' = [complete EXCEPT ![fw] = FALSE]
             ELSE FetchNext(local) /\ UNCHANGED <<hist, fblock>>
          /\ UNCHANGED <<shared, waitingG, parked, fops, nadd, sp, sv, dq, pend, inDone, wkr>>

\* Done: first loop over allWakers (most recently added first), then wait for the pending ones
AfterScan(q, pd) == IF q # <<>> THEN pcF' = "D1" /\ pend' = pd /\ UNCHANGED local
                    ELSE LET r == DoneLoop(local, pd) IN pcF' = r.pc /\ local' = r.loc /\ pend' = r.pd
StartDone == /\ pcF = "idle" /\ ~inDone /\ nadd = NW
             /\ inDone' = TRUE /\ fblock' = TRUE
             /\ dq' = [i \in 1..NW |-> NW + 1 - i]
             /\ pcF' = (IF NW = 0 THEN "finished" ELSE "D1")
             /\ UNCHANGED <<mem, fw, fops, nadd, sp, sv, pend, wkr, hist>>
D1 == /\ pcF = "D1"                                      \* load w.s
      /\ IF ws[Head(dq)] # "slp"
         THEN dq' = Tail(dq) /\ AfterScan(Tail(dq), pend \cup {Head(dq)})
         ELSE pcF' = "D2" /\ UNCHANGED <<dq, pend, local>>
      /\ UNCHANGED <<ws, shared, waitingG, parked, fblock, fw, fops, nadd, sp, sv, inDone, wkr, hist>>
D2 == /\ pcF = "D2"                                      \* CAS w.s: sleeper -> nil
      /\ IF ws[Head(dq)] = "slp"
         THEN ws' = [ws EXCEPT ![Head(dq)] = "nil"] /\ dq' = Tail(dq) /\ AfterScan(Tail(dq), pend)
         ELSE pcF' = "D1" /\ UNCHANGED <<ws, dq, pend, local>>
      /\ UNCHANGED <<shared, waitingG, parked, fblock, fw, fops, nadd, sp, sv, inDone, wkr, hist>>

\* ------------------------------------------------------------------- wakers
\* an Assert call returns: its assertion is complete if it is still unconsumed
AssertRet(g) == complete' = [complete EXCEPT ![T(g)] = ghost'[T(g)]]
StartAssert(g) == /\ pcG[g] = "idle" /\ gops[g] < MaxG
                  /\ pcG' = [pcG EXCEPT ![g] = "A1"] /\ gops' = [gops EXCEPT ![g] = @ + 1]
                  /\ UNCHANGED <<mem, slp, gv, gg, hist>>
StartClear(g) == /\ ClearOK /\ pcG[g] = "idle" /\ gops[g] < MaxG
                 /\ pcG' = [pcG EXCEPT ![g] = "C1"] /\ gops' = [gops EXCEPT ![g] = @ + 1]
                 /\ UNCHANGED <<mem, slp, gv, gg, hist>>
GA1(g) == /\ pcG[g] = "A1"                                \* load w.s
          /\ IF ws[T(g)] = "asserted"
             THEN pcG' = [pcG EXCEPT ![g] = "idle"] /\ UNCHANGED ghost /\ AssertRet(g)
             ELSE pcG' = [pcG EXCEPT ![g] = "A2"] /\ UNCHANGED <<ghost, complete>>
          /\ UNCHANGED <<mem, slp, gv, gg, gops, viol>>
GA2(g) == /\ pcG[g] = "A2"                                \* swap w.s with the asserted sentinel
          /\ ws' = [ws EXCEPT ![T(g)] = "asserted"] /\ ghost' = [ghost EXCEPT ![T(g)] = TRUE]
          /\ IF ws[T(g)] = "slp"
             THEN pcG' = [pcG EXCEPT ![g] = "E1"] /\ UNCHANGED complete
             ELSE pcG' = [pcG EXCEPT ![g] = "idle"] /\ AssertRet(g)
          /\ UNCHANGED <<shared, local, waitingG, parked, slp, gv, gg, gops, viol>>
GE1(g) == /\ pcG[g] = "E1"                                \* load sharedList (then w.next = v)
          /\ gv' = [gv EXCEPT ![g] = HeadOr0(shared)] /\ pcG' = [pcG EXCEPT ![g] = "E2"]
          /\ UNCHANGED <<mem, slp, gg, gops, hist>>
GE2(g) == /\ pcG[g] = "E2"                                \* CAS sharedList: v -> w
          /\ IF HeadOr0(shared) = gv[g]
             THEN shared' = <<T(g)>> \o shared /\ pcG' = [pcG EXCEPT ![g] = "E3"]
             ELSE pcG' = [pcG EXCEPT ![g] = "E1"] /\ UNCHANGED shared
          /\ gv' = [gv EXCEPT ![g] = 0]
          /\ UNCHANGED <<ws, local, waitingG, parked, slp, gg, gops, hist>>
GE3(g) == /\ pcG[g] = "E3"                                \* load waitingG
          /\ IF waitingG = 0
             THEN pcG' = [pcG EXCEPT ![g] = "idle"] /\ UNCHANGED <<gg, ghost>> /\ AssertRet(g)
             ELSE pcG' = [pcG EXCEPT ![g] = "E4"] /\ gg' = [gg EXCEPT ![g] = waitingG] /\ UNCHANGED <<ghost, complete>>
          /\ UNCHANGED <<mem, slp, gv, gops, viol>>
GE4(g) == /\ pcG[g] = "E4"                                \* CAS waitingG: g -> 0
          /\ IF waitingG = gg[g]
             THEN waitingG' = 0 /\ pcG' = [pcG EXCEPT ![g] = IF gg[g] = 2 THEN "E5" ELSE "E3"]
             ELSE pcG' = [pcG EXCEPT ![g] = "E3"] /\ UNCHANGED waitingG
          /\ gg' = [gg EXCEPT ![g] = IF waitingG = gg[g] /\ gg[g] = 2 THEN 2 ELSE 0]
          /\ UNCHANGED <<ws, shared, local, parked, slp, gv, gops, hist>>
GE5(g) == /\ pcG[g] = "E5"                                \* goready: the sleeper runs up to its next load of sharedList
          /\ Assert(parked /\ pcF = "parked", "goready of a goroutine that is not parked")
          /\ parked' = FALSE /\ pcF' = "L2" /\ pcG' = [pcG EXCEPT ![g] = "E3"] /\ gg' = [gg EXCEPT ![g] = 0]
          /\ UNCHANGED <<ws, shared, local, waitingG, fblock, fw, fops, nadd, sp, sv, dq, pend, inDone, gv, gops, hist>>
GC1(g) == /\ pcG[g] = "C1"                                \* load w.s
          /\ pcG' = [pcG EXCEPT ![g] = IF ws[T(g)] # "asserted" THEN "idle" ELSE "C2"]
          /\ UNCHANGED <<mem, slp, gv, gg, gops, hist>>
GC2(g) == /\ pcG[g] = "C2"                                \* CAS w.s: asserted -> nil
          /\ IF ws[T(g)] = "asserted"
             THEN /\ ws' = [ws EXCEPT ![T(g)] = "nil"]
                  /\ ghost' = [ghost EXCEPT ![T(g)] = FALSE] /\ complete' = [complete EXCEPT ![T(g)] = FALSE]
             ELSE UNCHANGED <<ws, ghost, complete>>
          /\ pcG' = [pcG EXCEPT ![g] = "idle"]
          /\ UNCHANGED <<shared, local, waitingG, parked, slp, gv, gg, gops, viol>>

SleeperStep == AW1 \/ AW2 \/ SE1 \/ SE2 \/ SE3 \/ FL2 \/ FL3 \/ FL4 \/ FL4b \/ FL5 \/ FLswap \/ FFswap \/ D1 \/ D2
WakerStep(g) == GA1(g) \/ GA2(g) \/ GE1(g) \/ GE2(g) \/ GE3(g) \/ GE4(g) \/ GE5(g) \/ GC1(g) \/ GC2(g)
Next == \/ StartAdd \/ StartFetch(TRUE) \/ StartFetch(FALSE) \/ StartDone
        \/ AW1 \/ AW2 \/ SE1 \/ SE2 \/ SE3 \/ FL2 \/ FL3 \/ FL4 \/ FL4b \/ FL5 \/ FLswap \/ FFswap \/ D1 \/ D2
        \/ \E g \in G : StartAssert(g) \/ StartClear(g)
                        \/ GA1(g) \/ GA2(g) \/ GE1(g) \/ GE2(g) \/ GE3(g) \/ GE4(g) \/ GE5(g) \/ GC1(g) \/ GC2(g)
\* every goroutine that is inside an operation keeps being scheduled (the Start* choices are free)
Fair == WF_vars(SleeperStep) /\ \A g \in G : WF_vars(WakerStep(g))
Spec == Init /\ [][Next]_vars /\ Fair

\* ------------------------------------------------------------------- C19
GQuiet == \A g \in G : pcG[g] = "idle"
Fetching == ~inDone /\ pcF \in {"L2", "L3", "L4", "L4b", "L5", "parked", "Lswap", "Fswap"}
\* the sleeper never sleeps forever: parked, nobody in flight, and (a waker it is attached to is asserted / Done is waiting)
NoLostWake == ~(parked /\ GQuiet /\ (inDone \/ \E w \in W : ws[w] = "asserted"))
\* Fetch returns only wakers asserted since they were last returned or cleared (recorded at the swap)
NoInvented == "NoInvented" \notin viol
\* any number of Asserts before the fetch queue the waker once: one notification
Coalesce == \A w \in W : Cardinality({i \in DOMAIN shared : shared[i] = w}) + Cardinality({i \in DOMAIN local : local[i] = w})
                         + (IF pcF = "Fswap" /\ fw = w THEN 1 ELSE 0) <= 1
\* a non-blocking Fetch reports nothing only if no waker has a completed, unconsumed assertion
\* (an Assert call returned, nothing consumed it since, and no Assert of that waker is still in flight: the
\*  call that performs the enqueue may be another one than the call that returned -- see DESIGN C19 calibration)
NBSound == "NBSound" \notin viol
\* The same clause read literally (STRICT: completed = some Assert call of the waker returned, unconsumed), as an
\* action property on the step in which a non-blocking Fetch reports nothing.  It does NOT hold: known finding
\* F25 (an Assert that finds the waker already asserted returns before the Assert still in flight has queued it).
\* NBSound above is exactly NBStrict \/ KF_F25: the strict clause may fail only if every completed waker still
\* has an Assert in flight at that step.
NBNothing == pcF = "L2" /\ pcF' = "idle"
KF_F25 == \A w \in W : complete[w] => \E g \in G : T(g) = w /\ InAssert(g)
NBStrict == [][NBNothing => \A w \in W : ~complete[w]]_vars
NBStrictOrF25 == [][NBNothing => ((\A w \in W : ~complete[w]) \/ KF_F25)]_vars
\* after Done returned: nothing queued, no sleep state, no waker goroutine about to write the sleeper,
\* no waker still points to it (so each can be attached to a new sleeper by AddWaker's CAS / enqueue)
AfterDone == (pcF = "finished") =>
               /\ shared = <<>> /\ local = <<>> /\ waitingG = 0 /\ ~parked
               /\ \A g \in G : pcG[g] \notin {"E1", "E2", "E5"} /\ (pcG[g] = "E4" => gg[g] # waitingG)
               /\ \A w \in W : ws[w] # "slp"
AfterDoneStable == [][pcF = "finished" => (pcF' = "finished" /\ shared' = <<>> /\ waitingG' = 0 /\ local' = <<>>)]_vars
\* a blocking Fetch returns if a completed assertion stays unconsumed; Done returns
FetchLive == \A w \in W : (Fetching /\ fblock /\ complete[w]) ~> (~Fetching \/ ~complete[w])
DoneLive == inDone ~> pcF = "finished"

\* ---- implementation-level sanity (not part of C19)
GhostOK == \A w \in W : ghost[w] <=> ws[w] = "asserted"
ParkOK == /\ (waitingG = 2 => parked) /\ (parked <=> pcF = "parked")
          /\ (parked /\ waitingG # 2 => \E g \in G : pcG[g] = "E5")
          /\ Cardinality({g \in G : pcG[g] = "E5"}) <= 1
TypeOK == /\ ws \in [W -> {"nil", "slp", "asserted"}] /\ waitingG \in 0..2
          /\ RangeOf(shared) \subseteq W /\ RangeOf(local) \subseteq W
\* queued wakers are not attached-idle: a waker on a list is asserted or cleared, never "slp"
QueuedNotSlp == \A w \in RangeOf(shared) \cup RangeOf(local) : ws[w] # "slp"
====
