---- MODULE GraphSleepProp ----
(* The C19 P-spec (monitor SleepMon) run over the COMPLETE reachable graph of
   the real Sleeper/Waker as explored by the gate scheduler: TLC explores the
   product of the real-code graph with the monitor, i.e. every path of the
   real graph, not only an edge cover.  graph.ndjson: line i = node i =
   [out |-> << [dst |-> j, id |-> edge number, events |-> <<event records>>] ... >>].
   A state without successor (TLC deadlock) is an observation of the real code
   that the P-spec rejects; terminal nodes of the real graph stutter. *)
EXTENDS SleepMon, Json, TLC
CONSTANTS GNW, GPre, GPreQ, GInit
VARIABLES node, ei, k
gvars == <<node, ei, k, mvars>>
Adj == ndJsonDeserialize("graph.ndjson")
GInitP == node = GInit /\ ei = 0 /\ k = 0 /\ MStart(GNW, GPre, GPreQ)
Choose == /\ ei = 0 /\ \E j \in 1..Len(Adj[node].out) : ei' = j
          /\ k' = 0 /\ UNCHANGED <<node, mvars>>
Feed == /\ ei # 0 /\ k < Len(Adj[node].out[ei].events)
        /\ k' = k + 1 /\ UNCHANGED <<node, ei>>
        /\ LET ev == Adj[node].out[ei].events[k + 1] IN
             CASE ev.ev = "call" -> MCall(ev)
               [] ev.ev = "obs" -> MObs(ev)
               [] ev.ev = "ret" -> MRet(ev)
               [] ev.ev = "reattach" -> MReattach(ev)
               [] ev.ev = "stuck" -> MStuck(ev)
Move == /\ ei # 0 /\ k = Len(Adj[node].out[ei].events)
        /\ node' = Adj[node].out[ei].dst /\ ei' = 0 /\ k' = 0 /\ UNCHANGED mvars
Term == ei = 0 /\ Len(Adj[node].out) = 0 /\ UNCHANGED gvars
GNext == Choose \/ Feed \/ Move \/ Term
GSpec == GInitP /\ [][GNext]_gvars
====
