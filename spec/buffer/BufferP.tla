---- MODULE BufferP ----
(* P-spec of C16: buffer objects are plain byte strings.

   abs[o] = [kind, b, room]   kind \in {"vv","view","prep"}; b = the byte string the
                              object stands for; room = bytes a prependable can still
                              take in front (0 for the other kinds)
   cut[o] = the byte values that a CapLength on o (or on the object o was derived
            from) has put beyond the cap.  Drivers use pairwise distinct byte values
            for everything that is ever content or spare capacity, so a value
            identifies a byte.  "Beyond the cap" is physical: CapLength(m) takes a
            description `phys` of the object as the API shows it just before the
            call - the sequence of its views, each with its content b and the
            bytes ext that re-slicing it to its capacity would add - and excludes
            everything that lies after the m-th content byte: the rest of that
            view's content, that view's spare bytes, and every later view with its
            spare bytes (m = 0: everything).  Views before the cap point keep their
            spare capacity; those bytes are not beyond the cap.
            "A capped view cannot be re-extended": nothing reachable by re-slicing
            a view of o up to its capacity may be in cut[o].

   Every operation says what happens to the byte string, nothing about chunks:
   the only chunk-dependent operations (First, RemoveFirst) take the observed
   first chunk as a parameter and only require it to be a prefix.
   Calls the Go contract forbids (they panic: View.TrimFront / View.CapLength
   outside 0..len, Prepend(<0)) are not actions of this spec. *)
EXTENDS Integers, Sequences, FiniteSets
VARIABLES abs, cut
pvars == <<abs, cut>>

Clamp(n, lo, hi) == IF n < lo THEN lo ELSE IF n > hi THEN hi ELSE n
Drop(b, n) == SubSeq(b, n + 1, Len(b))
Take(b, n) == SubSeq(b, 1, n)
Range(b)   == {b[i] : i \in DOMAIN b}
IsPrefix(f, b) == Len(f) <= Len(b) /\ f = Take(b, Len(f))
AObj(k, b, room) == [kind |-> k, b |-> b, room |-> room]
Live == DOMAIN abs
Is(o, k) == o \in Live /\ abs[o].kind = k
Size(o) == Len(abs[o].b)

\* phys = <<[b |-> content, ext |-> spare bytes], ...>>: what lies after the m-th content byte
AllOf(phys, i) == UNION {Range(phys[j].b) \cup Range(phys[j].ext) : j \in i..Len(phys)}
RECURSIVE After(_, _, _)
After(phys, i, m) == IF i > Len(phys) THEN {}
                     ELSE IF m = 0 THEN AllOf(phys, i)
                     ELSE IF m > Len(phys[i].b) THEN After(phys, i + 1, m - Len(phys[i].b))
                     ELSE Range(Drop(phys[i].b, m)) \cup Range(phys[i].ext) \cup AllOf(phys, i + 1)

PInit == abs = <<>> /\ cut = <<>>

\* a fresh object built from caller-supplied bytes
PNew(k, b, room) == abs' = Append(abs, AObj(k, b, room)) /\ cut' = Append(cut, {})
\* an object derived from o: it inherits what has been excluded from o
PDerive(o, k, b) == abs' = Append(abs, AObj(k, b, 0)) /\ cut' = Append(cut, cut[o])

\* VectorisedView: every count is defined (negative = 0, beyond the size = the size)
PTrim(o, n) == /\ Is(o, "vv")
               /\ abs' = [abs EXCEPT ![o].b = Drop(@, Clamp(n, 0, Len(@)))]
               /\ UNCHANGED cut
\* a cap beyond the size does nothing at all (nothing is excluded either)
PCap(o, n, phys) ==
               /\ Is(o, "vv")
               /\ LET b == abs[o].b  m == Clamp(n, 0, Len(b)) IN
                    /\ abs' = [abs EXCEPT ![o].b = Take(b, m)]
                    /\ cut' = IF n > Len(b) THEN cut
                              ELSE [cut EXCEPT ![o] = @ \cup Range(Drop(b, m)) \cup After(phys, 1, m)]
\* RemoveFirst drops what First() shows: a prefix of k bytes
PRemoveFirst(o, k) == /\ Is(o, "vv") /\ 0 <= k /\ k <= Size(o)
                      /\ abs' = [abs EXCEPT ![o].b = Drop(@, k)]
                      /\ UNCHANGED cut
PClone(o)   == Is(o, "vv") /\ PDerive(o, "vv", abs[o].b)
PFlatten(o) == Is(o, "vv") /\ PDerive(o, "view", abs[o].b)
PFirst(o, f) == Is(o, "vv") /\ IsPrefix(f, abs[o].b) /\ PDerive(o, "view", f)

\* View: counts outside 0..len are contract violations (no action)
PWTrim(o, n) == /\ Is(o, "view") /\ 0 <= n /\ n <= Size(o)
                /\ abs' = [abs EXCEPT ![o].b = Drop(@, n)]
                /\ UNCHANGED cut
PWCap(o, n, phys) ==
                /\ Is(o, "view") /\ 0 <= n /\ n <= Size(o)
                /\ LET b == abs[o].b IN
                     /\ abs' = [abs EXCEPT ![o].b = Take(b, n)]
                     /\ cut' = [cut EXCEPT ![o] = @ \cup Range(Drop(b, n)) \cup After(phys, 1, n)]
PToVV(o)   == Is(o, "view") /\ PDerive(o, "vv", abs[o].b)
PToPrep(o) == Is(o, "view") /\ PDerive(o, "prep", abs[o].b)      \* entirely used: room 0

\* Prependable: Prepend(n) hands out the n bytes in front iff they fit; the caller
\* fills them with `data`.  isnil = the call returned nil (for n = 0 nil and empty
\* mean the same zero bytes: Prepend(0) on a Prependable made from a nil View
\* returns nil, on any other one an empty slice).
PPrepend(o, n, data, isnil) ==
    /\ Is(o, "prep") /\ n >= 0 /\ Len(data) = n
    /\ UNCHANGED cut
    /\ IF n <= abs[o].room
         THEN (n > 0 => ~isnil) /\ abs' = [abs EXCEPT ![o].b = data \o @, ![o].room = @ - n]
         ELSE isnil /\ UNCHANGED abs
PPView(o) == Is(o, "prep") /\ PDerive(o, "view", abs[o].b)
====
