---- MODULE Buffer ----
(* I-spec of C16: the memory model behind pkg/buffer (view.go, prependable.go),
   composed action by action with the P-spec BufferP (abs, cut).

   mem   : sequence of byte arrays (identity = index).  mem[1] is the empty array
           that nil slices point to.  Arrays never change except through the
           window handed out by Prepend.
   lmem  : sequence of []View backing arrays (identity = index); each cell is a
           view header.  lmem[1] = nil list, lmem[2] = the caller's scratch
           `[ScratchCap]View` passed to Clone(buffer).
   a Go slice header is [a, lo, hi, cap]: array a, cells lo+1..hi visible,
           cells hi+1..cap reachable by re-slicing (lo/hi/cap are absolute
           0-based Go offsets into the array).
   obj[o]: [kind, a, lo, hi, cap, n]
           "vv"   VectorisedView{views: lmem[a][lo:hi:cap], size: n}
           "view" View = mem[a][lo:hi:cap]                      (n unused = 0)
           "prep" Prependable{buf: mem[a][lo:hi:cap], usedIdx: n}
   nextb : last byte value handed out (content bytes are pairwise distinct).

   Go slice expressions are transcribed with Slice2/Slice3; a slice expression
   that would panic makes the operation Undefined (the action is disabled: the
   contract forbids the call).  Variant = "go" is the code as written; the other
   variants ("twoindex": View.CapLength without the third index, "sharelist":
   Clone returning the receiver's list, "boundary": `>` for `>=` in the CapLength
   loop, so a cap that lands exactly on the end of a chunk leaves that chunk's
   capacity alone) exist only to show that the invariants can fail. *)
EXTENDS BufferP
CONSTANTS Variant, ScratchCap, MaxObj
VARIABLES mem, lmem, obj, nextb
ivars == <<mem, lmem, obj, nextb>>
vars  == <<abs, cut, mem, lmem, obj, nextb>>

Hdr(a, lo, hi, cap) == [a |-> a, lo |-> lo, hi |-> hi, cap |-> cap]
NilArr  == 1
NilList == 1
Scratch == 2
NilHdr  == Hdr(NilArr, 0, 0, 0)
HLen(h) == h.hi - h.lo
HCap(h) == h.cap - h.lo
Bytes(h)  == SubSeq(mem[h.a], h.lo + 1, h.hi)
Beyond(h) == {mem[h.a][k] : k \in (h.hi + 1)..h.cap}     \* what h[:cap(h)] adds to h

ExtSeq(h) == [k \in 1..(h.cap - h.hi) |-> mem[h.a][h.hi + k]]
PhysView(h) == [b |-> Bytes(h), ext |-> ExtSeq(h)]

\* h[i:j] and h[i:j:k]; Go panics unless 0 <= i <= j <= k <= cap(h)
SliceDef(h, i, j, k) == 0 <= i /\ i <= j /\ j <= k /\ k <= HCap(h)
Slice2(h, i, j)    == [h EXCEPT !.lo = h.lo + i, !.hi = h.lo + j]
Slice3(h, i, j, k) == [h EXCEPT !.lo = h.lo + i, !.hi = h.lo + j, !.cap = h.lo + k]

\* func (v *View) TrimFront(count int) { *v = (*v)[count:] }
ViewTrimDef(h, count) == SliceDef(h, count, HLen(h), HCap(h))
ViewTrim(h, count)    == Slice2(h, count, HLen(h))
\* func (v *View) CapLength(length int) { *v = (*v)[:length:length] }
\* Go itself accepts length <= cap(v) (it would GROW the view); the documented
\* contract is "reduces the length", so length > len(v) is Undefined here.
ViewCapDef(h, length) == 0 <= length /\ length <= HLen(h)
ViewCap(h, length)    == IF Variant = "twoindex" THEN Slice2(h, 0, length)
                                                 ELSE Slice3(h, 0, length, length)

\* (the count-taking actions below are enabled for counts up to size+1 only: the
\* exploration window; a larger count does what size+1 does)
OObj(k, a, lo, hi, cap, n) == [kind |-> k, a |-> a, lo |-> lo, hi |-> hi, cap |-> cap, n |-> n]
IsO(o, k) == o \in DOMAIN obj /\ obj[o].kind = k
HdrOf(o)  == Hdr(obj[o].a, obj[o].lo, obj[o].hi, obj[o].cap)
Room      == Len(obj) < MaxObj
AddObj(r) == obj' = Append(obj, r)

\* ------------------------------------------------------------ VectorisedView
\* working copy of the receiver: the backing array of vv.views, the slice bounds, size
VVS(o) == [cells |-> lmem[obj[o].a], lo |-> obj[o].lo, hi |-> obj[o].hi, n |-> obj[o].n]
NViews(s) == s.hi - s.lo
CommitVV(o, s) == /\ lmem' = [lmem EXCEPT ![obj[o].a] = s.cells]
                  /\ obj' = [obj EXCEPT ![o].lo = s.lo, ![o].hi = s.hi, ![o].n = s.n]

\* func (vv *VectorisedView) RemoveFirst()
RemoveFirstS(s) == IF NViews(s) = 0 THEN s
                   ELSE [s EXCEPT !.n = @ - HLen(s.cells[s.lo + 1]),     \* vv.size -= len(vv.views[0])
                                  !.lo = @ + 1]                            \* vv.views = vv.views[1:]
\* func (vv *VectorisedView) TrimFront(count int)
RECURSIVE TrimS(_, _)
TrimS(s, count) ==
    IF count > 0 /\ NViews(s) > 0                                        \* for count > 0 && len(vv.views) > 0
    THEN LET v == s.cells[s.lo + 1] IN
         IF count < HLen(v)
         THEN [s EXCEPT !.n = @ - count,                                 \* vv.size -= count
                        !.cells[s.lo + 1] = ViewTrim(v, count)]          \* vv.views[0].TrimFront(count); return
         ELSE TrimS(RemoveFirstS(s), count - HLen(v))                    \* count -= len(vv.views[0]); vv.RemoveFirst()
    ELSE s
\* func (vv *VectorisedView) CapLength(length int): the loop over i (absolute cell index)
RECURSIVE CapLoop(_, _, _, _)
CapLoop(s, i, end, length) ==
    IF i >= end THEN s                                                   \* range exhausted
    ELSE LET v == s.cells[i + 1] IN
         IF (IF Variant = "boundary" THEN HLen(v) > length ELSE HLen(v) >= length)   \* if len(*v) >= length
         THEN IF length = 0
              THEN [s EXCEPT !.hi = i]                                   \* vv.views = vv.views[:i]
              ELSE [s EXCEPT !.cells[i + 1] = ViewCap(v, length),        \* v.CapLength(length)
                             !.hi = i + 1]                               \* vv.views = vv.views[:i+1]
         ELSE CapLoop(s, i + 1, end, length - HLen(v))                   \* length -= len(*v)
CapS(s, length0) ==
    LET length == IF length0 < 0 THEN 0 ELSE length0 IN
    IF s.n < length THEN s
    ELSE CapLoop([s EXCEPT !.n = length], s.lo, s.hi, length)

RECURSIVE Cat(_, _, _)
Cat(cells, i, hi) == IF i > hi THEN <<>> ELSE Bytes(cells[i]) \o Cat(cells, i + 1, hi)
FlatVV(o)  == Cat(lmem[obj[o].a], obj[o].lo + 1, obj[o].hi)
FirstHdr(o) == IF obj[o].hi - obj[o].lo = 0 THEN NilHdr ELSE lmem[obj[o].a][obj[o].lo + 1]
Zeros(n) == [k \in 1..n |-> 0]

\* the object as the API shows it: its views, each with content and spare bytes
PhysOf(o) == IF obj[o].kind = "vv"
             THEN [i \in 1..(obj[o].hi - obj[o].lo) |-> PhysView(lmem[obj[o].a][obj[o].lo + i])]
             ELSE <<PhysView(HdrOf(o))>>

VTrim(o, n) == /\ IsO(o, "vv") /\ n <= obj[o].n + 1
               /\ CommitVV(o, TrimS(VVS(o), n))
               /\ UNCHANGED <<mem, nextb>>
               /\ PTrim(o, n)
VCap(o, n)  == /\ IsO(o, "vv") /\ n <= obj[o].n + 1
               /\ CommitVV(o, CapS(VVS(o), n))
               /\ UNCHANGED <<mem, nextb>>
               /\ PCap(o, n, PhysOf(o))
VRemoveFirst(o) == /\ IsO(o, "vv")
                   /\ CommitVV(o, RemoveFirstS(VVS(o)))
                   /\ UNCHANGED <<mem, nextb>>
                   /\ PRemoveFirst(o, HLen(FirstHdr(o)))
\* func (vv VectorisedView) Clone(buffer []View): append(buffer[:0], vv.views...)
\* u = 0: buffer = nil;  u = 1: buffer = scratch[:] (the contract: nobody else uses it)
VClone(o, u) ==
    /\ IsO(o, "vv") /\ Room
    /\ u = 1 => \A p \in DOMAIN obj : ~(obj[p].kind = "vv" /\ obj[p].a = Scratch)
    /\ LET k == obj[o].hi - obj[o].lo
           src == SubSeq(lmem[obj[o].a], obj[o].lo + 1, obj[o].hi) IN
       IF Variant = "sharelist"
       THEN AddObj(obj[o]) /\ UNCHANGED lmem
       ELSE IF u = 1 /\ k <= ScratchCap                                     \* fits: written in place
       THEN /\ lmem' = [lmem EXCEPT ![Scratch] = [i \in 1..ScratchCap |-> IF i <= k THEN src[i] ELSE @[i]]]
            /\ AddObj(OObj("vv", Scratch, 0, k, ScratchCap, obj[o].n))
       ELSE IF u = 0 /\ k = 0                                               \* append(nil[:0]) = nil
       THEN AddObj(OObj("vv", NilList, 0, 0, 0, obj[o].n)) /\ UNCHANGED lmem
       ELSE /\ lmem' = Append(lmem, src)                                    \* fresh array (its spare capacity is the runtime's business)
            /\ AddObj(OObj("vv", Len(lmem) + 1, 0, k, k, obj[o].n))
    /\ UNCHANGED <<mem, nextb>>
    /\ PClone(o)
\* func (vv VectorisedView) ToView(): make([]byte, 0, vv.size) + append of every view
VToView(o) ==
    /\ IsO(o, "vv") /\ Room
    /\ LET f == FlatVV(o)
           c == IF Len(f) > obj[o].n THEN Len(f) ELSE obj[o].n IN
         /\ mem' = Append(mem, f \o Zeros(c - Len(f)))
         /\ AddObj(OObj("view", Len(mem) + 1, 0, Len(f), c, 0))
    /\ UNCHANGED <<lmem, nextb>>
    /\ PFlatten(o)
\* func (vv VectorisedView) First()
VFirst(o) == /\ IsO(o, "vv") /\ Room
             /\ LET h == FirstHdr(o) IN
                  /\ AddObj(OObj("view", h.a, h.lo, h.hi, h.cap, 0))
                  /\ PFirst(o, Bytes(h))
             /\ UNCHANGED <<mem, lmem, nextb>>

\* ---------------------------------------------------------------------- View
WTrim(o, n) == /\ IsO(o, "view") /\ ViewTrimDef(HdrOf(o), n)
               /\ LET h == ViewTrim(HdrOf(o), n) IN obj' = [obj EXCEPT ![o].lo = h.lo, ![o].hi = h.hi, ![o].cap = h.cap]
               /\ UNCHANGED <<mem, lmem, nextb>>
               /\ PWTrim(o, n)
WCap(o, n)  == /\ IsO(o, "view") /\ ViewCapDef(HdrOf(o), n)
               /\ LET h == ViewCap(HdrOf(o), n) IN obj' = [obj EXCEPT ![o].lo = h.lo, ![o].hi = h.hi, ![o].cap = h.cap]
               /\ UNCHANGED <<mem, lmem, nextb>>
               /\ PWCap(o, n, PhysOf(o))
\* func (v View) ToVectorisedView(): NewVectorisedView(len(v), []View{v})
WToVV(o) == /\ IsO(o, "view") /\ Room
            /\ lmem' = Append(lmem, <<HdrOf(o)>>)
            /\ AddObj(OObj("vv", Len(lmem) + 1, 0, 1, 1, HLen(HdrOf(o))))
            /\ UNCHANGED <<mem, nextb>>
            /\ PToVV(o)
\* func NewPrependableFromView(v View): Prependable{buf: v, usedIdx: 0}
WToPrep(o) == /\ IsO(o, "view") /\ Room
              /\ AddObj([obj[o] EXCEPT !.kind = "prep", !.n = 0])
              /\ UNCHANGED <<mem, lmem, nextb>>
              /\ PToPrep(o)

\* --------------------------------------------------------------- Prependable
\* func (p Prependable) View(): p.buf[p.usedIdx:]
PrepView(o) == Slice2(HdrOf(o), obj[o].n, HLen(HdrOf(o)))
\* func (p *Prependable) Prepend(size int) []byte; size < 0 panics in the slice expression
Prepend(o, n) ==
    /\ IsO(o, "prep") /\ n >= 0 /\ n <= obj[o].n + 1
    /\ IF n > obj[o].n                                                      \* if size > p.usedIdx { return nil }
       THEN UNCHANGED ivars /\ PPrepend(o, n, [k \in 1..n |-> nextb + k], TRUE)
       ELSE LET used == obj[o].n - n                                        \* p.usedIdx -= size
                base == obj[o].lo + used IN                                 \* window = p.View()[:size:size]; the caller fills it
            /\ obj' = [obj EXCEPT ![o].n = used]
            /\ mem' = [mem EXCEPT ![obj[o].a] = [k \in DOMAIN @ |-> IF k > base /\ k <= base + n THEN nextb + (k - base) ELSE @[k]]]
            /\ nextb' = nextb + n
            /\ UNCHANGED lmem
            /\ PPrepend(o, n, [k \in 1..n |-> nextb + k], FALSE)
PView(o) == /\ IsO(o, "prep") /\ Room
            /\ LET h == PrepView(o) IN AddObj(OObj("view", h.a, h.lo, h.hi, h.cap, 0))
            /\ UNCHANGED <<mem, lmem, nextb>>
            /\ PPView(o)

\* --------------------------------------------------------- the first object
RECURSIVE SumTo(_, _)
SumTo(s, i) == IF i = 0 THEN 0 ELSE s[i] + SumTo(s, i - 1)
SumSeq(s) == SumTo(s, Len(s))
\* A VectorisedView over Len(lens) chunks of fresh content bytes.
\* sl = 0: every chunk is its own array of exactly lens[i] bytes (cap = len).
\* sl > 0: the chunks are carved out of ONE backing array, chunk i followed by sl spare
\*         bytes of its own (distinct non-zero values): view i = arr[off : off+len : off+len+sl],
\*         so every chunk has capacity beyond its length, and no chunk's capacity reaches
\*         into another chunk's bytes.
RECURSIVE Carve(_, _, _, _)
Carve(lens, i, sl, L) ==        \* the backing array from chunk i on
    IF i > Len(lens) THEN <<>>
    ELSE [j \in 1..lens[i] |-> nextb + SumTo(lens, i - 1) + j]
         \o [j \in 1..sl |-> nextb + L + (i - 1) * sl + j]
         \o Carve(lens, i + 1, sl, L)
Off(lens, i, sl) == SumTo(lens, i - 1) + (i - 1) * sl
NewVV(lens, sl) ==
    /\ Len(obj) = 0
    /\ sl > 0 => Len(lens) > 0
    /\ LET k == Len(lens)  L == SumSeq(lens) IN
         /\ mem' = IF sl = 0 THEN mem \o [i \in 1..k |-> [j \in 1..lens[i] |-> nextb + SumTo(lens, i - 1) + j]]
                             ELSE Append(mem, Carve(lens, 1, sl, L))
         /\ IF k = 0 THEN UNCHANGED lmem /\ AddObj(OObj("vv", NilList, 0, 0, 0, 0))
            ELSE /\ lmem' = Append(lmem, [i \in 1..k |->
                                IF sl = 0 THEN Hdr(Len(mem) + i, 0, lens[i], lens[i])
                                ELSE Hdr(Len(mem) + 1, Off(lens, i, sl), Off(lens, i, sl) + lens[i], Off(lens, i, sl) + lens[i] + sl)])
                 /\ AddObj(OObj("vv", Len(lmem) + 1, 0, k, k, L))
         /\ nextb' = nextb + L + k * sl
         /\ PNew("vv", [j \in 1..L |-> nextb + j], 0)
\* func NewView(size int), filled by the caller: a View of n bytes over its own array of
\* n + sl bytes (NewView(n+sl)[:n]: sl spare bytes of capacity)
NewView(n, sl) ==
              /\ Len(obj) = 0
              /\ mem' = Append(mem, [j \in 1..(n + sl) |-> nextb + j])
              /\ AddObj(OObj("view", Len(mem) + 1, 0, n, n + sl, 0))
              /\ nextb' = nextb + n + sl
              /\ UNCHANGED lmem
              /\ PNew("view", [j \in 1..n |-> nextb + j], 0)
\* func NewPrependable(size int)
NewPrep(r) == /\ Len(obj) = 0
              /\ mem' = Append(mem, Zeros(r))
              /\ AddObj(OObj("prep", Len(mem) + 1, 0, r, r, r))
              /\ UNCHANGED <<lmem, nextb>>
              /\ PNew("prep", <<>>, r)

IInit == /\ mem = << <<>> >>
         /\ lmem = << <<>>, [i \in 1..ScratchCap |-> NilHdr] >>
         /\ obj = <<>>
         /\ nextb = 0

\* ------------------------------------------------------------------ properties
FlatOf(o) == CASE obj[o].kind = "vv"   -> FlatVV(o)
               [] obj[o].kind = "view" -> Bytes(HdrOf(o))
               [] obj[o].kind = "prep" -> Bytes(PrepView(o))
SizeOf(o) == CASE obj[o].kind = "vv"   -> obj[o].n                       \* Size()
               [] obj[o].kind = "view" -> HLen(HdrOf(o))                 \* len(v)
               [] obj[o].kind = "prep" -> HLen(HdrOf(o)) - obj[o].n      \* UsedLength()
ExtOf(o)  == CASE obj[o].kind = "vv"   -> UNION {Beyond(lmem[obj[o].a][i]) : i \in (obj[o].lo + 1)..obj[o].hi}
               [] obj[o].kind = "view" -> Beyond(HdrOf(o))
               [] obj[o].kind = "prep" -> {}

\* the implementation state stands for the abstract byte strings, sizes in step
Refines == /\ Len(obj) = Len(abs)
           /\ \A o \in DOMAIN obj :
                /\ obj[o].kind = abs[o].kind
                /\ FlatOf(o) = abs[o].b
                /\ SizeOf(o) = Len(abs[o].b)
                /\ obj[o].kind = "prep" => obj[o].n = abs[o].room
                /\ obj[o].kind = "vv" => IsPrefix(Bytes(FirstHdr(o)), abs[o].b)
\* no byte excluded by a CapLength can be reached again by re-slicing a view to its capacity
NoReExtend == \A o \in DOMAIN obj : ExtOf(o) \cap cut[o] = {}
\* an object whose abstract value a step leaves alone (every object but the receiver,
\* clones included) keeps its content
CloneIndep == [][\A o \in DOMAIN obj : abs'[o] = abs[o] => FlatOf(o)' = FlatOf(o)]_vars
====
