---- MODULE MCBuffer ----
(* Closed model for C16: one first object (a VectorisedView over any chunking of
   <= MaxLen position-distinct bytes into <= MaxChunks chunks, empty chunks
   included - every chunk its own exact array (slack 0) or all chunks carved from one
   backing array with sl \in Slacks spare bytes of capacity each - or a View of <= MaxLen
   bytes with sl spare bytes, or a Prependable with <= MaxRes bytes of room) and then EVERY
   operation sequence on it and on the objects derived from it (<= MaxObj
   objects), with every count from -1 (0 for View, whose contract forbids
   negative counts) to size+1.  Every operation either shrinks something or uses
   up an object slot / prependable room, so the state space is finite without any
   bound on the length of the operation sequence. *)
EXTENDS Buffer
CONSTANTS MaxLen, MaxChunks, MaxRes, Slacks

Chunkings == {s \in UNION {[1..k -> 0..MaxLen] : k \in 0..MaxChunks} : SumSeq(s) <= MaxLen}

MCInit == PInit /\ IInit

Counts == -1..(MaxLen + 1)
PCounts == 0..(MaxRes + 1)
MCNext ==
    \/ \E lens \in Chunkings, sl \in Slacks : NewVV(lens, sl)
    \/ \E n \in 0..MaxLen, sl \in Slacks : NewView(n, sl)
    \/ \E r \in 0..MaxRes : NewPrep(r)
    \/ \E o \in 1..MaxObj :
         \/ \E n \in Counts : VTrim(o, n) \/ VCap(o, n) \/ WTrim(o, n) \/ WCap(o, n)
         \/ VRemoveFirst(o) \/ VToView(o) \/ VFirst(o)
         \/ \E u \in {0, 1} : VClone(o, u)
         \/ WToVV(o) \/ WToPrep(o)
         \/ \E n \in PCounts : Prepend(o, n)
         \/ PView(o)
MCSpec == MCInit /\ [][MCNext]_vars
====
