---- MODULE TraceBuffer ----
(* Trace validation for C16 against the P-spec BufferP only (no memory model).
   One event per operation of the real pkg/buffer API (harness/bufferd, mode
   "random"); the event name is the operation, `o` the receiver (slot number in
   creation order), `n` the count, and `objs` what the exported API shows of
   EVERY live object after the call:
       kind, b = flattened bytes (ToView() / the View / Prependable.View()),
       bv = concatenation of Views(), size = Size() / len / UsedLength(),
       ext = the bytes gained by re-slicing every view up to its capacity,
       views = the same per view: <<[b, ext], ...>> (what CapLength needs to know to say
       which bytes lie beyond the cap; taken from the observation BEFORE the call).
   After every step every object must be exactly the byte string the P-spec
   says (so objects the call did not address - clones in particular - must not
   have moved), sizes must be the lengths, and no byte cut off by a CapLength
   may show up in ext.  A `panic` event matches no action: rejected. *)
EXTENDS BufferP, TraceIO
VARIABLE prev            \* objs of the last event: the objects as seen before the next call
tvars == <<abs, cut, l, prev>>

RECURSIVE CatAll(_, _)
CatAll(cs, i) == IF i > Len(cs) THEN <<>> ELSE cs[i] \o CatAll(cs, i + 1)
RECURSIVE CatB(_, _)
CatB(vs, i) == IF i > Len(vs) THEN <<>> ELSE vs[i].b \o CatB(vs, i + 1)
RECURSIVE CatE(_, _)
CatE(vs, i) == IF i > Len(vs) THEN <<>> ELSE vs[i].ext \o CatE(vs, i + 1)

Obs == LET e == Ev IN
       /\ Len(e.objs) = Len(abs')
       /\ \A s \in DOMAIN abs' :
            LET x == e.objs[s] IN
            /\ x.kind = abs'[s].kind
            /\ x.b = abs'[s].b
            /\ x.bv = abs'[s].b
            /\ x.size = Len(abs'[s].b)
            /\ SeqToSet(x.ext) \cap cut'[s] = {}
            /\ x.kind # "prep" => (CatB(x.views, 1) = x.bv /\ CatE(x.views, 1) = x.ext)   \* the log is consistent
       /\ prev' = e.objs

TInit == PInit /\ l = 1 /\ prev = <<>> /\ HWInit
Reset == IsEvent("reset") /\ abs' = <<>> /\ cut' = <<>> /\ prev' = <<>>

ENewVV        == IsEvent("NewVV")        /\ PNew("vv", CatAll(Ev.chunks, 1), 0)   /\ Obs
ENewView      == IsEvent("NewView")      /\ PNew("view", Ev.data, 0)             /\ Obs
ENewPrep      == IsEvent("NewPrep")      /\ Ev.n >= 0 /\ PNew("prep", <<>>, Ev.n) /\ Obs
EVTrim        == IsEvent("VTrim")        /\ PTrim(Ev.o, Ev.n)                     /\ Obs
EVCap         == IsEvent("VCap")         /\ PCap(Ev.o, Ev.n, prev[Ev.o].views)   /\ Obs
EVRemoveFirst == IsEvent("VRemoveFirst") /\ PRemoveFirst(Ev.o, Ev.k)              /\ Obs   \* k = len(First()) before the call
EVClone       == IsEvent("VClone")       /\ PClone(Ev.o)                          /\ Obs
EVToView      == IsEvent("VToView")      /\ PFlatten(Ev.o)                        /\ Obs
EVFirst       == IsEvent("VFirst")       /\ PFirst(Ev.o, Ev.f)                    /\ Obs   \* f = the bytes of the returned view
EWTrim        == IsEvent("WTrim")        /\ PWTrim(Ev.o, Ev.n)                    /\ Obs
EWCap         == IsEvent("WCap")         /\ PWCap(Ev.o, Ev.n, prev[Ev.o].views)  /\ Obs
EWToVV        == IsEvent("WToVV")        /\ PToVV(Ev.o)                           /\ Obs
EWToPrep      == IsEvent("WToPrep")      /\ PToPrep(Ev.o)                         /\ Obs
EPrepend      == /\ IsEvent("Prepend")
                 /\ PPrepend(Ev.o, Ev.n, IF Ev.isnil THEN [k \in 1..Ev.n |-> 0] ELSE Ev.data, Ev.isnil)
                 /\ ~Ev.isnil => Ev.wlen = Ev.n          \* the window is exactly the space asked for
                 /\ Obs
EPView        == IsEvent("PView")        /\ PPView(Ev.o)                          /\ Obs

TNext == \/ Reset \/ ENewVV \/ ENewView \/ ENewPrep \/ EVTrim \/ EVCap \/ EVRemoveFirst \/ EVClone \/ EVToView
         \/ EVFirst \/ EWTrim \/ EWCap \/ EWToVV \/ EWToPrep \/ EPrepend \/ EPView
TSpec == TInit /\ [][TNext]_tvars
====
