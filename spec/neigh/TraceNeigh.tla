---- MODULE TraceNeigh ----
(* C12.  P-spec of neighbour resolution as a trace validator over wire + API
   observations of one host with one resolution-required NIC (harness/neighd).

   Events (addresses and MACs are dotted-byte strings, t = microseconds of the
   harness clock, used as LOWER bounds only):
     reset    own (list of own unicast addresses), mac (own link address)
     inj      an injected ARP / NDP message as the harness built it:
              cls "req"|"rep"|"other", valid, v, target, sip (sender protocol
              address), smac (sender link address), sip2 (NA: IPv6 source if it
              differs from the target), rmac (link-level source)
     injdone  the synchronous ingress path returned
     add / adddone     Stack.AddLinkAddress(addr, mac)
     fill / filldone   n further neighbours through AddLinkAddress
     call     id, kind write|cwrite|connect|getlink, h (next hop), dport
     ret      id, err, mac (getlink)
     emit     decoded by the harness's own decoder in the link tap, with the
              route's remote link address rmac = "the Ethernet destination":
              cls "req" (ARP request / neighbour solicitation for h),
                  "rep" (ARP reply / neighbour advertisement),
                  "data" (UDP/TCP packet for next hop h), "other"
     note, end

   Abstract state: nb = next hop -> [st unknown|resolving|known|failed, mac,
   opt (link addresses the stack MAY have learned: requests not addressed to
   it), nreq, tlast, late, cre, tlo, thi, tfail];  owed = replies the stack
   must emit before injdone;  plearn = mappings being learned by the running
   inject/add;  pend = calls in flight with the link addresses that were
   current for their next hop at some moment of the call (okm) and whether
   their next hop was failed at some moment of the call (fok).

   AnswerIff   inj/injdone + Reply.   Learn, NoEarlyData, NeverWrong: Data, Ret.
   Resolve     Request (broadcast, own sender fields, >= GapUS apart, at most 3
               per resolution), Fail (only after the 3rd request + GapUS), Ret. *)
EXTENDS TraceIO, FiniteSets
VARIABLES own, mymac, nb, owed, plearn, pend, sent, ncre
tvars == <<l, own, mymac, nb, owed, plearn, pend, sent, ncre>>

Cap == 512              \* entries of the cache: a mapping may be forgotten once Cap others were created after it
\* entry life time 60 s, with margins against scheduling jitter: an entry MAY be gone (a new request is legal) once more than
\* MayExpireUS passed since the earliest moment it can have been created; it MUST be gone (using it / answering from it is
\* illegal) once more than MustExpireUS passed since the latest moment it can have been created or confirmed.
MayExpireUS == 55000000
MustExpireUS == 61000000
GapUS == 900000         \* lower bound used for "about 1 s" between requests
Budget == 3
Bcast == "255.255.255.255.255.255"
NoLink == "no remote link address"

Unknown == [st |-> "unknown", mac |-> "", opt |-> {}, nreq |-> 0, tlast |-> 0, late |-> FALSE,
            cre |-> 0, tlo |-> 0, thi |-> 0, tfail |-> 0, t1 |-> 0]
Nb(h) == IF h \in DOMAIN nb THEN nb[h] ELSE Unknown
Put(h, r) == (h :> r) @@ nb
Fld(r, f, d) == IF f \in DOMAIN r THEN r[f] ELSE d

TInit == /\ l = 1 /\ own = {} /\ mymac = "" /\ nb = <<>> /\ owed = {} /\ plearn = {} /\ pend = <<>> /\ sent = {} /\ ncre = 0
         /\ HWInit

Reset == /\ IsEvent("reset")
         /\ own' = SeqToSet(Ev.own) /\ mymac' = Ev.mac
         /\ nb' = <<>> /\ owed' = {} /\ plearn' = {} /\ pend' = <<>> /\ sent' = {} /\ ncre' = 0

\* entry may legitimately be gone: ring overflow or age
Stale(r, t) == ncre - r.cre >= Cap \/ t - r.tlo > MayExpireUS
\* entry certainly expired for a lookup that starts at t
Expired(r, t) == r.st = "known" /\ r.thi >= 0 /\ t - r.thi > MustExpireUS
\* a failed (negative) entry was created before the first request of its resolution (t1) was emitted
FailedExpired(r, t) == r.st = "failed" /\ t - r.t1 > MustExpireUS

\* ------------------------------------------------------------------ AnswerIff / Learn
Inj == /\ IsEvent("inj") /\ owed = {} /\ plearn = {}
       /\ LET e == Ev
              lrn(h, def) == [h |-> h, mac |-> e.smac, def |-> def, t |-> e.t]
              \* NDP message without the source / target link-layer address option: the link address would have to be
              \* taken from the frame; RFC 4861 does not require a receiver to do so: learning is allowed, not required
              must == ~Fld(e, "noopt", FALSE)
          IN IF ~e.valid \/ e.cls = "other" THEN owed' = {} /\ plearn' = {}
             ELSE IF e.cls = "req"
             THEN IF e.target \in own
                  THEN /\ owed' = {[v |-> e.v, target |-> e.target, smac |-> e.smac, sip |-> e.sip, rmac |-> e.rmac]}
                       /\ plearn' = {lrn(e.sip, must)}
                  ELSE /\ owed' = {} /\ plearn' = {lrn(e.sip, FALSE)}
             \* a reply "for X": X is the sender protocol address of an ARP reply / the TARGET field of a neighbour
             \* advertisement (sip); the IPv6 source of the advertisement (sip2, when different) may be learned as well
             ELSE /\ owed' = {}
                  /\ plearn' = {lrn(e.sip, must)} \cup (IF Fld(e, "sip2", "") # "" THEN {lrn(e.sip2, FALSE)} ELSE {})
       /\ ncre' = ncre + Cardinality(plearn')      \* every learned mapping creates at most one entry
       /\ UNCHANGED <<own, mymac, nb, pend, sent>>

Add == /\ IsEvent("add") /\ owed = {} /\ plearn = {}
       /\ plearn' = {[h |-> Ev.addr, mac |-> Ev.mac, def |-> TRUE, t |-> Ev.t]}
       /\ ncre' = ncre + 1
       /\ UNCHANGED <<own, mymac, nb, owed, pend, sent>>

\* the learning takes effect somewhere between inj and injdone (silent step)
DoLearn == \E p \in plearn :
  /\ plearn' = plearn \ {p}
  /\ LET r == Nb(p.h)
         same == r.st = "known" /\ r.mac = p.mac
         racing == r.st = "resolving" \/ \E i \in DOMAIN pend : pend[i].h = p.h
     IN IF p.def
        THEN /\ nb' = Put(p.h, [r EXCEPT !.st = "known", !.mac = p.mac, !.opt = {},
                                        !.late = (r.late \/ racing),
                                        !.nreq = IF r.st = "resolving" THEN r.nreq ELSE 0,
                                        !.cre = IF same THEN r.cre ELSE ncre,
                                        !.tlo = IF same THEN r.tlo ELSE p.t,
                                        !.thi = -1])
             /\ pend' = [i \in DOMAIN pend |-> IF pend[i].h = p.h THEN [pend[i] EXCEPT !.okm = @ \cup {p.mac}] ELSE pend[i]]
        ELSE /\ nb' = Put(p.h, [r EXCEPT !.opt = @ \cup {p.mac}])
             /\ pend' = [i \in DOMAIN pend |-> IF pend[i].h = p.h THEN [pend[i] EXCEPT !.okm = @ \cup {p.mac}] ELSE pend[i]]
  /\ UNCHANGED <<l, own, mymac, owed, sent, ncre>>

Done == /\ (IsEvent("injdone") \/ IsEvent("adddone"))
        /\ owed = {} /\ plearn = {}                      \* exactly the owed reply was emitted, everything was learned
        /\ nb' = [h \in DOMAIN nb |-> IF nb[h].thi = -1 THEN [nb[h] EXCEPT !.thi = Ev.t] ELSE nb[h]]
        /\ UNCHANGED <<own, mymac, owed, plearn, pend, sent, ncre>>

Fill == /\ IsEvent("fill") /\ ncre' = ncre + Ev.n /\ UNCHANGED <<own, mymac, nb, owed, plearn, pend, sent>>

Reply == /\ IsEvent("emit") /\ Ev.cls = "rep"
         /\ Ev.ok /\ Ev.smac = mymac
         /\ \E o \in owed :
              /\ Ev.v = o.v /\ Ev.sip = o.target /\ Ev.tip = o.sip
              /\ IF o.v = 4 THEN Ev.tmac = o.smac /\ Ev.rmac \in {o.rmac, o.smac}
                 ELSE Ev.src = o.target /\ Ev.opt = 2 /\ Ev.rmac = o.rmac
              /\ owed' = owed \ {o}
         /\ UNCHANGED <<own, mymac, nb, plearn, pend, sent, ncre>>

\* ------------------------------------------------------------------ Resolve
Request ==
  /\ IsEvent("emit") /\ Ev.cls = "req"
  /\ Ev.ok /\ Ev.rmac = Bcast /\ Ev.grp /\ Ev.smac = mymac /\ Ev.sip \in own
  /\ LET h == Ev.h
         r == Nb(h)
         \* the entry was created by one of the calls in flight: not before the earliest of them began
         ts == {pend[i].t : i \in {j \in DOMAIN pend : pend[j].h = h}}
         t0 == IF ts = {} THEN 0 ELSE CHOOSE t \in ts : \A u \in ts : t <= u
         start == [r EXCEPT !.st = "resolving", !.mac = "", !.nreq = 1, !.tlast = Ev.t, !.late = FALSE,
                            !.cre = ncre + 1, !.tlo = t0, !.thi = 0, !.t1 = Ev.t]
         again == [r EXCEPT !.nreq = @ + 1, !.tlast = Ev.t]
     IN \/ /\ r.st = "unknown" /\ nb' = Put(h, start) /\ ncre' = ncre + 1
        \/ /\ r.st \in {"known", "failed", "resolving"} /\ Stale(r, Ev.t) /\ nb' = Put(h, start) /\ ncre' = ncre + 1
        \/ /\ r.st = "resolving" /\ r.nreq < Budget /\ Ev.t - r.tlast >= GapUS
           /\ nb' = Put(h, again) /\ ncre' = ncre
        \* the retry loop of a resolution that raced with the learning may send one more request
        \/ /\ r.st = "known" /\ r.late /\ r.nreq < Budget /\ (r.nreq = 0 \/ Ev.t - r.tlast >= GapUS)
           /\ nb' = Put(h, [again EXCEPT !.late = FALSE]) /\ ncre' = ncre
  /\ UNCHANGED <<own, mymac, owed, plearn, pend, sent>>

\* a request that the link refused to transmit (lost before the wire) may or may not count as an attempt of the budget:
\* Request above lets it count, this step lets it not count
RefusedRequest == /\ IsEvent("emit") /\ Ev.cls = "req" /\ Fld(Ev, "refused", FALSE)
                  /\ UNCHANGED <<own, mymac, nb, owed, plearn, pend, sent, ncre>>

\* resolution gives up: only after the whole budget was sent (silent step; time checked at use)
Fail == \E h \in DOMAIN nb :
  /\ nb[h].st = "resolving" /\ nb[h].nreq = Budget
  /\ nb' = [nb EXCEPT ![h].st = "failed", ![h].tfail = nb[h].tlast + GapUS]
  /\ pend' = [i \in DOMAIN pend |-> IF pend[i].h = h THEN [pend[i] EXCEPT !.fok = TRUE, !.tf = nb[h].tlast + GapUS] ELSE pend[i]]
  /\ UNCHANGED <<l, own, mymac, owed, plearn, sent, ncre>>

\* ------------------------------------------------------------------ NoEarlyData / NeverWrong
Data ==
  /\ IsEvent("emit") /\ Ev.cls = "data"
  /\ Ev.ok
  /\ LET cs == {i \in DOMAIN pend : pend[i].dport = Ev.dport /\ pend[i].h = Ev.h}
         r == Nb(Ev.h)
     IN IF cs # {} THEN \E i \in cs : Ev.rmac \in pend[i].okm
        ELSE (r.st = "known" /\ Ev.rmac = r.mac) \/ Ev.rmac \in r.opt
  /\ sent' = sent \cup {Ev.dport}
  /\ UNCHANGED <<own, mymac, nb, owed, plearn, pend, ncre>>

Call == /\ IsEvent("call")
        /\ LET r == Nb(Ev.h)
           IN pend' = (Ev.id :> [h |-> Ev.h, kind |-> Ev.kind, dport |-> Ev.dport, t |-> Ev.t,
                                 okm |-> (IF r.st = "known" /\ ~Expired(r, Ev.t) THEN {r.mac} ELSE {}) \cup r.opt,
                                 fok |-> (r.st = "failed" /\ ~FailedExpired(r, Ev.t)), tf |-> r.tfail]) @@ pend
        \* a lookup for a next hop that is not known may create an entry before its first request is seen (upper bound)
        /\ ncre' = ncre + (IF Nb(Ev.h).st = "known" THEN 0 ELSE 1)
        /\ UNCHANGED <<own, mymac, nb, owed, plearn, sent>>

Ret == /\ IsEvent("ret") /\ Ev.id \in DOMAIN pend
       /\ LET c == pend[Ev.id]
          IN \/ /\ Ev.err = "" /\ c.kind # "getlink" /\ c.dport \in sent      \* proceeded: its packet went out (to a right MAC: Data)
             \/ /\ Ev.err = "" /\ c.kind = "getlink" /\ Ev.mac \in c.okm
             \/ /\ Ev.err = NoLink /\ c.fok /\ Ev.t >= c.tf                  \* failed: budget exhausted, third timeout over
       /\ pend' = [i \in DOMAIN pend \ {Ev.id} |-> pend[i]]
       /\ UNCHANGED <<own, mymac, nb, owed, plearn, sent, ncre>>

End == /\ IsEvent("end") /\ owed = {} /\ plearn = {} /\ DOMAIN pend = {}
       /\ UNCHANGED <<own, mymac, nb, owed, plearn, pend, sent, ncre>>

Skip == /\ (IsEvent("note") \/ IsEvent("filldone") \/ (IsEvent("emit") /\ Ev.cls = "other"))
        /\ UNCHANGED <<own, mymac, nb, owed, plearn, pend, sent, ncre>>

TNext == Reset \/ Inj \/ Add \/ DoLearn \/ Done \/ Fill \/ Reply \/ Request \/ RefusedRequest \/ Fail \/ Data \/ Call \/ Ret \/ End \/ Skip
TSpec == TInit /\ [][TNext]_tvars
====
