---- MODULE Neigh ----
(* C12.  I-spec of stack/linkaddrcache.go: a ring of N entries (512 in the
   code), the `cache` map key -> ring slot (a pointer into the array, i.e. an
   index), `next`, per entry addr / linkAddr / state / wakers / done channel /
   "expiration passed" flag, and one goroutine per resolution
   (startAddressResolution: send request, select{timeout, done}, check).
   One action = one critical section under linkAddrCache.mu (get, add,
   checkLinkRequest) or one step of a resolution goroutine outside the lock.

   Environment (closed model): Callers do lookups and, when told to wait
   (ErrWouldBlock + channel), retry after the notification; Add(k,m) is an ARP
   reply / a request addressed to us / an NDP message / AddLinkAddress;
   Overdue(s) lets wall-clock time pass the expiration of slot s (entries
   expire in creation order); timers may fire at any moment (over-
   approximation: only lower bounds on time exist).

   The done channel of an entry incarnation is identified by `gen`.
   changeState closes it and asserts the wakers when leaving `incomplete`.

   Property-level history: last[k] = link address most recently added for k.
   Invariants are stated over monotone `bad*` flags set by the actions, so the
   history costs no states while the model is correct. *)
EXTENDS Integers, FiniteSets, TLC
CONSTANTS N,          \* ring size
          Keys, Macs, Callers,
          MaxAtt,     \* resolutionAttempts (3)
          MaxGets,    \* lookups (incl. retries) per caller
          MaxAdd,     \* Add events
          MaxOver,    \* Overdue events
          MaxRes      \* resolution goroutines ever started
VARIABLES ring, cache, next, ngen, closed, res, call, last, nadd, nover,
          badWrong, badPanic, badBudget, badEarlyFail
vars == <<ring, cache, next, ngen, closed, res, call, last, nadd, nover, badWrong, badPanic, badBudget, badEarlyFail>>

NoKey == "nokey"
NoMac == "nomac"
None == -1
Slots == 0..(N - 1)
Zero == [addr |-> NoKey, mac |-> NoMac, st |-> "incomplete", wk |-> {}, gen |-> 0, over |-> FALSE]

Init == /\ ring = [s \in Slots |-> Zero]
        /\ cache = [k \in Keys |-> None]
        /\ next = 0 /\ ngen = 0 /\ closed = {} /\ res = {}
        /\ call = [c \in Callers |-> [pc |-> "idle", k |-> NoKey, g |-> 0, left |-> MaxGets]]
        /\ last = [k \in Keys |-> NoMac]
        /\ nadd = 0 /\ nover = 0
        /\ badWrong = FALSE /\ badPanic = FALSE /\ badBudget = FALSE /\ badEarlyFail = FALSE

\* ---------------------------------------------------------------- changeState
\* result: new entry, gens closed, panic flag
CS(e, ns) ==
  IF e.st = ns THEN [e |-> e, cl |-> {}, pn |-> FALSE]
  ELSE LET pn == (e.st \in {"ready", "failed"} /\ ns # "expired") \/ e.st = "expired"
           leave == e.st = "incomplete"
       IN [e  |-> [e EXCEPT !.st = ns, !.wk = IF leave THEN {} ELSE e.wk],
           cl |-> IF leave /\ e.gen # 0 THEN {e.gen} ELSE {},        \* close(done) + Assert all wakers
           pn |-> pn]
\* entry.state(): lazy transition to expired once the expiration time has passed
ST(e) == IF e.st # "expired" /\ e.over THEN CS(e, "expired") ELSE [e |-> e, cl |-> {}, pn |-> FALSE]

\* makeAndAddEntry on (ring r, cache c): takes over slot `next`
MK(r, c, k, v) ==
  LET old == r[next]
      c1 == IF old.addr # NoKey /\ c[old.addr] = next THEN [c EXCEPT ![old.addr] = None] ELSE c
      x == CS(old, "expired")
      g == ngen + 1
      e == [addr |-> k, mac |-> v, st |-> "incomplete", wk |-> {}, gen |-> g, over |-> FALSE]
  IN [r |-> [r EXCEPT ![next] = e], c |-> [c1 EXCEPT ![k] = next], s |-> next, cl |-> x.cl, pn |-> x.pn, g |-> g]

\* ------------------------------------------------------------------------ get
\* the caller's verdict fields: hit (mac) / fail / wait on gen g
GetBody(c, k) ==
  LET i == cache[k]
      x == IF i # None THEN ST(ring[i]) ELSE [e |-> Zero, cl |-> {}, pn |-> FALSE]
      r1 == IF i # None THEN [ring EXCEPT ![i] = x.e] ELSE ring
      live == i # None /\ x.e.st # "expired"
  IN IF live /\ x.e.st = "ready"
     THEN /\ ring' = r1 /\ closed' = closed \cup x.cl
          /\ badWrong' = (badWrong \/ x.e.mac # last[k] \/ x.e.over \/ x.e.addr # k)
          /\ call' = [call EXCEPT ![c] = [pc |-> "idle", k |-> NoKey, g |-> 0, left |-> @.left - 1]]
          /\ badPanic' = (badPanic \/ x.pn)
          /\ UNCHANGED <<cache, next, ngen, res>>
     ELSE IF live /\ x.e.st = "failed"
     THEN /\ ring' = r1 /\ closed' = closed \cup x.cl
          /\ call' = [call EXCEPT ![c] = [pc |-> "idle", k |-> NoKey, g |-> 0, left |-> @.left - 1]]
          /\ badPanic' = (badPanic \/ x.pn)
          /\ UNCHANGED <<cache, next, ngen, res, badWrong>>
     ELSE IF live   \* incomplete: join the waiters
     THEN /\ ring' = [r1 EXCEPT ![i].wk = @ \cup {c}] /\ closed' = closed \cup x.cl
          /\ call' = [call EXCEPT ![c] = [pc |-> "blocked", k |-> k, g |-> x.e.gen, left |-> @.left - 1]]
          /\ badPanic' = (badPanic \/ x.pn)
          /\ UNCHANGED <<cache, next, ngen, res, badWrong>>
     ELSE \* miss or expired: new incomplete entry + resolution goroutine
          /\ Cardinality(res) < MaxRes
          /\ LET m == MK(r1, cache, k, NoMac)
             IN /\ ring' = [m.r EXCEPT ![m.s].wk = {c}]
                /\ cache' = m.c /\ next' = (next + 1) % N /\ ngen' = m.g
                /\ closed' = closed \cup x.cl \cup m.cl
                /\ res' = res \cup {[k |-> k, gen |-> m.g, i |-> 0, pc |-> "send", sent |-> 0]}
                /\ call' = [call EXCEPT ![c] = [pc |-> "blocked", k |-> k, g |-> m.g, left |-> @.left - 1]]
                /\ badPanic' = (badPanic \/ x.pn \/ m.pn)
                /\ UNCHANGED badWrong

Get(c, k) == /\ call[c].pc = "idle" /\ call[c].left > 0
             /\ GetBody(c, k)
             /\ UNCHANGED <<last, nadd, nover, badBudget, badEarlyFail>>
\* a waiting caller has been notified (channel closed / waker asserted) and retries;
\* without budget left it just goes away (Write returned the channel, the application gave up)
Retry(c) == /\ call[c].pc = "blocked" /\ call[c].g \in closed
            /\ IF call[c].left > 0 THEN GetBody(c, call[c].k)
               ELSE /\ call' = [call EXCEPT ![c] = [pc |-> "idle", k |-> NoKey, g |-> 0, left |-> 0]]
                    /\ UNCHANGED <<ring, cache, next, ngen, closed, res, badWrong, badPanic>>
            /\ UNCHANGED <<last, nadd, nover, badBudget, badEarlyFail>>

\* ------------------------------------------------------------------------ add
Add(k, v) ==
  /\ nadd < MaxAdd /\ nadd' = nadd + 1
  /\ last' = [last EXCEPT ![k] = v]
  /\ LET i == cache[k]
         x == IF i # None THEN ST(ring[i]) ELSE [e |-> Zero, cl |-> {}, pn |-> FALSE]
         r1 == IF i # None THEN [ring EXCEPT ![i] = x.e] ELSE ring
     IN IF i # None /\ x.e.st # "expired" /\ x.e.mac = v
        THEN /\ ring' = r1 /\ closed' = closed \cup x.cl /\ badPanic' = (badPanic \/ x.pn)       \* repeated call
             /\ UNCHANGED <<cache, next, ngen>>
        ELSE IF i # None /\ x.e.st = "incomplete"
        THEN LET y == CS([x.e EXCEPT !.mac = v], "ready")
             IN /\ ring' = [r1 EXCEPT ![i] = y.e] /\ closed' = closed \cup x.cl \cup y.cl
                /\ badPanic' = (badPanic \/ x.pn \/ y.pn)
                /\ UNCHANGED <<cache, next, ngen>>
        ELSE LET m == MK(r1, cache, k, v)
                 y == CS(m.r[m.s], "ready")
             IN /\ ring' = [m.r EXCEPT ![m.s] = y.e] /\ cache' = m.c /\ next' = (next + 1) % N /\ ngen' = m.g
                /\ closed' = closed \cup x.cl \cup m.cl \cup y.cl
                /\ badPanic' = (badPanic \/ x.pn \/ m.pn \/ y.pn)
  /\ UNCHANGED <<res, call, nover, badWrong, badBudget, badEarlyFail>>

\* --------------------------------------------------- resolution goroutine (g)
SendRequestG(g) == /\ g \in res /\ g.pc = "send"
                  /\ res' = (res \ {g}) \cup {[g EXCEPT !.pc = "wait", !.sent = @ + 1]}
                  /\ badBudget' = (badBudget \/ g.sent + 1 > MaxAtt)
                  /\ UNCHANGED <<ring, cache, next, ngen, closed, call, last, nadd, nover, badWrong, badPanic, badEarlyFail>>
\* select: the timer fired (any time) ...
RetryTimeoutG(g) == /\ g \in res /\ g.pc = "wait"
                   /\ res' = (res \ {g}) \cup {[g EXCEPT !.pc = "check"]}
                   /\ UNCHANGED <<ring, cache, next, ngen, closed, call, last, nadd, nover, badWrong, badPanic, badBudget, badEarlyFail>>
\* ... or done was closed
SeeDoneG(g) == /\ g \in res /\ g.pc = "wait" /\ g.gen \in closed
              /\ res' = res \ {g}
              /\ UNCHANGED <<ring, cache, next, ngen, closed, call, last, nadd, nover, badWrong, badPanic, badBudget, badEarlyFail>>
\* checkLinkRequest(k, attempt)
CheckG(g) ==
  /\ g \in res /\ g.pc = "check"
  /\ LET i == cache[g.k]
         x == IF i # None THEN ST(ring[i]) ELSE [e |-> Zero, cl |-> {}, pn |-> FALSE]
         r1 == IF i # None THEN [ring EXCEPT ![i] = x.e] ELSE ring
     IN IF i = None \/ x.e.st # "incomplete"
        THEN /\ ring' = r1 /\ closed' = closed \cup x.cl /\ res' = res \ {g}
             /\ badPanic' = (badPanic \/ x.pn) /\ UNCHANGED badEarlyFail
        ELSE IF g.i + 1 >= MaxAtt
        THEN LET y == CS(x.e, "failed")
             IN /\ ring' = [r1 EXCEPT ![i] = y.e] /\ closed' = closed \cup x.cl \cup y.cl /\ res' = res \ {g}
                /\ badPanic' = (badPanic \/ x.pn \/ y.pn)
                \* the entry being failed is not the one this goroutine resolves: it
                \* has not seen MaxAtt requests of its own (see StaleTimerRace below)
                /\ badEarlyFail' = (badEarlyFail \/ x.e.gen # g.gen)
        ELSE /\ ring' = r1 /\ closed' = closed \cup x.cl
             /\ res' = (res \ {g}) \cup {[g EXCEPT !.i = @ + 1, !.pc = "send"]}
             /\ badPanic' = (badPanic \/ x.pn) /\ UNCHANGED badEarlyFail
  /\ UNCHANGED <<cache, next, ngen, call, last, nadd, nover, badWrong, badBudget>>

\* the steps of the resolution goroutine(s) working on key k (named so that TLC labels and counts them)
SendRequest(k)  == \E g \in res : g.k = k /\ SendRequestG(g)
RetryTimeout(k) == \E g \in res : g.k = k /\ RetryTimeoutG(g)
SeeDone(k)      == \E g \in res : g.k = k /\ SeeDoneG(g)
Check(k)        == \E g \in res : g.k = k /\ CheckG(g)

\* Expire: wall-clock time passes the expiration of slot s (creation order = expiration order);
\* the state change itself happens lazily in entry.state() (ST above)
Overdue(s) == /\ nover < MaxOver /\ nover' = nover + 1
              /\ ring[s].addr # NoKey /\ ~ring[s].over
              /\ \A t \in Slots : (ring[t].addr # NoKey /\ ring[t].gen < ring[s].gen) => ring[t].over
              /\ ring' = [ring EXCEPT ![s].over = TRUE]
              /\ UNCHANGED <<cache, next, ngen, closed, res, call, last, nadd, badWrong, badPanic, badBudget, badEarlyFail>>

Next == \/ \E c \in Callers, k \in Keys : Get(c, k)
        \/ \E c \in Callers : Retry(c)
        \/ \E k \in Keys, v \in Macs : Add(k, v)
        \/ \E k \in Keys : SendRequest(k) \/ RetryTimeout(k) \/ SeeDone(k) \/ Check(k)
        \/ \E s \in Slots : Overdue(s)
Spec == Init /\ [][Next]_vars

\* ------------------------------------------------------------------ invariants
TypeOK == /\ next \in Slots /\ \A k \in Keys : cache[k] \in Slots \cup {None}
          /\ \A s \in Slots : ring[s].st \in {"incomplete", "ready", "failed", "expired"}
\* a hit for k returns the MAC most recently added for k, from k's own entry, never after expiry
NeverWrong == ~badWrong
\* no invalid changeState transition (the Go code panics)
NoBadTransition == ~badPanic
\* at most MaxAtt requests per resolution goroutine
AtMostBudget == ~badBudget
\* the map only points at entries that carry the key (never another key's slot)
CacheConsistent == \A k \in Keys : cache[k] # None => ring[cache[k]].addr = k
\* waiters are always notified when their entry leaves `incomplete` (or is evicted / overwritten):
\* a blocked caller's channel is closed, or its entry incarnation is still alive, incomplete and knows the waker
WaitersNotified ==
  \A c \in Callers : call[c].pc = "blocked" =>
     \/ call[c].g \in closed
     \/ \E s \in Slots : ring[s].gen = call[c].g /\ ring[s].st = "incomplete" /\ c \in ring[s].wk /\ cache[ring[s].addr] = s
\* a closed channel never belongs to an entry that is still incomplete, and every incomplete live entry
\* is being worked on: its goroutine exists (so it ends up ready, failed or expired)
ClosedIffLeft == \A s \in Slots : ring[s].gen # 0 => ((ring[s].gen \in closed) <=> ring[s].st # "incomplete")
Progress == \A s \in Slots : (ring[s].gen # 0 /\ ring[s].st = "incomplete") => \E g \in res : g.gen = ring[s].gen
\* StaleTimerRace: a goroutine whose timer fired just before its entry was evicted/expired and replaced
\* by a NEW incomplete entry for the same key applies its own attempt counter to the new entry.
NoEarlyFail == ~badEarlyFail

Sym == Permutations(Macs) \cup Permutations(Callers) \cup Permutations(Keys)
====
