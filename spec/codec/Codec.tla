------------------------------- MODULE Codec -------------------------------
(* C15 reference: header layouts as DATA, the Internet checksum, the TCP
   option grammar and the two option parsers of protocol/header/tcp.go.

   (i)   Layouts / Enc / Dec   written from the RFCs (894, 826, 791, 8200,
         792, 4443, 4861, 768, 9293, 1035), not from the Go code.
   (ii)  Sum1071 / Combine     RFC 1071: 16-bit one's-complement sum, end-around
         carry, odd trailing byte padded with a zero byte on the right.
   (iii) option grammar (encoder) + P-level expectation, and the I-specs of
         ParseSynOptions / ParseTCPOptions as step functions over a byte
         string that may still contain unread positions (-1), see OptParse.

   Conventions.  Byte strings are sequences over 0..255.  Bit 0 of a header
   is the most significant bit of byte 0 (the order of the RFC diagrams).
   A field value is a natural number when width <= NumMax, otherwise a
   sequence of width/8 bytes in network order (TLC integers are 32-bit
   signed, so 32-bit and wider quantities never become one integer).      *)
EXTENDS Integers, Sequences, FiniteSets, SequencesExt, Ones

NumMax == 30
Pow2(n) == 2^n

-----------------------------------------------------------------------------
(* (i) Layouts: header -> [size (bytes of the fixed header), fields: name ->
       [byte, bit, width, endian]].  byte/bit locate the first (most
       significant) bit of the field.  `rsv*` are the RFCs' reserved /
       must-be-zero bits, listed so that the fields tile the fixed header. *)
F(b, o, w) == [byte |-> b, bit |-> o, width |-> w, endian |-> "be"]

Layouts ==
  [ eth   |-> [size |-> 14, fields |->                       \* RFC 894
                [dst |-> F(0,0,48), src |-> F(6,0,48), type |-> F(12,0,16)]],
    arp   |-> [size |-> 28, fields |->                       \* RFC 826, Ethernet/IPv4 instance
                [htype |-> F(0,0,16), ptype |-> F(2,0,16), hlen |-> F(4,0,8), plen |-> F(5,0,8),
                 oper |-> F(6,0,16), sha |-> F(8,0,48), spa |-> F(14,0,32),
                 tha |-> F(18,0,48), tpa |-> F(24,0,32)]],
    ipv4  |-> [size |-> 20, fields |->                       \* RFC 791 3.1
                [version |-> F(0,0,4), ihl |-> F(0,4,4), tos |-> F(1,0,8), totlen |-> F(2,0,16),
                 id |-> F(4,0,16), flags |-> F(6,0,3), fragoff |-> F(6,3,13),
                 ttl |-> F(8,0,8), proto |-> F(9,0,8), cksum |-> F(10,0,16),
                 src |-> F(12,0,32), dst |-> F(16,0,32)]],
    ipv6  |-> [size |-> 40, fields |->                       \* RFC 8200 3
                [version |-> F(0,0,4), tclass |-> F(0,4,8), flow |-> F(1,4,20),
                 plen |-> F(4,0,16), nexthdr |-> F(6,0,8), hoplimit |-> F(7,0,8),
                 src |-> F(8,0,128), dst |-> F(24,0,128)]],
    ipv6frag |-> [size |-> 8, fields |->                     \* RFC 8200 4.5
                [nexthdr |-> F(0,0,8), rsv1 |-> F(1,0,8), fragoff |-> F(2,0,13),
                 rsv2 |-> F(3,5,2), m |-> F(3,7,1), ident |-> F(4,0,32)]],
    icmp4echo |-> [size |-> 8, fields |->                    \* RFC 792 echo / echo reply
                [type |-> F(0,0,8), code |-> F(1,0,8), cksum |-> F(2,0,16),
                 ident |-> F(4,0,16), seq |-> F(6,0,16)]],
    icmp4unreach |-> [size |-> 8, fields |->                 \* RFC 792 destination unreachable
                [type |-> F(0,0,8), code |-> F(1,0,8), cksum |-> F(2,0,16), unused |-> F(4,0,32)]],
    icmp6echo |-> [size |-> 8, fields |->                    \* RFC 4443 4.1/4.2
                [type |-> F(0,0,8), code |-> F(1,0,8), cksum |-> F(2,0,16),
                 ident |-> F(4,0,16), seq |-> F(6,0,16)]],
    icmp6unreach |-> [size |-> 8, fields |->                 \* RFC 4443 3.1
                [type |-> F(0,0,8), code |-> F(1,0,8), cksum |-> F(2,0,16), unused |-> F(4,0,32)]],
    icmp6ns |-> [size |-> 24, fields |->                     \* RFC 4861 4.3
                [type |-> F(0,0,8), code |-> F(1,0,8), cksum |-> F(2,0,16),
                 rsv |-> F(4,0,32), target |-> F(8,0,128)]],
    icmp6na |-> [size |-> 24, fields |->                     \* RFC 4861 4.4
                [type |-> F(0,0,8), code |-> F(1,0,8), cksum |-> F(2,0,16),
                 r |-> F(4,0,1), s |-> F(4,1,1), o |-> F(4,2,1), rsv |-> F(4,3,29),
                 target |-> F(8,0,128)]],
    udp   |-> [size |-> 8, fields |->                        \* RFC 768
                [sport |-> F(0,0,16), dport |-> F(2,0,16), length |-> F(4,0,16), cksum |-> F(6,0,16)]],
    tcp   |-> [size |-> 20, fields |->                       \* RFC 9293 3.1
                [sport |-> F(0,0,16), dport |-> F(2,0,16), seq |-> F(4,0,32), ack |-> F(8,0,32),
                 doff |-> F(12,0,4), rsv |-> F(12,4,4), flags |-> F(13,0,8),
                 window |-> F(14,0,16), cksum |-> F(16,0,16), urgptr |-> F(18,0,16)]],
    dns   |-> [size |-> 12, fields |->                       \* RFC 1035 4.1.1
                [id |-> F(0,0,16), qr |-> F(2,0,1), opcode |-> F(2,1,4), aa |-> F(2,5,1),
                 tc |-> F(2,6,1), rd |-> F(2,7,1), ra |-> F(3,0,1), z |-> F(3,1,3),
                 rcode |-> F(3,4,4), qdcount |-> F(4,0,16), ancount |-> F(6,0,16),
                 nscount |-> F(8,0,16), arcount |-> F(10,0,16)]] ]

(* Field values that are not free: fixed by the RFC (version numbers, must-be-
   zero bits) or by what the library's API can express (ARP is the
   Ethernet/IPv4 instance; the DNS builder emits a standard query with RD). *)
Fixed ==
  [ eth |-> <<>>, udp |-> <<>>, icmp4echo |-> <<>>, icmp6echo |-> <<>>,
    arp   |-> [htype |-> 1, ptype |-> 2048, hlen |-> 6, plen |-> 4],
    ipv4  |-> [version |-> 4],
    ipv6  |-> [version |-> 6],
    ipv6frag |-> [rsv1 |-> 0, rsv2 |-> 0],
    icmp4unreach |-> [unused |-> <<0,0,0,0>>],
    icmp6unreach |-> [unused |-> <<0,0,0,0>>],
    icmp6ns |-> [rsv |-> <<0,0,0,0>>],
    icmp6na |-> [rsv |-> 0],
    tcp   |-> [rsv |-> 0],
    dns   |-> [qr |-> 0, opcode |-> 0, aa |-> 0, tc |-> 0, rd |-> 1, ra |-> 0, z |-> 0, rcode |-> 0] ]

FStart(f) == 8 * f.byte + f.bit          \* first bit, 0-based
FEnd(f)   == FStart(f) + f.width         \* exclusive
IsNum(f)  == f.width <= NumMax

LayoutOK(L) ==
  LET fs == L.fields IN
  /\ \A n \in DOMAIN fs :
        /\ fs[n].byte >= 0 /\ fs[n].bit \in 0..7 /\ fs[n].width >= 1
        /\ FEnd(fs[n]) <= 8 * L.size                                   \* inside the fixed header
        /\ fs[n].endian = "be"
        /\ (~IsNum(fs[n])) => (fs[n].bit = 0 /\ fs[n].width % 8 = 0)   \* wide fields are whole bytes
  /\ \A n, m \in DOMAIN fs :                                           \* pairwise disjoint
        n # m => (FEnd(fs[n]) <= FStart(fs[m]) \/ FEnd(fs[m]) <= FStart(fs[n]))
  /\ \A p \in 0..(8 * L.size - 1) :                                    \* tile the fixed header
        \E n \in DOMAIN fs : FStart(fs[n]) <= p /\ p < FEnd(fs[n])

LayoutsOK == /\ \A h \in DOMAIN Layouts : LayoutOK(Layouts[h])
             /\ DOMAIN Fixed = DOMAIN Layouts
             /\ \A h \in DOMAIN Fixed : DOMAIN Fixed[h] \subseteq DOMAIN Layouts[h].fields

(* Values a field can take *)
ValOK(f, v) == IF IsNum(f) THEN v \in 0..(Pow2(f.width) - 1)
               ELSE Len(v) = f.width \div 8 /\ \A k \in 1..Len(v) : v[k] \in 0..255
RecOK(L, rec) == DOMAIN rec = DOMAIN L.fields /\ \A n \in DOMAIN rec : ValOK(L.fields[n], rec[n])

(* The value v of field f as a bit string, most significant bit first *)
FieldBits(f, v) ==
  IF IsNum(f) THEN [k \in 1..f.width |-> (v \div Pow2(f.width - k)) % 2]
  ELSE [k \in 1..f.width |-> (v[((k - 1) \div 8) + 1] \div Pow2(7 - ((k - 1) % 8))) % 2]

PackBits(bits) ==
  [j \in 1..(Len(bits) \div 8) |->
     LET q == 8 * (j - 1) IN
     128 * bits[q + 1] + 64 * bits[q + 2] + 32 * bits[q + 3] + 16 * bits[q + 4]
     + 8 * bits[q + 5] + 4 * bits[q + 6] + 2 * bits[q + 7] + bits[q + 8]]

(* Fields in wire order.  Because the fields tile the header (LayoutOK), the
   header's bit string is the concatenation of the field bit strings: this
   is the DEFINITION of the encoding. *)
WireOrder(L) == SetToSortSeq(DOMAIN L.fields, LAMBDA a, b : FStart(L.fields[a]) < FStart(L.fields[b]))

EncDef(L, rec) ==
  LET ord == WireOrder(L) IN
  PackBits(FlattenSeq([k \in DOMAIN ord |-> FieldBits(L.fields[ord[k]], rec[ord[k]])]))

(* The same function evaluated run by run (a run = the fields between two
   consecutive byte-aligned field starts): a run that is one field of whole
   bytes contributes its bytes directly, any other run is packed from bits.
   CodecVec checks Enc = EncDef on sample records of every layout. *)
FieldBytes(f, v) ==
  IF IsNum(f) THEN LET n == f.width \div 8 IN [j \in 1..n |-> (v \div Pow2(8 * (n - j))) % 256]
  ELSE v
Enc(L, rec) ==
  LET ord    == WireOrder(L)
      starts == {k \in DOMAIN ord : FStart(L.fields[ord[k]]) % 8 = 0}
      RunEnd(k) == IF \E m \in starts : m > k THEN (CHOOSE m \in starts : m > k /\ \A x \in starts : x > k => m <= x) - 1
                   ELSE Len(ord)
      RunBytes(k) ==
        LET e == RunEnd(k)  f == L.fields[ord[k]] IN
        IF e = k /\ f.width % 8 = 0 THEN FieldBytes(f, rec[ord[k]])
        ELSE PackBits(FlattenSeq([m \in 1..(e - k + 1) |-> FieldBits(L.fields[ord[k + m - 1]], rec[ord[k + m - 1]])]))
  IN FlattenSeq([k \in DOMAIN ord |-> IF k \in starts THEN RunBytes(k) ELSE <<>>])

ByteBit(bytes, p) == (bytes[(p \div 8) + 1] \div Pow2(7 - (p % 8))) % 2

Dec(L, bytes) ==
  [n \in DOMAIN L.fields |->
     LET f == L.fields[n] IN
     IF IsNum(f)
     THEN FoldLeft(LAMBDA acc, k : 2 * acc + ByteBit(bytes, FStart(f) + k), 0, [k \in 1..f.width |-> k - 1])
     ELSE SubSeq(bytes, f.byte + 1, f.byte + f.width \div 8)]

(* Boundary values "per field": 0, 1, max-1, max and every walking-one bit *)
AllByte(n, b) == [k \in 1..n |-> b]
OneBit(n, k)  == [j \in 1..n |-> IF j = (k \div 8) + 1 THEN Pow2(7 - (k % 8)) ELSE 0]   \* bit k (0 = MSB) of n bytes
Boundary(f) ==
  IF IsNum(f)
  THEN LET mx == Pow2(f.width) - 1 IN
       ({0, 1, mx - 1, mx} \cup {Pow2(k) : k \in 0..(f.width - 1)}) \cap (0..mx)
  ELSE LET n == f.width \div 8 IN
       {AllByte(n, 0), AllByte(n, 255), [AllByte(n, 0) EXCEPT ![n] = 1], [AllByte(n, 255) EXCEPT ![n] = 254]}
       \cup {OneBit(n, k) : k \in 0..(f.width - 1)}

(* DNS question section, RFC 1035 4.1.2: QNAME as length-prefixed labels
   terminated by the zero-length root label, then QTYPE, QCLASS. *)
U16(v) == <<v \div 256, v % 256>>
EncName(labels) == FoldLeft(LAMBDA acc, lb : acc \o <<Len(lb)>> \o lb, <<>>, labels) \o <<0>>
EncQuestion(labels, qtype, qclass) == EncName(labels) \o U16(qtype) \o U16(qclass)

-----------------------------------------------------------------------------
(* (ii) RFC 1071.  Combine is one's-complement addition of two 16-bit
   quantities (end-around carry); Sum1071 adds the 16-bit big-endian words of
   the buffer to `init`; an odd trailing byte is the high byte of a word
   whose low byte is zero.  Note: in this arithmetic 0 and 65535 both denote
   zero; Combine yields 0 only from 0+0.                                    *)
(* Combine(a, b) == LET s == a + b IN IF s > 65535 THEN s - 65535 ELSE s     -- defined in module Ones (shared
   with OnesApa, where Apalache checks its algebra for all 2^32 argument pairs and all 2^48 triples) *)

Words(bytes) ==
  [k \in 1..((Len(bytes) + 1) \div 2) |->
     256 * bytes[2 * k - 1] + (IF 2 * k <= Len(bytes) THEN bytes[2 * k] ELSE 0)]

Sum1071(bytes, init) == FoldLeft(Combine, init, Words(bytes))

Compl(x) == 65535 - x
Verifies(bytes, init) == Sum1071(bytes, init) = 65535      \* RFC 1071: "all 1 bits (-0)"
SameOC(x, y) == x = y \/ {x, y} = {0, 65535}                \* equal as one's-complement numbers

(* buffer with the 16-bit field at byte offset `at` (0-based) replaced *)
PutU16(bytes, at, v) == [k \in 1..Len(bytes) |-> IF k = at + 1 THEN v \div 256 ELSE IF k = at + 2 THEN v % 256 ELSE bytes[k]]
(* the checksum field value that makes the buffer verify *)
CksumField(bytes, at, init) == Compl(Sum1071(PutU16(bytes, at, 0), init))

(* pseudo-headers: RFC 768 / 9293 3.1 (IPv4) and RFC 8200 8.1 (IPv6);
   `len` is the upper-layer length (< 65536 here) *)
Pseudo(src, dst, proto, len) ==
  IF Len(src) = 4 THEN src \o dst \o <<0, proto>> \o U16(len)
  ELSE src \o dst \o <<0, 0>> \o U16(len) \o <<0, 0, 0, proto>>
(* transport checksum field: complement of the sum over pseudo-header,
   transport header (checksum field at `at` zeroed) and payload *)
TransportCksum(src, dst, proto, hdr, at, payload) ==
  LET seg == PutU16(hdr, at, 0) \o payload IN
  Compl(Sum1071(Pseudo(src, dst, proto, Len(seg)) \o seg, 0))

-----------------------------------------------------------------------------
(* (iii) TCP options (RFC 9293 3.1, 7323, 2018).  Option values:
     <<"mss", v>>  <<"ws", s>>  <<"ts", val4, ecr4>>  <<"sackperm">>
     <<"sack", <<b1, ..>>>> (each block 8 bytes: left edge, right edge)
     <<"nop">>  <<"eol">>  <<"unk", kind, data>>                            *)
KEOL == 0  KNOP == 1  KMSS == 2  KWS == 3  KSACKP == 4  KSACK == 5  KTS == 8
MaxWS == 14                                 \* RFC 7323 2.3: larger shift counts are read as 14
Zero4 == <<0, 0, 0, 0>>

EncOpt(op) ==
  CASE op[1] = "mss"      -> <<KMSS, 4>> \o U16(op[2])
    [] op[1] = "ws"       -> <<KWS, 3, op[2]>>
    [] op[1] = "ts"       -> <<KTS, 10>> \o op[2] \o op[3]
    [] op[1] = "sackperm" -> <<KSACKP, 2>>
    [] op[1] = "sack"     -> <<KSACK, 2 + 8 * Len(op[2])>> \o FlattenSeq(op[2])
    [] op[1] = "nop"      -> <<KNOP>>
    [] op[1] = "eol"      -> <<KEOL>>
    [] op[1] = "unk"      -> <<op[2], 2 + Len(op[3])>> \o op[3]

(* padding to a multiple of 4: "nop" = NOPs (what AddTCPOptionPadding does),
   "eol" = End-of-list followed by zero bytes, "none" = no padding *)
PadLen(n) == (4 - (n % 4)) % 4
Pad(n, mode) == CASE mode = "nop" -> [k \in 1..PadLen(n) |-> KNOP]
                  [] mode = "eol" -> [k \in 1..PadLen(n) |-> KEOL]
                  [] OTHER        -> <<>>
EncSeq(ops, mode) == LET b == FlattenSeq([k \in DOMAIN ops |-> EncOpt(ops[k])]) IN b \o Pad(Len(b), mode)

(* options in force: everything before the first End-of-list *)
Live(ops) == LET e == SelectInSeq(ops, LAMBDA op : op[1] = "eol") IN
             IF e = 0 THEN ops ELSE SubSeq(ops, 1, e - 1)

(* Result records, as tuples so that TLC's state dump is trivially parsed:
   syn: <<mss, ws, ts, tsval4, tsecr4, sackperm>>   ws = -1: no option
   tcp: <<ts, tsval4, tsecr4, <<block, ..>>>>                               *)
SynDefault == <<536, -1, 0, Zero4, Zero4, 0>>       \* RFC 9293 3.7.1 (MSS 536)
TcpDefault == <<0, Zero4, Zero4, <<>>>>

(* P-level expectation: what a receiver must have learnt from an encoder
   sequence (a later option of the same kind supersedes an earlier one). *)
ExpectSyn(ops, isAck) ==
  FoldLeft(LAMBDA r, op :
             CASE op[1] = "mss"      -> [r EXCEPT ![1] = op[2]]
               [] op[1] = "ws"       -> [r EXCEPT ![2] = IF op[2] > MaxWS THEN MaxWS ELSE op[2]]
               [] op[1] = "ts"       -> [r EXCEPT ![3] = 1, ![4] = op[2], ![5] = IF isAck THEN op[3] ELSE r[5]]
               [] op[1] = "sackperm" -> [r EXCEPT ![6] = 1]
               [] OTHER              -> r,
           SynDefault, Live(ops))
ExpectTcp(ops) ==
  FoldLeft(LAMBDA r, op :
             CASE op[1] = "ts"   -> [r EXCEPT ![1] = 1, ![2] = op[2], ![3] = op[3]]
               [] op[1] = "sack" -> [r EXCEPT ![4] = op[2]]
               [] OTHER          -> r,
           TcpDefault, Live(ops))

(* Option instances the encoder sequences of E1 are built from (OptParse);
   InstTable exports them with their reference encoding for the replay. *)
V1 == <<1, 2, 3, 4>>
V2 == <<255, 254, 253, 252>>
V3 == <<128, 0, 0, 127>>
Blk(b) == <<b, 1, 2, 3, b, 4, 5, 6>>
InstSmall == << <<"mss", 1460>>, <<"mss", 65535>>, <<"ws", 7>>, <<"ws", 15>>, <<"ts", V1, V2>>,
                <<"sackperm">>, <<"sack", <<Blk(16)>> >>, <<"sack", <<Blk(32), Blk(33)>> >>,
                <<"nop">>, <<"eol">>, <<"unk", 171, <<5>> >> >>
InstBig == InstSmall \o
           << <<"mss", 1>>, <<"mss", 258>>, <<"ws", 0>>, <<"ws", 14>>, <<"ws", 255>>, <<"ts", V3, V1>>,
              <<"sack", <<Blk(48), Blk(49), Blk(50)>> >>, <<"sack", <<Blk(64), Blk(65), Blk(66), Blk(67)>> >>,
              <<"unk", 30, <<>> >>, <<"unk", 254, <<0, 1>> >> >>
InstTable(list) == [k \in DOMAIN list |-> [op |-> list[k], bytes |-> EncOpt(list[k])]]

-----------------------------------------------------------------------------
(* I-specs of the two parsers: one loop iteration as a function from
   (o, i, r) to the SET of outcomes.  `o` is the input (length = limit) in
   which a position may still be unread (-1): reading it picks a byte of
   Alphabet (lazy input: every behaviour stands for the cylinder of all
   strings that agree on the positions actually read).  With a fully known
   `o` the outcome is unique.  An outcome is <<o, i, r, d, mx>>:
     d  = 0 loop continues, 1 loop ended (i >= limit), 2 ended by EOL,
          3 returned early (malformed / unusable option)
     mx = largest index read by the iteration.
   Indices are 0-based as in the Go code: opts[k] is o[k+1].  A read at an
   index >= limit is NOT guarded here (it yields 0), so InBounds is a real
   claim about the transcribed bound checks.  `slack` loosens one bound check
   (MSS in SynIter, SACK in TcpIter) by that many bytes: 0 is the transcription,
   1 a seeded off-by-one used as the sensitivity self-test of InBounds.     *)
Rd(o, k) == IF k < Len(o) THEN o[k + 1] ELSE 0

Fill(o, K, Alphabet) ==
  LET U == {k \in K : k < Len(o) /\ o[k + 1] = -1} IN
  IF U = {} THEN {o}
  ELSE IF Cardinality(U) = 1
       THEN LET k == CHOOSE x \in U : TRUE IN {[o EXCEPT ![k + 1] = b] : b \in Alphabet}
       ELSE {[j \in 1..Len(o) |-> IF (j - 1) \in U THEN f[j - 1] ELSE o[j]] : f \in [U -> Alphabet]}

Out(o, i, r, d, mx) == <<o, i, r, IF d = 0 /\ i >= Len(o) THEN 1 ELSE d, mx>>

B4(o, k) == <<Rd(o, k), Rd(o, k + 1), Rd(o, k + 2), Rd(o, k + 3)>>
Span(a, n) == {a + k : k \in 0..(n - 1)}

(* default branch of both parsers: skip an option we do not interpret *)
SkipUnknown(o, i, r, A) ==
  LET limit == Len(o) IN
  IF i + 2 > limit THEN {Out(o, i, r, 3, i)}
  ELSE UNION {
         LET l == Rd(o1, i + 1) IN
         IF l < 2 \/ i + l > limit THEN {Out(o1, i, r, 3, i + 1)}
         ELSE {Out(o1, i + l, r, 0, i + 1)}
       : o1 \in Fill(o, {i + 1}, A)}

SynIter(o0, i, r, isAck, A, slack) ==
  LET limit == Len(o0) IN
  UNION {
    LET kind == Rd(o, i) IN
    CASE kind = KEOL -> {Out(o, limit, r, 2, i)}
      [] kind = KNOP -> {Out(o, i + 1, r, 0, i)}
      [] kind = KMSS ->
           IF i + 4 - slack > limit THEN {Out(o, i, r, 3, i)}
           ELSE UNION {
                  IF Rd(o1, i + 1) # 4 THEN {Out(o1, i, r, 3, i + 1)}
                  ELSE UNION {
                         LET mss == 256 * Rd(o2, i + 2) + Rd(o2, i + 3) IN
                         IF mss = 0 THEN {Out(o2, i, r, 3, i + 3)}
                         ELSE {Out(o2, i + 4, [r EXCEPT ![1] = mss], 0, i + 3)}
                       : o2 \in Fill(o1, {i + 2, i + 3}, A)}
                : o1 \in Fill(o, {i + 1}, A)}
      [] kind = KWS ->
           IF i + 3 > limit THEN {Out(o, i, r, 3, i)}
           ELSE UNION {
                  IF Rd(o1, i + 1) # 3 THEN {Out(o1, i, r, 3, i + 1)}
                  ELSE UNION {
                         LET ws == Rd(o2, i + 2) IN
                         {Out(o2, i + 3, [r EXCEPT ![2] = IF ws > MaxWS THEN MaxWS ELSE ws], 0, i + 2)}
                       : o2 \in Fill(o1, {i + 2}, A)}
                : o1 \in Fill(o, {i + 1}, A)}
      [] kind = KTS ->
           IF i + 10 > limit THEN {Out(o, i, r, 3, i)}
           ELSE UNION {
                  IF Rd(o1, i + 1) # 10 THEN {Out(o1, i, r, 3, i + 1)}
                  ELSE UNION {
                         {Out(o2, i + 10,
                              [r EXCEPT ![3] = 1, ![4] = B4(o2, i + 2),
                                        ![5] = IF isAck THEN B4(o2, i + 6) ELSE r[5]],
                              0, IF isAck THEN i + 9 ELSE i + 5)}
                       : o2 \in Fill(o1, IF isAck THEN Span(i + 2, 8) ELSE Span(i + 2, 4), A)}
                : o1 \in Fill(o, {i + 1}, A)}
      [] kind = KSACKP ->
           IF i + 2 > limit THEN {Out(o, i, r, 3, i)}
           ELSE UNION {
                  IF Rd(o1, i + 1) # 2 THEN {Out(o1, i, r, 3, i + 1)}
                  ELSE {Out(o1, i + 2, [r EXCEPT ![6] = 1], 0, i + 1)}
                : o1 \in Fill(o, {i + 1}, A)}
      [] OTHER -> SkipUnknown(o, i, r, A)
  : o \in Fill(o0, {i}, A)}

TcpIter(o0, i, r, A, slack) ==
  LET limit == Len(o0) IN
  UNION {
    LET kind == Rd(o, i) IN
    CASE kind = KEOL -> {Out(o, limit, r, 2, i)}
      [] kind = KNOP -> {Out(o, i + 1, r, 0, i)}
      [] kind = KTS ->
           IF i + 10 > limit THEN {Out(o, i, r, 3, i)}
           ELSE UNION {
                  IF Rd(o1, i + 1) # 10 THEN {Out(o1, i, r, 3, i + 1)}
                  ELSE UNION {
                         {Out(o2, i + 10, [r EXCEPT ![1] = 1, ![2] = B4(o2, i + 2), ![3] = B4(o2, i + 6)], 0, i + 9)}
                       : o2 \in Fill(o1, Span(i + 2, 8), A)}
                : o1 \in Fill(o, {i + 1}, A)}
      [] kind = KSACK ->
           IF i + 2 - slack > limit THEN {Out(o, i, r, 3, i)}
           ELSE UNION {
                  LET l == Rd(o1, i + 1) IN
                  IF i + l > limit \/ (l - 2) % 8 # 0 THEN {Out(o1, i, r, 3, i + 1)}
                  ELSE LET nb == (l - 2) \div 8 IN
                       UNION {
                         {Out(o2, i + l,
                              [r EXCEPT ![4] = [j \in 1..nb |-> B4(o2, i + 2 + (j - 1) * 8) \o B4(o2, i + 6 + (j - 1) * 8)]],
                              0, IF nb = 0 THEN i + 1 ELSE i + l - 1)}
                       : o2 \in Fill(o1, Span(i + 2, l - 2), A)}
                : o1 \in Fill(o, {i + 1}, A)}
      [] OTHER -> SkipUnknown(o, i, r, A)
  : o \in Fill(o0, {i}, A)}
=============================================================================
