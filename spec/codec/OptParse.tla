------------------------------ MODULE OptParse ------------------------------
(* E1 for the option parsers of C15: the loop of ParseSynOptions /
   ParseTCPOptions (Codec!SynIter / TcpIter) as a state machine with cursor
   i and limit = Len(o).

   One TLC start can cover several modes and parsers (both are chosen in Init).
   Mode "lazy":  o starts completely unread; a byte is chosen from Alphabet
                 when the parser reads it.  The terminal states partition
                 Alphabet^n into cylinders (one per distinct read pattern),
                 so the run covers EVERY string of length <= MaxLen while
                 visiting far fewer states; the dump of terminal states is
                 the oracle for the replay into the real parsers.
   Mode "eager": o is chosen completely in Init (the literal enumeration;
                 small MaxLen; cross-check of the lazy construction).
   Mode "enc":   o = EncSeq of an encoder sequence of <= MaxOps option
                 instances plus padding, optionally truncated by cut bytes;
                 Recovered: the parser result is what the sequence says.   *)
EXTENDS Codec, TLC

CONSTANTS Parsers,    \* subset of {0, 1, 2}: 0 = ParseTCPOptions, 1 = ParseSynOptions(isAck = false),
                      \* 2 = ParseSynOptions(isAck = true); chosen in Init (one TLC start covers all)
          Modes,      \* subset of {"lazy", "eager", "enc"}; chosen in Init
          LazyParsers,\* lazy: parsers explored lazily (isAck cannot matter below 10 bytes: no timestamp option fits)
          MinLen,     \* lazy: string lengths MinLen..MaxLen
          MaxLen,
          MaxLenE,    \* eager: string lengths 0..MaxLenE
          MaxOps,     \* enc: options per sequence
          MaxCut,     \* enc: sequences of <= 2 options are truncated by 0..MaxCut bytes,
          MaxCut2,    \*      longer ones by 0..MaxCut2 bytes
          Alphabet,   \* lazy/eager: the byte values a string is made of
          Big,        \* enc: larger instance list
          Slack       \* 0 = transcription; 1 = seeded off-by-one (self-test)

VARIABLES md, pz, o, i, r, d, mx, sq
vars == <<md, pz, o, i, r, d, mx, sq>>

ASSUME "lazy" \in Modes => MaxLen <= 9      \* a 10-byte option body would be chosen at once

Inst == IF Big THEN InstBig ELSE InstSmall
PadModes == <<"none", "nop", "eol">>

IdSeqs == UNION {[1..k -> 1..Len(Inst)] : k \in 0..MaxOps}
OpsOf(ids) == [k \in DOMAIN ids |-> Inst[ids[k]]]
(* sq = <<ids, pad mode index, cut>> *)
Ops == OpsOf(sq[1])
Cut == sq[3]

Init ==
  /\ md \in Modes
  /\ pz \in Parsers
  /\ i = 0 /\ mx = -1
  /\ r = IF pz = 0 THEN TcpDefault ELSE SynDefault
  /\ CASE md = "lazy"  -> sq = <<>> /\ pz \in LazyParsers /\ \E n \in MinLen..MaxLen : o = [k \in 1..n |-> -1]
       [] md = "eager" -> sq = <<>> /\ \E n \in 0..MaxLenE : o \in [1..n -> Alphabet]
       [] md = "enc"   -> \E ids \in IdSeqs, pm \in 1..3, cut \in 0..MaxCut :
                              LET b == EncSeq(OpsOf(ids), PadModes[pm]) IN
                              /\ cut <= (IF Len(ids) <= 2 THEN MaxCut ELSE MaxCut2)
                              /\ cut < (IF Len(b) = 0 THEN 1 ELSE Len(b))
                              /\ o = SubSeq(b, 1, Len(b) - cut)
                              /\ sq = <<ids, pm, cut>>
  /\ d = IF Len(o) = 0 THEN 1 ELSE 0

Iter == IF pz = 0 THEN TcpIter(o, i, r, Alphabet, Slack)
                  ELSE SynIter(o, i, r, pz = 2, Alphabet, Slack)

Next == /\ d = 0
        /\ \E out \in Iter : o' = out[1] /\ i' = out[2] /\ r' = out[3] /\ d' = out[4] /\ mx' = out[5]
        /\ UNCHANGED <<md, pz, sq>>

Spec == Init /\ [][Next]_vars
FairSpec == Spec /\ WF_vars(Next)

-----------------------------------------------------------------------------
InBounds == mx < Len(o) /\ i >= 0 /\ i <= Len(o)            \* every read index < limit
Progress == [][i' > i \/ d' # 0]_vars                         \* the cursor advances or the parser returns
NoStuck == d = 0 => Iter # {}                                 \* a running parser always has a next iteration
Terminates == <>(d # 0)                                       \* (liveness: small configurations only)

(* "the parser recovers every option an encoder sequence produced" *)
Expect == IF pz = 0 THEN ExpectTcp(Ops) ELSE ExpectSyn(Ops, pz = 2)
Recovered == (md = "enc" /\ d # 0 /\ Cut = 0) => (r = Expect /\ d \in {1, 2})

=============================================================================
