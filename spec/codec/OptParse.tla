------------------------------ MODULE OptParse ------------------------------
(* E1 for the option parsers of C15: the loop of ParseSynOptions /
   ParseTCPOptions (Codec!SynIter / TcpIter) as a state machine with cursor
   i and limit = Len(o).

   Mode "lazy":  o starts completely unread; a byte is chosen from Alphabet
                 when the parser reads it.  The terminal states partition
                 Alphabet^n into cylinders (one per distinct read pattern),
                 so the run covers EVERY string of length <= MaxLen while
                 visiting far fewer states; the dump of terminal states is
                 the oracle for the replay into the real parsers.
   Mode "eager": o is chosen completely in Init (the literal enumeration;
                 small MaxLen; cross-check of the lazy construction).
   Mode "enc":   o = EncSeq of an encoder sequence of <= MaxOps option
                 instances plus padding, optionally truncated by cut bytes;
                 Recovered: the parser result is what the sequence says.   *)
EXTENDS Codec, TLC

CONSTANTS Parsers,    \* subset of {0, 1, 2}: 0 = ParseTCPOptions, 1 = ParseSynOptions(isAck = false),
                      \* 2 = ParseSynOptions(isAck = true); chosen in Init (one TLC start covers all)
          Mode,       \* "lazy" | "eager" | "enc"
          MaxLen,     \* lazy/eager: string lengths 0..MaxLen
          MaxOps,     \* enc: options per sequence
          MaxCut,     \* enc: truncate by 0..MaxCut bytes
          Big,        \* enc: larger instance list
          Slack       \* 0 = transcription; 1 = seeded off-by-one (self-test)

VARIABLES pz, o, i, r, d, mx, sq
vars == <<pz, o, i, r, d, mx, sq>>

(* EOL NOP MSS WS SACKperm SACK TS kinds; 10 18 255 lengths (with 0..4); 171
   an unknown kind / data byte.  Every symbol may appear in every role. *)
Alphabet == {0, 1, 2, 3, 4, 5, 8, 10, 18, 171, 255}

ASSUME Mode = "lazy" => MaxLen <= 9      \* a 10-byte option body would be chosen at once

Inst == IF Big THEN InstBig ELSE InstSmall
PadModes == <<"none", "nop", "eol">>

IdSeqs == UNION {[1..k -> 1..Len(Inst)] : k \in 0..MaxOps}
OpsOf(ids) == [k \in DOMAIN ids |-> Inst[ids[k]]]
(* sq = <<ids, pad mode index, cut>> *)
Ops == OpsOf(sq[1])
Cut == sq[3]

Init ==
  /\ pz \in Parsers
  /\ i = 0 /\ mx = -1
  /\ r = IF pz = 0 THEN TcpDefault ELSE SynDefault
  /\ CASE Mode = "lazy"  -> sq = <<>> /\ \E n \in 0..MaxLen : o = [k \in 1..n |-> -1]
       [] Mode = "eager" -> sq = <<>> /\ \E n \in 0..MaxLen : o \in [1..n -> Alphabet]
       [] Mode = "enc"   -> \E ids \in IdSeqs, pm \in 1..3, cut \in 0..MaxCut :
                              LET b == EncSeq(OpsOf(ids), PadModes[pm]) IN
                              /\ cut < (IF Len(b) = 0 THEN 1 ELSE Len(b))
                              /\ o = SubSeq(b, 1, Len(b) - cut)
                              /\ sq = <<ids, pm, cut>>
  /\ d = IF Len(o) = 0 THEN 1 ELSE 0

Iter == IF pz = 0 THEN TcpIter(o, i, r, Alphabet, Slack)
                  ELSE SynIter(o, i, r, pz = 2, Alphabet, Slack)

Next == /\ d = 0
        /\ \E out \in Iter : o' = out[1] /\ i' = out[2] /\ r' = out[3] /\ d' = out[4] /\ mx' = out[5]
        /\ UNCHANGED <<pz, sq>>

Spec == Init /\ [][Next]_vars
FairSpec == Spec /\ WF_vars(Next)

-----------------------------------------------------------------------------
InBounds == mx < Len(o) /\ i >= 0 /\ i <= Len(o)            \* every read index < limit
Progress == [][i' > i \/ d' # 0]_vars                         \* the cursor advances or the parser returns
NoStuck == d = 0 => Iter # {}                                 \* a running parser always has a next iteration
Terminates == <>(d # 0)                                       \* (liveness: small configurations only)

(* "the parser recovers every option an encoder sequence produced" *)
Expect == IF pz = 0 THEN ExpectTcp(Ops) ELSE ExpectSyn(Ops, pz = 2)
Recovered == (Mode = "enc" /\ d # 0 /\ Cut = 0) => (r = Expect /\ d \in {1, 2})

=============================================================================
