------------------------------ MODULE OptParse ------------------------------
(* E1 for the option parsers of C15: the loop of ParseSynOptions /
   ParseTCPOptions (Codec!SynIter / TcpIter) as a state machine with cursor
   i and limit = Len(o).

   Mode "lazy":  o starts completely unread; a byte is chosen from Alphabet
                 when the parser reads it.  The terminal states partition
                 Alphabet^n into cylinders (one per distinct read pattern),
                 so the run covers EVERY string of length <= MaxLen while
                 visiting far fewer states; the dump of terminal states is
                 the oracle for the replay into the real parsers.
   Mode "eager": o is chosen completely in Init (the literal enumeration;
                 small MaxLen; cross-check of the lazy construction).
   Mode "enc":   o = EncSeq of an encoder sequence of <= MaxOps option
                 instances plus padding, optionally truncated by cut bytes;
                 Recovered: the parser result is what the sequence says.   *)
EXTENDS Codec, TLC

CONSTANTS Parser,     \* "syn" | "tcp"
          IsAck,      \* BOOLEAN (syn only)
          Mode,       \* "lazy" | "eager" | "enc"
          MaxLen,     \* lazy/eager: string lengths 0..MaxLen
          MaxOps,     \* enc: options per sequence
          MaxCut,     \* enc: truncate by 0..MaxCut bytes
          Big,        \* enc: larger instance list
          Slack       \* 0 = transcription; 1 = seeded off-by-one (self-test)

VARIABLES o, i, r, d, mx, sq
vars == <<o, i, r, d, mx, sq>>

(* EOL NOP MSS WS SACKperm SACK TS kinds; 10 18 255 lengths (with 0..4); 171
   an unknown kind / data byte.  Every symbol may appear in every role. *)
Alphabet == {0, 1, 2, 3, 4, 5, 8, 10, 18, 171, 255}

ASSUME Mode = "lazy" => MaxLen <= 9      \* a 10-byte option body would be chosen at once

V1 == <<1, 2, 3, 4>>
V2 == <<255, 254, 253, 252>>
V3 == <<128, 0, 0, 127>>
Blk(b) == <<b, 1, 2, 3, b, 4, 5, 6>>
InstSmall == << <<"mss", 1460>>, <<"mss", 65535>>, <<"ws", 7>>, <<"ws", 15>>, <<"ts", V1, V2>>,
                <<"sackperm">>, <<"sack", <<Blk(16)>> >>, <<"sack", <<Blk(32), Blk(33)>> >>,
                <<"nop">>, <<"eol">>, <<"unk", 171, <<5>> >> >>
InstBig == InstSmall \o
           << <<"mss", 1>>, <<"mss", 258>>, <<"ws", 0>>, <<"ws", 14>>, <<"ws", 255>>, <<"ts", V3, V1>>,
              <<"sack", <<Blk(48), Blk(49), Blk(50)>> >>, <<"sack", <<Blk(64), Blk(65), Blk(66), Blk(67)>> >>,
              <<"unk", 30, <<>> >>, <<"unk", 254, <<0, 1>> >> >>
Inst == IF Big THEN InstBig ELSE InstSmall
PadModes == <<"none", "nop", "eol">>

IdSeqs == UNION {[1..k -> 1..Len(Inst)] : k \in 0..MaxOps}
OpsOf(ids) == [k \in DOMAIN ids |-> Inst[ids[k]]]
(* sq = <<ids, pad mode index, cut>> *)
Ops == OpsOf(sq[1])
Cut == sq[3]

Default == IF Parser = "syn" THEN SynDefault ELSE TcpDefault

Init ==
  /\ i = 0 /\ r = Default /\ mx = -1
  /\ CASE Mode = "lazy"  -> sq = <<>> /\ \E n \in 0..MaxLen : o = [k \in 1..n |-> -1]
       [] Mode = "eager" -> sq = <<>> /\ \E n \in 0..MaxLen : o \in [1..n -> Alphabet]
       [] Mode = "enc"   -> \E ids \in IdSeqs, pm \in 1..3, cut \in 0..MaxCut :
                              LET b == EncSeq(OpsOf(ids), PadModes[pm]) IN
                              /\ cut = 0 \/ cut < Len(b)
                              /\ o = SubSeq(b, 1, Len(b) - cut)
                              /\ sq = <<ids, pm, cut>>
  /\ d = IF Len(o) = 0 THEN 1 ELSE 0

Iter == IF Parser = "syn" THEN SynIter(o, i, r, IsAck, Alphabet, Slack)
                          ELSE TcpIter(o, i, r, Alphabet, Slack)

Next == /\ d = 0
        /\ \E out \in Iter : o' = out[1] /\ i' = out[2] /\ r' = out[3] /\ d' = out[4] /\ mx' = out[5]
        /\ UNCHANGED sq

Spec == Init /\ [][Next]_vars /\ WF_vars(Next)

-----------------------------------------------------------------------------
InBounds == mx < Len(o) /\ i >= 0 /\ i <= Len(o)            \* every read index < limit
Progress == [][i' > i \/ d' # 0]_vars                         \* the cursor advances or the parser returns
Terminates == <>(d # 0)

(* "the parser recovers every option an encoder sequence produced" *)
Expect == IF Parser = "syn" THEN ExpectSyn(Ops, IsAck) ELSE ExpectTcp(Ops)
Recovered == (Mode = "enc" /\ d # 0 /\ Cut = 0) => (r = Expect /\ d \in {1, 2})

(* exported for the replay: instances with their reference encoding *)
InstTable == [k \in DOMAIN Inst |-> [op |-> Inst[k], bytes |-> EncOpt(Inst[k])]]
=============================================================================
