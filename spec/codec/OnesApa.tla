------------------------------- MODULE OnesApa -------------------------------
(* E6: facts about Ones!Combine for ALL a, b, c in 0..65535, decided by
   Apalache (apalache-mc check --length=0 --inv=Inv OnesApa.tla). *)
EXTENDS Ones
VARIABLES
  \* @type: Int;
  a,
  \* @type: Int;
  b,
  \* @type: Int;
  c
W == 0..65535
Init == a \in W /\ b \in W /\ c \in W
Next == UNCHANGED <<a, b, c>>
Inv == /\ Combine(a, b) \in W                                                      \* total, stays 16 bit
       /\ Combine(a, b) = Combine(b, a)                                            \* commutative
       /\ Combine(Combine(a, b), c) = Combine(a, Combine(b, c))                    \* associative
       /\ Combine(a, b) = (IF a + b = 0 THEN 0 ELSE ((a + b - 1) % 65535) + 1)     \* = the sum mod 65535, 0 only from 0+0
       /\ Combine(a, 0) = a
       /\ (a # 0 \/ b # 0) => Combine(a, b) # 0
       /\ Combine(a, 65535 - a) = 65535                                            \* x + ~x = -0
(* sensitivity self-test: the carry dropped instead of wrapped around must be refuted *)
BadCombine(x, y) == LET s == x + y IN IF s > 65535 THEN s - 65536 ELSE s
InvBad == BadCombine(a, b) = (IF a + b = 0 THEN 0 ELSE ((a + b - 1) % 65535) + 1)
=============================================================================
