-------------------------------- MODULE Ones --------------------------------
(* One's-complement addition of two 16-bit quantities (RFC 1071: sum with
   end-around carry).  Kept in a module of its own so that Apalache can check
   its algebra over all 2^32 argument pairs (OnesApa) while Codec / TLC use
   the very same definition. *)
EXTENDS Integers
Combine(a, b) == LET s == a + b IN IF s > 65535 THEN s - 65535 ELSE s
=============================================================================
