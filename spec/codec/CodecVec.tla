------------------------------ MODULE CodecVec ------------------------------
(* One TLC start that (1) checks the ASSUME-level facts about Codec (layouts
   tile their headers, Dec inverts Enc, checksum algebra on the supplied
   buffers) and (2) evaluates the reference on test vectors and writes the
   EXPECTED values to out.json for the Go driver:
     layouts, fixed      the layout table as data (drives the generic sweep)
     vectors[h]          records drawn per field from {0, 1, max-1, max,
                         walking-one bits} over an all-zero and an all-max
                         base, plus seeded random records; with Enc bytes
     dnsq                DNS question sections
     inst                option instances with reference encodings
     sums                Sum1071 of the supplied (buffer, init) cases
     pkts                checksum field values of supplied packets
     grid                Combine(a, b) on a supplied grid
   in.json comes from tools/checks/c15.py: pool (seeded random bytes), nrand,
   sums, pkts, grid_a, grid_b, dnsq.                                         *)
EXTENDS Codec, TLC, Json

VARIABLE x

In == JsonDeserialize("in.json")
Pool == In.pool
NP == Len(Pool)

(* seeded pseudo-random field values drawn from the pool; k is any natural *)
PoolAt(k) == Pool[(k % NP) + 1]
RandVal(f, k) ==
  IF IsNum(f)
  THEN ((PoolAt(4 * k) % 64) * 16777216 + PoolAt(4 * k + 1) * 65536 + PoolAt(4 * k + 2) * 256 + PoolAt(4 * k + 3))
       % Pow2(f.width)
  ELSE [j \in 1..(f.width \div 8) |-> PoolAt(4 * k + j)]

Free(h) == DOMAIN Layouts[h].fields \ DOMAIN Fixed[h]
MaxVal(f) == IF IsNum(f) THEN Pow2(f.width) - 1 ELSE AllByte(f.width \div 8, 255)
MinVal(f) == IF IsNum(f) THEN 0 ELSE AllByte(f.width \div 8, 0)

BaseOf(h, V(_)) == [n \in DOMAIN Layouts[h].fields |->
                      IF n \in DOMAIN Fixed[h] THEN Fixed[h][n] ELSE V(Layouts[h].fields[n])]
ZeroBase(h) == BaseOf(h, MinVal)
MaxBase(h)  == BaseOf(h, MaxVal)
RandRec(h, b) == BaseOf(h, LAMBDA f : RandVal(f, 131 * b + 7 * FStart(f) + 3))

Vectors(h) ==
  LET fs == Layouts[h].fields IN
  UNION {{[base EXCEPT ![n] = v] : v \in Boundary(fs[n])} : base \in {ZeroBase(h), MaxBase(h)}, n \in Free(h)}
  \cup {RandRec(h, b) : b \in 1..In.nrand}

VecOut(h) == SetToSeq({[rec |-> v, bytes |-> Enc(Layouts[h], v)] : v \in Vectors(h)})

AllVec == [h \in DOMAIN Layouts |-> VecOut(h)]

RoundTrip(av) == \A h \in DOMAIN Layouts : \A k \in DOMAIN av[h] :
                   /\ RecOK(Layouts[h], av[h][k].rec)
                   /\ Len(av[h][k].bytes) = Layouts[h].size
                   /\ Dec(Layouts[h], av[h][k].bytes) = av[h][k].rec

-----------------------------------------------------------------------------
SumOut == [k \in DOMAIN In.sums |-> Sum1071(In.sums[k].buf, In.sums[k].init)]

(* packets: kind "ip4" (hdr = IPv4 header), "tcp"/"udp" (hdr = transport
   header incl. options, src/dst 4 or 16 bytes) *)
PktCksum(p) ==
  CASE p.kind = "ip4" -> CksumField(p.hdr, 10, 0)
    [] p.kind = "tcp" -> TransportCksum(p.src, p.dst, 6, p.hdr, 16, p.payload)
    [] p.kind = "udp" -> TransportCksum(p.src, p.dst, 17, p.hdr, 6, p.payload)
PktOut == [k \in DOMAIN In.pkts |->
             LET p == In.pkts[k] IN
             [cksum  |-> PktCksum(p),
              pseudo |-> IF p.kind = "ip4" THEN 0       \* what PseudoHeaderChecksum returns: no length yet
                         ELSE Sum1071(p.src \o p.dst \o <<0, IF p.kind = "tcp" THEN 6 ELSE 17>>, 0)]]

(* "a packet carrying the complemented sum verifies" at model level *)
PktVerifies(p) ==
  CASE p.kind = "ip4" -> Verifies(PutU16(p.hdr, 10, PktCksum(p)), 0)
    [] p.kind = "tcp" -> LET seg == PutU16(p.hdr, 16, PktCksum(p)) \o p.payload IN
                         Verifies(Pseudo(p.src, p.dst, 6, Len(seg)) \o seg, 0)
    [] p.kind = "udp" -> LET seg == PutU16(p.hdr, 6, PktCksum(p)) \o p.payload IN
                         Verifies(Pseudo(p.src, p.dst, 17, Len(seg)) \o seg, 0)

GridOut == [a \in DOMAIN In.grid_a |-> [b \in DOMAIN In.grid_b |-> Combine(In.grid_a[a], In.grid_b[b])]]

(* checksum algebra on the boundary set and on the supplied buffers *)
BS == {0, 1, 2, 255, 256, 32767, 32768, 65279, 65534, 65535}
CombineAlgebra ==
  /\ \A a, b \in BS : Combine(a, b) = Combine(b, a) /\ Combine(a, b) \in 0..65535
  /\ \A a, b, c \in BS : Combine(Combine(a, b), c) = Combine(a, Combine(b, c))
  /\ \A a \in BS : Combine(a, 0) = a /\ SameOC(Combine(a, 65535), a) /\ SameOC(Combine(a, Compl(a)), 65535)
  /\ \A a, b \in BS : Combine(a, b) = IF a + b = 0 THEN 0 ELSE ((a + b - 1) % 65535) + 1
SumAlgebra ==
  \A k \in DOMAIN In.sums :
    LET c == In.sums[k]  n == Len(c.buf) IN
    (~c.alg) \/
    /\ \A cut \in {j \in 0..n : j % 2 = 0} :                   \* incremental summing over an even split
         Sum1071(c.buf, c.init) = Sum1071(SubSeq(c.buf, cut + 1, n), Sum1071(SubSeq(c.buf, 1, cut), c.init))
    /\ \A at \in {j \in 0..(n - 2) : j % 2 = 0} :              \* the complemented sum makes the buffer verify
         Verifies(PutU16(c.buf, at, CksumField(c.buf, at, c.init)), c.init)

DnsOut == [k \in DOMAIN In.dnsq |->
             [labels |-> In.dnsq[k].labels, qtype |-> In.dnsq[k].qtype, qclass |-> In.dnsq[k].qclass,
              bytes |-> EncQuestion(In.dnsq[k].labels, In.dnsq[k].qtype, In.dnsq[k].qclass)]]

(* SACK blocks into limited option space (RFC 2018: at most 4 blocks; the encoder is handed whatever room the other options left):
   the leading blocks that fit are encoded, nothing else is written.  Table: entry [n + 1][sp + 1] = bytes for n blocks, sp bytes of room. *)
SackBlk(i) == <<i, 1, 2, 3, i, 5, 6, 7 + i>>
SackMin(a, b) == IF a < b THEN a ELSE b
SackFit(n, sp) == LET k == SackMin(SackMin(n, 4), IF sp < 10 THEN 0 ELSE (sp - 2) \div 8) IN
                  IF k = 0 THEN <<>> ELSE EncOpt(<<"sack", [i \in 1..k |-> SackBlk(i)]>>)
SackFitOut == [n1 \in 1..7 |-> [sp1 \in 1..46 |-> SackFit(n1 - 1, sp1 - 1)]]

Export(av) == [layouts |-> Layouts, sackfit |-> SackFitOut, fixed |-> Fixed, nummax |-> NumMax,
               vectors |-> av,
               dnsq |-> DnsOut,
               inst_small |-> InstTable(InstSmall), inst_big |-> InstTable(InstBig),
               sums |-> SumOut, pkts |-> PktOut, grid |-> GridOut]

ASSUME LayoutsOK
ASSUME \A h \in DOMAIN Layouts : \A v \in {ZeroBase(h), MaxBase(h)} \cup {RandRec(h, b) : b \in 1..4} :
         Enc(Layouts[h], v) = EncDef(Layouts[h], v)
ASSUME CombineAlgebra
ASSUME SumAlgebra
ASSUME \A k \in DOMAIN In.pkts : PktVerifies(In.pkts[k])

(* The vector table is the (single) state, so that it is computed exactly
   once; RoundTrip and the export are evaluated on it as an invariant. *)
Init == x = AllVec
Next == UNCHANGED x
Spec == Init /\ [][Next]_x
Checked == RoundTrip(x) /\ JsonSerialize("out.json", Export(x))
=============================================================================
