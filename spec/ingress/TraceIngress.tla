---------------------------- MODULE TraceIngress ----------------------------
(* Trace validator for C07: events recorded by harness/ingressd (parent role)
   against the outcome classes of Ingress.tla and `Serving`.
     reset                       a batch starts
     inject  id, c, obs          abstract case c was concretised and injected; obs = observation classes
                                 attributed to it (frames emitted on the injecting goroutine or carrying the
                                 case's tag, datagrams delivered to the bound socket) up to the echo barrier
     late    id, c, cls          an observation attributed to an earlier case by its tag
     noise   seed, from, n       seeded noise frames (judged against Serving only)
     probe   echo, tcp, udp, est the liveness probes after the batch
     crash   ...                 the child died / hung: NO action of this specification matches it *)
EXTENDS Ingress, TraceIO

TInit == l = 1 /\ HWInit /\ Init
TReset == IsEvent("reset") /\ n' = 0 /\ UNCHANGED <<last, serving>>
TInject == /\ IsEvent("inject")
           /\ ObsOK(Ev.c, SeqToSet(Ev.obs))
           /\ n' = n + 1 /\ UNCHANGED <<last, serving>>
TLate == /\ IsEvent("late")
         /\ Ev.cls \in MayObsC(Ev.c)
         /\ UNCHANGED <<n, last, serving>>
TNoise == IsEvent("noise") /\ n' = n + Ev.n /\ UNCHANGED <<last, serving>>
(* Serving: the probes succeed after any sequence.  `est` (the connection that
   was established before the barrage still echoes) belongs to "does not
   deadlock or corrupt itself". *)
TProbe == /\ IsEvent("probe")
          /\ serving' = [echo |-> Ev.echo, tcp |-> Ev.tcp, udp |-> Ev.udp]
          /\ Ev.echo /\ Ev.tcp /\ Ev.udp /\ Ev.est
          /\ UNCHANGED <<n, last>>
TNext == TReset \/ TInject \/ TLate \/ TNoise \/ TProbe
tvars == <<l, n, last, serving>>
TSpec == TInit /\ [][TNext]_tvars
=============================================================================
