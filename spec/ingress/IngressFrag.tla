---------------------------- MODULE IngressFrag ----------------------------
(* C07, fragment part: implementation-shaped model of one reassembly queue
   (ipv4.HandlePacket's first/last computation in uint16 + the RFC 815 hole
   list of protocol/network/fragmentation) under UNRESTRICTED fragment
   sequences: inconsistent, overlapping, contradictory, several "last"
   fragments, zero-length fragments, offsets at 65528 where `last` wraps.
   Unit: blocks of 8 bytes; arithmetic modulo 8192 blocks = 65536 bytes.
   FailSoft = TRUE : a failed reassembly releases the queue (the repaired code)
   FailSoft = FALSE: it panics (the code before the repair) - used as a model
                     self-test: TLC must find the two-"last"-fragments crash. *)
EXTENDS Integers, Sequences, FiniteSets, TLC
CONSTANTS NB, MaxArr, FailSoft
MAXB == 8191
W(x) == x % 8192
Frags == {f \in [first : 0..(NB - 1), nb : 1..NB, more : BOOLEAN] : f.first + f.nb <= NB}
         \cup [first : {MAXB}, nb : {1, 2}, more : BOOLEAN]
         \cup [first : {0, 2}, nb : {0}, more : BOOLEAN]
VARIABLES holes, deleted, heap, crashed, cur, narr, fsize, rsize, lastOut, okOut
vars == <<holes, deleted, heap, crashed, cur, narr, fsize, rsize, lastOut, okOut>>
Fresh == << [first |-> 0, last |-> MAXB, del |-> FALSE] >>
Init == /\ holes = Fresh /\ deleted = 0 /\ heap = <<>> /\ crashed = FALSE /\ cur = {} /\ narr = 0
        /\ fsize = 0 /\ rsize = 0 /\ lastOut = -1 /\ okOut = TRUE
Last(f) == W(f.first + f.nb + 8192 - 1)          \* uint16: first + size - 1
RECURSIVE Upd(_, _, _, _, _, _, _)               \* reassembler.updateHoles; the range is evaluated once
Upd(hs, i, n, f, l, used, del) ==
  IF i > n THEN [hs |-> hs, used |-> used, del |-> del]
  ELSE LET h == hs[i] IN
    IF h.del \/ f.first > h.last \/ l < h.first THEN Upd(hs, i + 1, n, f, l, used, del)
    ELSE LET hs1 == [hs EXCEPT ![i].del = TRUE]
             hs2 == IF f.first > h.first THEN Append(hs1, [first |-> h.first, last |-> f.first - 1, del |-> FALSE]) ELSE hs1
             hs3 == IF l < h.last /\ f.more THEN Append(hs2, [first |-> l + 1, last |-> h.last, del |-> FALSE]) ELSE hs2
         IN Upd(hs3, i + 1, n, f, l, TRUE, del + 1)
RECURSIVE Reasm(_, _, _)                         \* fragHeap.reassemble over the offset-sorted fragments
Reasm(frs, size, isfirst) ==
  IF frs = <<>> THEN [ok |-> TRUE, size |-> size]
  ELSE LET c == Head(frs) IN
     IF isfirst THEN (IF c.off # 0 THEN [ok |-> FALSE, size |-> 0] ELSE Reasm(Tail(frs), c.len, FALSE))
     ELSE IF c.off > size THEN [ok |-> FALSE, size |-> size]
     ELSE Reasm(Tail(frs), size + (IF c.off < size THEN (IF size - c.off >= c.len THEN 0 ELSE c.len - (size - c.off)) ELSE c.len), FALSE)
RECURSIVE SortHeap(_)
SortHeap(s) == IF s = {} THEN <<>> ELSE
               LET m == CHOOSE x \in s : \A y \in s : x.off < y.off \/ (x.off = y.off /\ x.k <= y.k)
               IN <<m>> \o SortHeap(s \ {m})
HeapSet(h) == {[off |-> h[i].off, len |-> h[i].len, k |-> i] : i \in DOMAIN h}
Normal(g) == g.first < NB /\ g.nb >= 1
Covered(S, L) == \A b \in 0..L : \E g \in S : g.first <= b /\ b <= g.first + g.nb - 1
Release == /\ holes' = Fresh /\ deleted' = 0 /\ heap' = <<>> /\ cur' = {} /\ rsize' = 0
Arrive(f) ==
  /\ narr < MaxArr /\ ~crashed /\ narr' = narr + 1
  /\ LET l == Last(f)
         u == Upd(holes, 1, Len(holes), f, l, FALSE, deleted)
         heap1 == Append(heap, [off |-> f.first, len |-> f.nb])
         seen1 == cur \cup {f}
     IN IF (f.first = 0 /\ ~f.more) \/ ~u.used       \* offset 0 without MF is not a fragment at all
        THEN UNCHANGED <<holes, deleted, heap, crashed, cur, fsize, rsize, lastOut, okOut>>
        ELSE IF u.del < Len(u.hs)
        THEN /\ holes' = u.hs /\ deleted' = u.del /\ heap' = heap1 /\ cur' = seen1
             /\ fsize' = fsize + f.nb /\ rsize' = rsize + f.nb /\ UNCHANGED <<crashed, lastOut, okOut>>
        ELSE LET r == Reasm(SortHeap(HeapSet(heap1)), 0, TRUE) IN
             IF r.ok
             THEN /\ Release /\ fsize' = fsize + f.nb - (rsize + f.nb) /\ lastOut' = r.size /\ UNCHANGED crashed
                  /\ okOut' = ((\A g \in seen1 : Normal(g)) => \E g \in seen1 : ~g.more /\ Covered(seen1, g.first + g.nb - 1))
             ELSE IF FailSoft
             THEN /\ Release /\ fsize' = fsize + f.nb - (rsize + f.nb) /\ UNCHANGED <<crashed, lastOut, okOut>>
             ELSE /\ crashed' = TRUE /\ UNCHANGED <<holes, deleted, heap, cur, fsize, rsize, lastOut, okOut>>
Next == \E f \in Frags : Arrive(f)
Spec == Init /\ [][Next]_vars
NoCrash == ~crashed
DeliverOnlyComplete == okOut
AccountingOK == fsize >= 0 /\ fsize = rsize
=============================================================================
