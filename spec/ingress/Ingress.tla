---------------------------- MODULE Ingress ----------------------------
(* C07 - no inbound frame sequence can crash the stack or stop it serving.

   The ingress pipeline as a DECISION FUNCTION over an abstract mutation
   lattice.  A frame is a record of field CLASSES (never concrete bytes,
   except TCP option strings, which come from the small grammar below).
   `Num*` gives the numbers a concretiser must use for a class (the Go
   harness follows them and asserts the resulting sizes), `Outcome` gives the
   OUTCOME CLASS where the property text (plus the RFC validity rules it
   names: truncated / inconsistent length, offset, option, flag fields)
   fixes one:
        DropAt(layer)    nothing observable may result from the frame
        DeliverTo(sock)  the datagram must reach the bound socket
        Reply(kind)      the stack must answer (echo reply, RST, ARP reply, NA)
        Unspecified      the property does not say (anything but a crash)
   and `Serving` is the property proper: there is NO crash transition in this
   specification, and after every sequence of injections the three liveness
   probes (echo, TCP connect + echo of data, UDP delivery) succeed.

   Targets ("abstract stack state" a frame is aimed at): a listener, an
   established connection, a bound UDP socket, or nothing.

   The lattice is finite by construction; TLC enumerates it (E1) and the
   enumeration is also the test-case generator (DumpCases). *)
EXTENDS Integers, Sequences, FiniteSets, TLC, SequencesExt, Json

CONSTANTS MaxLen,      \* injections per behaviour in the closed model
          Scope,       \* "all": the full lattice; "thin": every class of every field, fewer cross products (quick tier)
          SeqLen,      \* longest fragment / segment sequence
          DumpFile     \* "" or the ndjson file the cases are dumped to

T(full, thin) == IF Scope = "thin" THEN thin ELSE full
Max2(a, b) == IF a > b THEN a ELSE b
Min2(a, b) == IF a < b THEN a ELSE b

-----------------------------------------------------------------------------
(* Sizes fixed by the concretiser *)
PayLen   == 16          \* TCP / UDP / unknown-protocol payload bytes
UdpLen   == 8 + PayLen  \* actual UDP datagram
NB       == 4           \* fragment block model: datagram of NB blocks of 8 bytes
HiBlk    == 8191        \* fragment offset 65528

-----------------------------------------------------------------------------
(* TCP option grammar: byte strings.  kinds: 2 MSS, 3 WS, 4 SACK-permitted,
   5 SACK, 8 timestamps, 99 unknown.  Every kind: well-formed, wrong length
   byte (0, 1, 255, off by one), truncated after every interesting prefix.
   Padding NOPs go in FRONT so that a truncated option ends the option area. *)
NOP == 1
Rep(b, n) == [i \in 1..n |-> b]
GoodOpt(k) == CASE k = 2  -> <<2, 4, 5, 180>>
                [] k = 3  -> <<3, 3, 7>>
                [] k = 4  -> <<4, 2>>
                [] k = 5  -> <<5, 10, 0, 0, 0, 10, 0, 0, 0, 20>>
                [] k = 8  -> <<8, 10, 0, 0, 0, 1, 0, 0, 0, 0>>
                [] k = 99 -> <<99, 4, 170, 187>>
Kinds == {2, 3, 4, 5, 8, 99}
WithLen(o, l) == [o EXCEPT ![2] = l]
BadLens(k) == {0, 1, 255, Len(GoodOpt(k)) - 1, Len(GoodOpt(k)) + 1}
OptPrefixes(o) == {SubSeq(o, 1, n) : n \in ({1, 2, 3, 6, Len(o) - 1} \cap 1..(Len(o) - 1))}
Atoms == UNION {{GoodOpt(k)} \cup {WithLen(GoodOpt(k), l) : l \in BadLens(k)} \cup OptPrefixes(GoodOpt(k)) : k \in Kinds}
         \cup { <<5, 2>>, <<5, 7, 0, 0, 0, 1, 0>>,                 \* SACK with no block / bad modulus
                <<5, 34>> \o Rep(0, 32), <<5, 34>> \o Rep(0, 31),  \* four blocks / truncated
                <<0, 2, 4, 5, 180>>,                               \* EOL followed by junk
                <<2, 4, 0, 0>>, <<3, 3, 15>> }                     \* MSS 0, WS above the maximum
TypicalSyn == <<2, 4, 5, 180, 4, 2, 8, 10, 0, 0, 0, 1, 0, 0, 0, 0, 1, 3, 3, 7>>
Leads == {<<>>, GoodOpt(2), TypicalSyn}
Pad(s) == Rep(NOP, (4 - (Len(s) % 4)) % 4) \o s
OptAll == {Pad(ld \o a) : ld \in Leads, a \in Atoms} \cup {<<>>, Rep(NOP, 40), TypicalSyn}
OptStrings == {o \in OptAll : Len(o) <= 40}
OptFew == {<<>>, TypicalSyn, Pad(<<2, 4>>), Pad(<<8, 10, 0, 0>>)}

-----------------------------------------------------------------------------
(* Field classes *)
IHL == {"0", "4", "5", "6p", "6a", "15p", "15a"}   \* p: option bytes present, a: claimed but absent
TL  == {"0", "19", "hdr-1", "hdr", "act-1", "act", "act+1", "max"}
FR  == {"none", "df", "mf0", "mfk", "lastk", "lastmax"}
DST == {"own", "other", "bcast"}
SP  == {"one", "hdr", "small", "mid"}              \* view split
Env4Star  == [ihl : IHL, tl : {"act"}, fr : {"none"}, dst : {"own"}, sp : {"one"}, ck : {"ok"}, ver : {4}]
             \cup [ihl : {"5"}, tl : TL, fr : {"none"}, dst : {"own"}, sp : {"one"}, ck : {"ok"}, ver : {4}]
             \cup [ihl : {"5"}, tl : {"act"}, fr : FR, dst : DST, sp : {"one"}, ck : {"ok"}, ver : {4}]
             \cup [ihl : {"5"}, tl : {"act", "act+1"}, fr : {"none"}, dst : {"own"}, sp : SP, ck : {"ok"}, ver : {4}]
             \cup [ihl : IHL, tl : TL, fr : FR, dst : {"own"}, sp : {"one"}, ck : {"ok"}, ver : {4}]
Env4Full  == T([ihl : IHL, tl : TL, fr : FR, dst : DST, sp : SP, ck : {"ok"}, ver : {4}], Env4Star)
Env4OK(s) == [ihl : {"5"}, tl : {"act"}, fr : {"none"}, dst : {"own"}, sp : s, ck : {"ok"}, ver : {4}]
Env4Odd   == [ihl : {"5", "6p"}, tl : {"act"}, fr : {"none"}, dst : {"own"}, sp : {"one"}, ck : {"ok", "bad"}, ver : {0, 4, 6, 15}]

PL6 == {"0", "7", "act-1", "act", "act+1", "max"}
DST6 == {"own", "other", "mcast"}
Env6Full  == T([pl : PL6, dst : DST6, sp : SP, ver : {6}, hop : {64}],
               [pl : PL6, dst : DST6, sp : {"one"}, ver : {6}, hop : {64}] \cup [pl : {"act", "act+1"}, dst : {"own"}, sp : SP, ver : {6}, hop : {64}])
Env6OK(s) == [pl : {"act"}, dst : {"own"}, sp : s, ver : {6}, hop : {255}]
Env6Odd   == [pl : {"act"}, dst : {"own"}, sp : {"one"}, ver : {0, 4, 15}, hop : {0, 1}]

UdpOK  == [ulen |-> "act", tgt |-> "udp", uck |-> "ok"]
UdpAll == [ulen : {"0", "7", "8", "act-1", "act", "act+1"}, tgt : {"udp", "none"}, uck : {"ok", "bad", "zero"}]

NoEmb == [code |-> "-", emb |-> "-", esrc |-> "-", eihl |-> "-", epr |-> "-", efr |-> "-", mtu |-> 0]
IcmpRec(tys, szs, icks) == {[ty |-> t, sz |-> s, ick |-> c] @@ NoEmb : t \in tys, s \in szs, c \in icks}
EMB == {"none", "ip10", "ip20", "ip20+4", "ip20+8", "full"}
EFR == T({"0", "k"}, {"0"})
Unreach(tyname, mtus, eihls) ==
    [ty : {tyname}, sz : {0}, ick : {"ok"}, code : {"port"}, emb : EMB, esrc : {"own", "other"}, eihl : eihls,
     epr : {"tcp", "udp"}, efr : EFR, mtu : {0}]
    \cup
    [ty : {tyname}, sz : {0}, ick : {"ok"}, code : {"big"}, emb : EMB, esrc : {"own", "other"}, eihl : eihls,
     epr : {"tcp", "udp"}, efr : EFR, mtu : mtus]
IcmpEchoOK == [ty |-> "echo", sz |-> 32, ick |-> "ok"] @@ NoEmb
Icmp4All == IcmpRec({"echo", "reply"}, {4, 5, 6, 7, 8, 32}, {"ok", "bad"})
            \cup Unreach("unreach", {0, 19, 20, 68, 576, 65535}, {"5", "15", "0"})
            \cup IcmpRec({"ts", "redirect", "t255"}, {4, 8, 32}, {"ok"})
(* ICMPv6: "unreach" code port = type 1 code 4; code big = type 2 (packet too big).
   eihl classes for v6: "5" plain embedded header, "frag" fragment extension header follows,
   "fragshort" a truncated fragment header follows. *)
Icmp6EchoOK == IcmpEchoOK
NdRec(tys) == {[ty |-> t, sz |-> s, ick |-> "ok"] @@ [NoEmb EXCEPT !.esrc = tg] :
                  t \in tys, s \in {8, 23, 24, 31, 32, 40}, tg \in {"own", "other"}}
SP1 == T(SP, {"one"})                 \* view splits crossed with the transport lattices
NIC12 == T({1, 2}, {1})
Icmp6All == IcmpRec({"echo", "reply"}, {4, 7, 8, 32}, {"ok", "bad"})
            \cup NdRec({"ns", "na"})
            \cup Unreach("unreach", {0, 39, 40, 1280, 65535}, {"5", "frag", "fragshort"})
            \cup IcmpRec({"rs", "t255"}, {4, 8, 32}, {"ok"})

FL == {"S", "SA", "A", "R", "RA", "F", "FA", "PA", "0", "SF", "SR", "UA", "all"}
DOFF == {"0", "4", "fit", "fit+1", "15", "beyond"}
TcpRec(doffs, fls, obs, tgts, sqs, aks, pays) ==
    [doff : doffs, fl : fls, ob : obs, tgt : tgts, sq : sqs, ak : aks, pay : pays]
TcpSynLst == [doff |-> "fit", fl |-> "S", ob |-> GoodOpt(2), tgt |-> "lst", sq |-> "-", ak |-> "-", pay |-> 0]
SQ == {"exact", "minus1", "far", "half"}
AK == {"exact", "old", "future"}
Tcp4All ==
    TcpRec(DOFF, FL, T(OptFew, {<<>>, TypicalSyn}), {"lst", "none"}, {"-"}, {"-"}, T({0, PayLen}, {PayLen}))   \* header fields
    \cup TcpRec(DOFF, FL, T({<<>>, TypicalSyn}, {<<>>}), {"est"}, T({"exact", "far"}, {"exact"}), T({"exact", "old"}, {"exact"}), T({0, PayLen}, {PayLen}))
    \cup TcpRec({"fit"}, T({"S", "SA", "A", "PA"}, {"S", "A"}), OptStrings, {"lst", "none"}, {"-"}, {"-"}, {0})    \* option grammar
    \cup TcpRec({"fit"}, T({"A", "PA", "S"}, {"A"}), OptStrings, {"est"}, {"exact"}, {"exact"}, {0})
    \cup TcpRec({"fit"}, FL, T({<<>>, GoodOpt(5), GoodOpt(8)}, {GoodOpt(5)}), {"est"}, SQ, AK, T({0, PayLen}, {PayLen}))   \* sequence space
Tcp4Split == TcpRec(DOFF, {"S", "PA"}, {<<>>, TypicalSyn}, {"lst", "none"}, {"-"}, {"-"}, {0, PayLen})
Tcp6All ==
    TcpRec(DOFF, FL, {<<>>, TypicalSyn}, {"lst", "none"}, {"-"}, {"-"}, {0, PayLen})
    \cup TcpRec({"fit"}, {"S", "A"}, OptStrings, {"lst"}, {"-"}, {"-"}, {0})
    \cup TcpRec({"fit", "beyond"}, {"A", "PA", "R", "F"}, {<<>>}, {"est"}, {"exact", "far"}, {"exact", "old"}, {0, PayLen})
UnkL4 == [x |-> 0]

F4(nics, envs, pr, l4s) == [k : {"ip4"}, nic : nics, ip : envs, pr : {pr}, l4 : l4s]
F6(nics, envs, pr, l4s) == [k : {"ip6"}, nic : nics, ip : envs, pr : {pr}, l4 : l4s]
Lattice4 ==
    F4({1}, Env4Full, "udp", {UdpOK}) \cup F4({1}, Env4Full, "icmp", {IcmpEchoOK})
    \cup F4({1}, Env4Full, "tcp", {TcpSynLst}) \cup F4({1}, Env4Full, "unk", {UnkL4})
    \cup F4({1}, Env4Odd, "udp", {UdpOK}) \cup F4({1}, Env4Odd, "icmp", {IcmpEchoOK}) \cup F4({1}, Env4Odd, "tcp", {TcpSynLst})
    \cup F4({1}, Env4OK(SP), "udp", UdpAll)
    \cup F4({1}, Env4OK(SP1), "icmp", Icmp4All) \cup F4({1}, Env4OK(SP), "icmp", IcmpRec({"echo"}, {8, 32}, {"ok"}))
    \cup F4({1}, Env4OK({"one"}), "tcp", Tcp4All)
    \cup F4({1}, Env4OK({"hdr", "small", "mid"}), "tcp", Tcp4Split)
    \cup F4({2}, Env4OK(SP), "udp", {UdpOK}) \cup F4({2}, Env4OK(SP), "icmp", {IcmpEchoOK}) \cup F4({2}, Env4OK(SP), "tcp", {TcpSynLst})
Lattice6 ==
    F6({1}, Env6Full, "udp", {UdpOK}) \cup F6({1}, Env6Full, "icmp", {Icmp6EchoOK})
    \cup F6({1}, Env6Full, "tcp", {TcpSynLst}) \cup F6({1}, Env6Full, "unk", {UnkL4}) \cup F6({1}, Env6Full, "hop", {UnkL4})
    \cup F6({1}, Env6Odd, "udp", {UdpOK}) \cup F6({1}, Env6Odd, "icmp", {Icmp6EchoOK})
    \cup F6({1}, Env6OK(SP), "udp", UdpAll)
    \cup F6(NIC12, Env6OK(SP1), "icmp", Icmp6All) \cup F6({1, 2}, Env6OK(SP), "icmp", IcmpRec({"echo"}, {8, 32}, {"ok"}) \cup NdRec({"ns"}))
    \cup F6({1}, Env6OK({"one"}), "tcp", Tcp6All)
LatticeArp ==
    [k : {"arp"}, nic : T({1, 2}, {2}), sp : T({"one", "small", "mid"}, {"one"}),
     a : [sz : {27, 28, 46}, ht : {1, 2}, pt : {2048, 34525}, hl : {6, 0, 8, 255}, pl : {4, 0, 16},
          op : {0, 1, 2, 3}, tpa : {"own", "other"}]]
    \cup [k : {"arp"}, nic : {1, 2}, sp : {"one", "small", "mid"},
          a : [sz : {27, 28}, ht : {1}, pt : {2048}, hl : {6, 0}, pl : {4}, op : {1, 2}, tpa : {"own"}]]
Frames == Lattice4 \cup Lattice6 \cup LatticeArp

(* Fragment sequences over the block model (DESIGN A.2): unrestricted -
   inconsistent, overlapping, contradictory, two "last" fragments, zero-length
   fragments, offsets at 65528 so that `last` wraps in uint16. *)
FragAlpha == {f \in [first : 0..(NB - 1), nb : 1..NB, more : BOOLEAN] : f.first + f.nb <= NB}
             \cup [first : {HiBlk}, nb : {1, 2}, more : BOOLEAN]
             \cup [first : {0, 2}, nb : {0}, more : BOOLEAN]
SeqsOver(A, n) == UNION {[1..m -> A] : m \in 1..n}
FSeqs == [k : {"fseq"}, pr : {"udp"}, fs : SeqsOver(FragAlpha, SeqLen)]
         \cup [k : {"fseq"}, pr : {"icmp", "tcp"}, fs : SeqsOver(FragAlpha, SeqLen)]
(* Segment sequences on one 4-tuple aimed at the listener.  Letters ending in
   x use the exact sequence/ack numbers learnt from the SYN-ACK (if any). *)
TAlpha == {"S", "So", "SA", "A", "Ax", "PA", "PAx", "R", "Rx", "Fx", "FAx", "BIG", "UNR", "Sx2"}
TSeqs == [k : {"tseq"}, ls : SeqsOver(TAlpha, SeqLen)]
Seqs == FSeqs \cup TSeqs

(* Queue pressure: state accumulated by MANY well-formed frames in one bounded
   queue of the stack (UDP receive buffer of a socket that is not read / read
   late / many small / fragmented datagrams, SYN-RCVD backlog, TCP receive
   buffer with unread data, reassembly memory, neighbour cache), after which
   the application uses the queue and the probes run. *)
PressUdp == {"udp-unread", "udp-late", "udp-small", "udp-frag"}
\* ("neigh-failed": not a queue but state left by the stack's OWN earlier activity - a neighbour that did not answer three
\*  requests (entry failed) and then speaks after all: late ARP reply / request, late neighbour advertisement)
Pressure == [k : {"press"}, q : PressUdp \cup {"syn-backlog", "tcp-rcvbuf", "frag-mem", "neigh", "neigh-failed"}]
(* Segment sequences on an ESTABLISHED connection (opened passively through
   the listener, or actively by the stack), played by a peer that knows the
   real sequence numbers.  A letter is a segment at a fixed place of the peer's
   stream (B = first byte after the SYN, blocks of 5 bytes):
     D0 D1 D2   data block 0/1/2            D1F D2F  data block + FIN
     OV         5 bytes at B+3 (overlap)    F0 F1 F2 bare FIN at B / B+5 / B+10
     Z1         empty ACK at B+5            RI RO    RST in / out of the window
     WE         5 bytes straddling the right window edge
     U0         block 0 with URG            BO       block 0 with a truncated option
     SK         block 1 carrying a SACK block   SY   the SYN again
   so that orders like "D1F D0" are data+FIN arriving out of order and then
   the gap being filled. *)
EAlpha == {"D0", "D1", "D2", "D1F", "D2F", "OV", "F0", "F1", "F2", "Z1", "RI", "RO", "WE", "U0", "BO", "SK", "SY"}
ECore == {"D0", "D1", "D1F", "D2F", "F1", "OV", "Z1", "RI"}
ESeqs == [k : {"eseq"}, mode : {"pas"}, sk : {0, 1}, ls : SeqsOver(EAlpha, T(3, 2))]
         \cup [k : {"eseq"}, mode : {"act"}, sk : {1}, ls : SeqsOver(EAlpha, 2)]
         \cup T([k : {"eseq"}, mode : {"pas"}, sk : {1}, ls : [1..4 -> ECore]], {})
(* ICMP ERROR frames aimed at live state.  ty: v4 net/host/proto/port/big/admin = type 3 codes 0,1,2,3,4,13,
   ttl = type 11, param = type 12; v6 noroute/port = type 1 codes 0,4, big = type 2, ttl = 3, param = 4.
   mtu: the next-hop MTU field of "big" (-1 = 0xffffffff, v6 only).  The quoted datagram names
   tgt: an established connection (plain / timestamps / SACK negotiated; fl: data in flight or idle),
   a connecting (SYN-SENT) socket, a half-open connection of the listener, a connected or a bound UDP
   socket, or nothing; sq: right or wrong quoted sequence number; q: how much of the original is
   quoted (full transport header + 8, 8 bytes, 4 bytes, the IP header only).  The harness then waits
   longer than one retransmission timeout before the probes. *)
MTU4 == {0, 1, 20, 40, 48, 52, 68, 576, 1279, 1280, 65535}
MTU6 == MTU4 \cup {-1}
EstT == {"est", "est-ts", "est-sack"}
OthT == {"synsent", "halfopen", "udp-conn", "udp-bound", "none"}
QQ == {"full", "t8", "t4", "ip"}
IErrRec(v, tys, mtus, tgts, fls, sqs, qs) == [k : {"ierr"}, v : {v}, ty : tys, mtu : mtus, tgt : tgts, fl : fls, sq : sqs, q : qs]
IErrKinds(v, tgts, fls, sqs, qs) ==
    IF v = 4 THEN IErrRec(4, {"net", "host", "proto", "port", "admin", "ttl", "param"}, {0}, tgts, fls, sqs, qs)
                  \cup IErrRec(4, {"big"}, MTU4, tgts, fls, sqs, qs)
             ELSE IErrRec(6, {"noroute", "port", "ttl", "param"}, {0}, tgts, fls, sqs, qs)
                  \cup IErrRec(6, {"big"}, MTU6, tgts, fls, sqs, qs)
IErrs == T(IErrKinds(4, EstT, {"inflight", "idle"}, {"right", "wrong"}, QQ)
           \cup IErrKinds(4, OthT, {"idle"}, {"right", "wrong"}, QQ)
           \cup IErrKinds(6, {"est-ts"}, {"inflight", "idle"}, {"right", "wrong"}, {"full", "t4"})
           \cup IErrKinds(6, {"udp-bound", "none"}, {"idle"}, {"right", "wrong"}, {"full", "t4"}),
           \* thin: every kind against every target, and every MTU x quote against the connections with data in flight
           IErrKinds(4, EstT, {"inflight", "idle"}, {"right"}, {"full"})
           \cup IErrKinds(4, OthT, {"idle"}, {"right"}, {"full"})
           \cup IErrRec(4, {"big"}, MTU4, EstT, {"inflight"}, {"right", "wrong"}, QQ)
           \cup IErrKinds(6, {"est-ts"}, {"inflight"}, {"right"}, {"full", "t4"})
           \cup IErrKinds(6, {"udp-bound", "none"}, {"idle"}, {"right"}, {"full"}))
(* Many holes: n disjoint out-of-order blocks (sz bytes each, gaps of gap bytes, the first gap at
   rcvNxt) on an established connection, sent ascending, descending or shuffled; dup: each block
   again, or "merge": segments that overlap two neighbours and merge them; fill: then the gaps are
   filled.  Exercises the fixed-size per-connection tables (SACK block list of the receiver, the
   out-of-order heap). *)
Holes == [k : {"holes"}, mode : {"pas"}, sk : {0, 1}, n : T(2..12 \cup {40}, {2, 6, 7, 8, 12, 40}), sz : {1, 5}, gap : T({1, 7}, {1}),
          ord : {"asc", "desc", "shuf"}, dup : {"none", "dup", "merge"}, fill : BOOLEAN]
         \cup [k : {"holes"}, mode : {"act"}, sk : {1}, n : T(2..12, {2, 7, 12}), sz : {1, 5}, gap : {1}, ord : {"asc", "desc", "shuf"},
                dup : T({"none", "dup", "merge"}, {"none"}), fill : BOOLEAN]
Cases == Frames \cup Seqs \cup Pressure \cup ESeqs \cup IErrs \cup Holes

-----------------------------------------------------------------------------
(* Numbers for the concretiser *)
IhlW(c) == CASE c = "0" -> 0 [] c = "4" -> 4 [] c = "5" -> 5 [] c \in {"6p", "6a"} -> 6 [] c \in {"15p", "15a"} -> 15
OptPresent(c) == CASE c = "6p" -> 4 [] c = "15p" -> 40 [] OTHER -> 0
EmbLen(e, ipl) == CASE e = "none" -> 0 [] e = "ip10" -> 10 [] e = "ip20" -> ipl [] e = "ip20+4" -> ipl + 4
                    [] e = "ip20+8" -> ipl + 8 [] e = "full" -> ipl + 28
DoffW(t) == LET fit == 5 + (Len(t.ob) \div 4) IN
            CASE t.doff = "0" -> 0 [] t.doff = "4" -> 4 [] t.doff = "fit" -> fit [] t.doff = "fit+1" -> Min2(15, fit + 1)
              [] t.doff = "15" -> 15 [] t.doff = "beyond" -> Min2(15, fit + (t.pay \div 4) + 1)
L4Len(f) == LET l == f.l4 IN
            CASE f.pr = "udp" -> UdpLen
              [] f.pr = "icmp" -> (IF l.ty = "unreach" THEN 8 + EmbLen(l.emb, IF f.k = "ip4" THEN 20 ELSE 40) ELSE l.sz)
              [] f.pr = "tcp" -> 20 + Len(l.ob) + l.pay
              [] OTHER -> PayLen
Hp(f) == IF f.k = "ip4" THEN 20 + OptPresent(f.ip.ihl) ELSE 40      \* header bytes present
Hc(f) == IF f.k = "ip4" THEN 4 * IhlW(f.ip.ihl) ELSE 40             \* header bytes claimed
Act(f) == Hp(f) + L4Len(f)
TlV(f) == LET c == f.ip.tl IN
          CASE c = "0" -> 0 [] c = "19" -> 19 [] c = "hdr-1" -> Max2(Hc(f) - 1, 0) [] c = "hdr" -> Hc(f)
            [] c = "act-1" -> Act(f) - 1 [] c = "act" -> Act(f) [] c = "act+1" -> Act(f) + 1 [] c = "max" -> 65535
PlV(f) == LET c == f.ip.pl IN
          CASE c = "0" -> 0 [] c = "7" -> 7 [] c = "act-1" -> L4Len(f) - 1 [] c = "act" -> L4Len(f)
            [] c = "act+1" -> L4Len(f) + 1 [] c = "max" -> 65535
FragOffV(c) == CASE c \in {"none", "df", "mf0"} -> 0 [] c \in {"mfk", "lastk"} -> 8 [] c = "lastmax" -> 65528
UlenV(c) == CASE c = "0" -> 0 [] c = "7" -> 7 [] c = "8" -> 8 [] c = "act-1" -> UdpLen - 1 [] c = "act" -> UdpLen [] c = "act+1" -> UdpLen + 1
Num(f) ==
    CASE f.k = "ip4" -> [hp |-> Hp(f), ihlw |-> IhlW(f.ip.ihl), act |-> Act(f), tl |-> TlV(f), off |-> FragOffV(f.ip.fr),
                         mf |-> f.ip.fr \in {"mf0", "mfk"}, df |-> f.ip.fr = "df", l4len |-> L4Len(f),
                         ulen |-> IF f.pr = "udp" THEN UlenV(f.l4.ulen) ELSE 0,
                         doffw |-> IF f.pr = "tcp" THEN DoffW(f.l4) ELSE 0]
      [] f.k = "ip6" -> [hp |-> 40, ihlw |-> 0, act |-> Act(f), tl |-> PlV(f), off |-> 0, mf |-> FALSE, df |-> FALSE,
                         l4len |-> L4Len(f), ulen |-> IF f.pr = "udp" THEN UlenV(f.l4.ulen) ELSE 0,
                         doffw |-> IF f.pr = "tcp" THEN DoffW(f.l4) ELSE 0]
      [] OTHER -> [hp |-> 0]

-----------------------------------------------------------------------------
(* Outcome classes *)
DropAt(layer)  == [kind |-> "DropAt", what |-> layer]
DeliverTo(s)   == [kind |-> "DeliverTo", what |-> s]
Reply(kind)    == [kind |-> "Reply", what |-> kind]
Unspecified    == [kind |-> "Unspecified", what |-> "-"]
Layers == {"nic", "ip", "frag", "icmp", "udp", "tcp", "arp"}
ObsClasses == {"echo4", "echo6", "udp", "rst", "synack", "tcp", "arp", "na", "ns", "icmperr", "other", "udpq", "tcpq"}
OutcomeSet == {DropAt(x) : x \in Layers} \cup {DeliverTo("udp"), DeliverTo("udpq"), DeliverTo("tcpq")} \cup {Reply(x) : x \in {"echo4", "echo6", "rst", "arp", "na"}}
              \cup {Unspecified}

(* transport decision; `avail` = L4 bytes the IP layer hands up, `full` = bytes built *)
OutUdp(f, avail, full) ==
    LET l == f.l4  ul == UlenV(l.ulen) IN
    IF avail < 8 \/ ul > avail THEN DropAt("udp")
    ELSE IF ul < 8 \/ ul # avail \/ avail # full THEN Unspecified
    ELSE IF l.tgt = "none" THEN DropAt("udp")
    ELSE IF l.uck = "ok" \/ (l.uck = "zero" /\ f.k = "ip4") THEN DeliverTo("udp") ELSE Unspecified
OutTcp(f, avail, full) ==
    LET t == f.l4  db == 4 * DoffW(t) IN
    IF t.tgt = "est" THEN Unspecified       \* the connection's own segments (handshake, teardown) are observable
    ELSE IF avail < 20 \/ db < 20 \/ db > avail THEN DropAt("tcp")
    ELSE IF avail # full THEN Unspecified
    ELSE IF t.tgt = "none" THEN (IF t.fl \in {"R", "RA", "SR", "all"} THEN DropAt("tcp") ELSE Reply("rst"))
    ELSE Unspecified
OutIcmp4(f, avail, full) ==
    LET l == f.l4 IN
    IF l.ty = "echo" THEN (IF avail < 6 THEN DropAt("icmp")
                           ELSE IF avail < 8 \/ avail # full \/ l.ick # "ok" THEN Unspecified ELSE Reply("echo4"))
    ELSE IF l.ty = "unreach" /\ l.epr = "tcp" THEN Unspecified   \* aimed at an established connection, whose own segments are observable
    ELSE DropAt("icmp")
OutIcmp6(f, avail, full) ==
    LET l == f.l4 IN
    IF l.ty = "echo" THEN (IF avail < 8 THEN DropAt("icmp")
                           ELSE IF avail # full \/ l.ick # "ok" THEN Unspecified ELSE Reply("echo6"))
    ELSE IF l.ty = "ns" THEN (IF avail < 24 \/ l.esrc # "own" THEN DropAt("icmp")
                              ELSE IF avail # full THEN Unspecified ELSE Reply("na"))
    ELSE IF l.ty = "unreach" /\ l.epr = "tcp" THEN Unspecified
    ELSE DropAt("icmp")
Out4(f) ==
    LET ip == f.ip  hc == Hc(f)  tl == TlV(f)  full == L4Len(f) IN
    IF tl < Max2(hc, 20) \/ tl > Act(f) THEN DropAt("ip")                 \* inconsistent length fields
    ELSE IF ip.dst = "other" THEN DropAt("nic")                         \* not ours, no forwarding
    ELSE IF ip.ver # 4 \/ ip.ck # "ok" \/ hc < 20 \/ hc # Hp(f) \/ ip.dst = "bcast" THEN Unspecified
    ELSE IF ip.fr \notin {"none", "df"} THEN DropAt("frag")             \* a lone fragment never completes
    ELSE IF ip.sp \in {"small", "mid"} THEN Unspecified
    ELSE LET avail == tl - hc IN
         CASE f.pr = "udp"  -> OutUdp(f, avail, full)
           [] f.pr = "tcp"  -> OutTcp(f, avail, full)
           [] f.pr = "icmp" -> OutIcmp4(f, avail, full)
           [] OTHER         -> DropAt("ip")
Out6(f) ==
    LET ip == f.ip  pl == PlV(f)  full == L4Len(f) IN
    IF pl > full THEN DropAt("ip")
    ELSE IF ip.dst = "other" THEN DropAt("nic")
    ELSE IF ip.ver # 6 \/ ip.dst = "mcast" \/ ip.sp \in {"small", "mid"} THEN Unspecified
    ELSE CASE f.pr = "udp"  -> OutUdp(f, pl, full)
           [] f.pr = "tcp"  -> OutTcp(f, pl, full)
           [] f.pr = "icmp" -> OutIcmp6(f, pl, full)
           [] OTHER         -> DropAt("ip")
ArpValid(a) == a.ht = 1 /\ a.pt = 2048 /\ a.hl = 6 /\ a.pl = 4
OutArp(f) ==
    LET a == f.a IN
    IF a.sz < 28 THEN DropAt("nic")
    ELSE IF ~ArpValid(a) THEN DropAt("arp")
    ELSE IF f.nic # 2 THEN DropAt("nic")                                \* no ARP on the link without addresses
    ELSE IF a.op # 1 \/ a.tpa # "own" THEN DropAt("arp")
    ELSE IF f.sp # "one" THEN Unspecified
    ELSE Reply("arp")

(* fragment sequences, P-level (C08's DeliverOnlyComplete / consistent senders) *)
Normal(g) == g.first < NB /\ g.nb >= 1
LastBlk(g) == g.first + g.nb - 1
Seen(fs) == {fs[i] : i \in DOMAIN fs}
Covered(S, L) == \A b \in 0..L : \E g \in S : g.first <= b /\ b <= LastBlk(g)
Consistent(S) == \A g \in S : Normal(g) /\ LastBlk(g) <= NB - 1 /\ (g.more <=> LastBlk(g) < NB - 1)
Complete(S) == (\E g \in S : ~g.more) /\ Covered(S, NB - 1)
MayComplete(S) == \E g \in S : ~g.more /\ Covered(S, LastBlk(g))
OutFSeq(c) ==
    LET S == Seen(c.fs) IN
    IF \E g \in S : ~Normal(g) THEN Unspecified
    ELSE IF ~MayComplete(S) THEN DropAt("frag")
    ELSE IF Consistent(S) /\ Complete(S)
         THEN (CASE c.pr = "udp" -> DeliverTo("udp") [] c.pr = "icmp" -> Reply("echo4") [] OTHER -> Unspecified)
         ELSE Unspecified

Outcome(c) == CASE c.k = "ip4" -> Out4(c) [] c.k = "ip6" -> Out6(c) [] c.k = "arp" -> OutArp(c)
                [] c.k = "fseq" -> OutFSeq(c)
                \* pressure: the queued data (what fitted) is still readable by the application and the queue works again
                [] c.k = "press" -> (IF c.q \in PressUdp THEN DeliverTo("udpq") ELSE IF c.q = "tcp-rcvbuf" THEN DeliverTo("tcpq") ELSE Unspecified)
                [] OTHER -> Unspecified

MustObs(o) == IF o.kind \in {"DeliverTo", "Reply"} THEN {o.what} ELSE {}
MayObs(o)  == CASE o.kind = "Unspecified" -> ObsClasses
                [] o.kind = "DropAt" -> {"icmperr"}
                [] OTHER -> {o.what, "icmperr"}
MayObsC(c) == IF c.k = "press" THEN ObsClasses ELSE MayObs(Outcome(c))     \* a burst has many side observations
ObsOK(c, obs) == MustObs(Outcome(c)) \subseteq obs /\ obs \subseteq MayObsC(c)

-----------------------------------------------------------------------------
(* Independent well-formedness predicates (RFC 791/768/793/826/2460), used
   to cross-check the decision function: a positive outcome requires a
   well-formed frame addressed to us. *)
WF4(f) == /\ f.ip.ver = 4 /\ IhlW(f.ip.ihl) >= 5 /\ Hc(f) = Hp(f) /\ TlV(f) >= Hc(f) /\ TlV(f) <= Act(f) /\ f.ip.dst = "own"
WF6(f) == /\ f.ip.ver = 6 /\ PlV(f) <= L4Len(f) /\ f.ip.dst = "own"
WFL4(f, avail) == CASE f.pr = "udp" -> UlenV(f.l4.ulen) >= 8 /\ UlenV(f.l4.ulen) <= avail
                    [] f.pr = "tcp" -> DoffW(f.l4) >= 5 /\ 4 * DoffW(f.l4) <= avail
                    [] f.pr = "icmp" -> avail >= 8
                    [] OTHER -> FALSE
WellFormed(c) == CASE c.k = "ip4" -> WF4(c) /\ WFL4(c, TlV(c) - Hc(c))
                   [] c.k = "ip6" -> WF6(c) /\ WFL4(c, PlV(c))
                   [] c.k = "arp" -> ArpValid(c.a) /\ c.a.sz >= 28
                   [] c.k = "fseq" -> MayComplete(Seen(c.fs))
                   [] OTHER -> TRUE

-----------------------------------------------------------------------------
(* Closed model: the environment injects any case; the stack has NO crash
   transition and its three services persist. *)
VARIABLES n, last, serving
vars == <<n, last, serving>>
NoCase == [k |-> "none"]
Init == n = 0 /\ last = NoCase /\ serving = [echo |-> TRUE, tcp |-> TRUE, udp |-> TRUE]
Inject(c) == n < MaxLen /\ n' = n + 1 /\ last' = c /\ UNCHANGED serving
Next == n < MaxLen /\ \E c \in Cases : Inject(c)
Spec == Init /\ [][Next]_vars
Serving == serving.echo /\ serving.tcp /\ serving.udp
OutcomeTotal == last # NoCase => Outcome(last) \in OutcomeSet
PositiveOnlyIfWellFormed == (last # NoCase /\ Outcome(last).kind \in {"DeliverTo", "Reply"}) => WellFormed(last)
MustWithinMay == last # NoCase => MustObs(Outcome(last)) \subseteq MayObsC(last)
(* vacuity guards: every outcome kind is used by the lattice in scope *)
KindsUsed == {Outcome(c).kind : c \in Cases}

CaseLine(c) == IF c.k \in {"ip4", "ip6"} THEN [c |-> c, n |-> Num(c), o |-> Outcome(c)] ELSE [c |-> c, o |-> Outcome(c)]
DumpCases == IF DumpFile = "" THEN TRUE
             ELSE LET s == SetToSeq(Cases) IN ndJsonSerialize(DumpFile, [i \in 1..Len(s) |-> CaseLine(s[i])])
ASSUME DumpCases
=============================================================================
