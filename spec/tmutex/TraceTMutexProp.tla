---- MODULE TraceTMutexProp ----
(* P-spec of C18 as a trace validator over observations of the REAL mutex
   driven by the gate scheduler (no knowledge of v/ch).
   Events: reset | call(p, op) | ret(p, op, ok) | obs(waiting, inflight)
     op \in {"Lock","Try","Unlock"};  waiting = workers parked before the
     wake-up receive with no token available, as <<p, op>> pairs; inflight =
     workers inside an operation and not so parked. *)
EXTENDS TraceIO, FiniteSets
VARIABLES holder, busy, clean
tvars == <<l, holder, busy, clean>>
P == 0..7
TInit == l = 1 /\ holder = {} /\ busy = {} /\ clean = [p \in P |-> FALSE] /\ HWInit
Reset == IsEvent("reset") /\ holder' = {} /\ busy' = {} /\ clean' = [p \in P |-> FALSE]
Call == /\ IsEvent("call")
        /\ LET p == Ev.p IN
           /\ p \notin busy
           /\ busy' = busy \cup {p}
           /\ clean' = [q \in P |-> IF q = p THEN (holder = {} /\ busy = {}) ELSE FALSE]
           /\ IF Ev.op = "Unlock" THEN p \in holder /\ holder' = holder \ {p} ELSE UNCHANGED holder
Ret == /\ IsEvent("ret")
       /\ LET p == Ev.p IN
          /\ p \in busy /\ busy' = busy \ {p}
          /\ CASE Ev.op = "Lock"   -> holder = {} /\ holder' = {p}                 \* mutual exclusion
               [] Ev.op = "Try"    -> IF Ev.ok THEN holder = {} /\ holder' = {p}     \* succeeds only by acquiring
                                      ELSE ~clean[p] /\ UNCHANGED holder           \* must succeed when free and uncontended
               [] Ev.op = "Unlock" -> UNCHANGED holder
          /\ UNCHANGED clean
Obs == /\ IsEvent("obs")
       /\ LET w == SeqToSet(Ev.waiting) IN
          /\ \A x \in w : x[2] # "Try"                                          \* TryLock never blocks
          /\ ~(w # {} /\ holder = {} /\ Len(Ev.inflight) = 0)                   \* no lost wake-up
       /\ UNCHANGED <<holder, busy, clean>>
TNext == Reset \/ Call \/ Ret \/ Obs
TSpec == TInit /\ [][TNext]_tvars
====
