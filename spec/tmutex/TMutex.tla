---- MODULE TMutex ----
(* I-spec of pkg/tmutex at the granularity of its atomic operations, with the
   P-level properties of C18 as invariants / temporal formulas.
     v   : the state word (1 free, 0 held no waiters, -1 held/contended)
     ch  : number of tokens in the 1-buffered wake-up channel
   Fine = TRUE : LockLoad and LockSwap are separate steps (the code's real
                 atomicity: a load followed by a swap).
   Fine = FALSE: the load and the swap of one loop iteration are one step; this
                 is the granularity at which the gate scheduler can drive the
                 real code (the two operations sit in one Go expression, and the
                 hooks are add-only), used for the graph comparison. *)
EXTENDS Integers, Sequences, FiniteSets, TLC
CONSTANTS Procs, MaxOps, Fine
VARIABLES v, ch, pc, ops, holder
vars == <<v, ch, pc, ops, holder>>
Init == v = 1 /\ ch = 0 /\ pc = [p \in Procs |-> "idle"] /\ ops = [p \in Procs |-> 0] /\ holder = {}

StartLock(p) == pc[p] = "idle" /\ ops[p] < MaxOps /\ pc' = [pc EXCEPT ![p] = "lock_add"]
                /\ ops' = [ops EXCEPT ![p] = @ + 1] /\ UNCHANGED <<v, ch, holder>>
LockAdd(p) == /\ pc[p] = "lock_add" /\ v' = v - 1
              /\ (IF v - 1 = 0 THEN pc' = [pc EXCEPT ![p] = "held"] /\ holder' = holder \cup {p}
                  ELSE pc' = [pc EXCEPT ![p] = "lock_load"] /\ UNCHANGED holder)
              /\ UNCHANGED <<ch, ops>>
LockLoad(p) == /\ pc[p] = "lock_load"
               /\ IF Fine
                  THEN pc' = [pc EXCEPT ![p] = IF v >= 0 THEN "lock_swap" ELSE "lock_recv"] /\ UNCHANGED <<v, holder>>
                  ELSE IF v >= 0
                       THEN /\ v' = -1
                            /\ (IF v = 1 THEN pc' = [pc EXCEPT ![p] = "held"] /\ holder' = holder \cup {p}
                                ELSE pc' = [pc EXCEPT ![p] = "lock_recv"] /\ UNCHANGED holder)
                       ELSE pc' = [pc EXCEPT ![p] = "lock_recv"] /\ UNCHANGED <<v, holder>>
               /\ UNCHANGED <<ch, ops>>
LockSwap(p) == /\ pc[p] = "lock_swap" /\ v' = -1
               /\ (IF v = 1 THEN pc' = [pc EXCEPT ![p] = "held"] /\ holder' = holder \cup {p}
                   ELSE pc' = [pc EXCEPT ![p] = "lock_recv"] /\ UNCHANGED holder)
               /\ UNCHANGED <<ch, ops>>
LockRecv(p) == pc[p] = "lock_recv" /\ ch = 1 /\ ch' = 0 /\ pc' = [pc EXCEPT ![p] = "lock_load"]
               /\ UNCHANGED <<v, ops, holder>>
StartUnlock(p) == pc[p] = "held" /\ pc' = [pc EXCEPT ![p] = "unlock_swap"] /\ holder' = holder \ {p}
                  /\ UNCHANGED <<v, ch, ops>>
UnlockSwap(p) == pc[p] = "unlock_swap" /\ v' = 1
                 /\ pc' = [pc EXCEPT ![p] = IF v = 0 THEN "idle" ELSE "unlock_send"] /\ UNCHANGED <<ch, ops, holder>>
UnlockSend(p) == pc[p] = "unlock_send" /\ ch' = 1 /\ pc' = [pc EXCEPT ![p] = "idle"] /\ UNCHANGED <<v, ops, holder>>
StartTry(p) == pc[p] = "idle" /\ ops[p] < MaxOps /\ pc' = [pc EXCEPT ![p] = "try_load"]
               /\ ops' = [ops EXCEPT ![p] = @ + 1] /\ UNCHANGED <<v, ch, holder>>
TryLoad(p) == pc[p] = "try_load" /\ pc' = [pc EXCEPT ![p] = IF v <= 0 THEN "idle" ELSE "try_cas"]
              /\ UNCHANGED <<v, ch, ops, holder>>
TryCas(p) == /\ pc[p] = "try_cas"
             /\ (IF v = 1 THEN v' = 0 /\ pc' = [pc EXCEPT ![p] = "held"] /\ holder' = holder \cup {p}
                 ELSE pc' = [pc EXCEPT ![p] = "idle"] /\ UNCHANGED <<v, holder>>)
             /\ UNCHANGED <<ch, ops>>
Next == \E p \in Procs : StartLock(p) \/ LockAdd(p) \/ LockLoad(p) \/ LockSwap(p) \/ LockRecv(p)
          \/ StartUnlock(p) \/ UnlockSwap(p) \/ UnlockSend(p) \/ StartTry(p) \/ TryLoad(p) \/ TryCas(p)
Fair == \A p \in Procs : WF_vars(LockAdd(p)) /\ WF_vars(LockLoad(p)) /\ WF_vars(LockSwap(p)) /\ WF_vars(LockRecv(p))
          /\ WF_vars(StartUnlock(p)) /\ WF_vars(UnlockSwap(p)) /\ WF_vars(UnlockSend(p)) /\ WF_vars(TryLoad(p)) /\ WF_vars(TryCas(p))
Spec == Init /\ [][Next]_vars /\ Fair

\* ---- C18
Mutex == Cardinality(holder) <= 1
InLock(p) == pc[p] \in {"lock_add", "lock_load", "lock_swap", "lock_recv"}
InFlight(q) == pc[q] \in {"held", "unlock_swap", "unlock_send", "lock_load", "lock_swap", "lock_add", "try_cas"}
\* no goroutine sleeps (parked at the receive with no token) while the mutex is free and nobody is in flight
NoLostWakeup == (\E p \in Procs : pc[p] = "lock_recv") => (ch = 1 \/ \E q \in Procs : InFlight(q))
\* TryLock succeeds only by acquiring, never blocks (it has no receive on its path: structural),
\* and succeeds when the mutex is free and nobody else is inside an operation
TryOK == \A p \in Procs : (pc[p] \in {"try_load", "try_cas"} /\ holder = {} /\ \A q \in Procs \ {p} : pc[q] = "idle") => v = 1
TypeOK == v \in {-1, 0, 1} \/ v < -1
\* every Lock call returns (someone acquires) under fair scheduling of the bounded programs
NoStarve == \A p \in Procs : InLock(p) ~> (\E q \in Procs : pc[q] = "held")
LockReturns == \A p \in Procs : InLock(p) ~> pc[p] = "held"
====
