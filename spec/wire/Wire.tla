------------------------------- MODULE Wire -------------------------------
(* RFC-derived DECODER and well-formedness judge for frames, written over
   byte sequences (sequences over 0..255, the first byte is f[1]).  It shares
   nothing with /repo/protocol/header nor with harness/wire: layouts come
   from RFC 894 (Ethernet), 826 (ARP), 791 (IPv4), 8200 (IPv6), 792 (ICMPv4),
   4443/4861 (ICMPv6, NDP), 768 (UDP), 9293/7323/2018 (TCP and its options)
   and RFC 1071 (the Internet checksum).

   Offsets below are the 0-based byte offsets of the RFC diagrams.
   32-bit quantities never become one integer (TLC integers are 32-bit
   signed): they stay 4-byte sequences.

   Dec*   return records; `ok` says whether the fixed part could be read.
   *Fails return the SET OF NAMES of the violated clauses of C06's
          WellFormed (empty set = well-formed), so that a rejection can say
          which clause failed.                                              *)
EXTENDS Integers, Sequences, FiniteSets, SequencesExt

U8(f, o)       == f[o + 1]
U16(f, o)      == f[o + 1] * 256 + f[o + 2]
Bytes(f, o, n) == SubSeq(f, o + 1, o + n)
From(f, o)     == SubSeq(f, o + 1, Len(f))
Chk(cond, name) == IF cond THEN {} ELSE {name}

-----------------------------------------------------------------------------
(* RFC 1071: 16-bit one's-complement sum.  The end-around carry is folded
   in at every addition (one's-complement addition is associative and
   commutative, RFC 1071 section 2(A)), so the accumulator stays below 2^16.
   An odd trailing byte is padded with a zero byte on the right.            *)
Add1c(a, b) == LET s == a + b IN IF s > 65535 THEN s - 65535 ELSE s

\* sum of the n bytes of f that start at offset o, added to `init`
SumFrom(f, o, n, init) ==
  LET nw == (n + 1) \div 2
      W(i) == f[o + 2 * i - 1] * 256 + (IF 2 * i <= n THEN f[o + 2 * i] ELSE 0)
  IN FoldLeft(LAMBDA acc, i : Add1c(acc, W(i)), init, [i \in 1..nw |-> i])

Sum1071(f) == SumFrom(f, 0, Len(f), 0)
\* a message verifies iff the sum over it (checksum field included) is 0xffff
Verifies(s) == s = 65535

\* pseudo-header sums (RFC 768 / 9293 for IPv4; RFC 8200 section 8.1 for IPv6)
\*   v4: src(4) dst(4) zero(1) proto(1) length(2)      addresses at offsets 12, 16 of the IPv4 header
\*   v6: src(16) dst(16) length(4) zero(3) next(1)     addresses at offsets 8, 24 of the IPv6 header
Pseudo4(ip, proto, len) ==
  Add1c(Add1c(SumFrom(ip, 12, 8, 0), proto), len)
Pseudo6(ip, next, len) ==
  Add1c(Add1c(SumFrom(ip, 8, 32, 0), len), next)      \* len < 2^16 here: upper half of the 32-bit length is 0

-----------------------------------------------------------------------------
\* Ethernet II (RFC 894): dst(6) src(6) type(2)
DecEth(f) ==
  IF Len(f) < 14 THEN [ok |-> FALSE]
  ELSE [ok |-> TRUE, dst |-> Bytes(f, 0, 6), src |-> Bytes(f, 6, 6), type |-> U16(f, 12), payload |-> From(f, 14)]

EtherTypes == {2048, 2054, 34525}        \* 0x0800 IPv4, 0x0806 ARP, 0x86dd IPv6
BroadcastMac == <<255, 255, 255, 255, 255, 255>>

\* ARP (RFC 826), Ethernet/IPv4 instance: htype(2) ptype(2) hlen(1) plen(1) op(2) sha(6) spa(4) tha(6) tpa(4)
DecArp(p) ==
  IF Len(p) < 28 THEN [ok |-> FALSE]
  ELSE [ok |-> TRUE, htype |-> U16(p, 0), ptype |-> U16(p, 2), hlen |-> U8(p, 4), plen |-> U8(p, 5), op |-> U16(p, 6),
        sha |-> Bytes(p, 8, 6), spa |-> Bytes(p, 14, 4), tha |-> Bytes(p, 18, 6), tpa |-> Bytes(p, 24, 4)]

ArpFails(p) ==
  IF Len(p) < 28 THEN {"arp.len"}
  ELSE LET a == DecArp(p) IN
       Chk(Len(p) = 28, "arp.len") \cup Chk(a.htype = 1, "arp.htype") \cup Chk(a.ptype = 2048, "arp.ptype")
       \cup Chk(a.hlen = 6, "arp.hlen") \cup Chk(a.plen = 4, "arp.plen") \cup Chk(a.op \in {1, 2}, "arp.op")

-----------------------------------------------------------------------------
\* TCP options (RFC 9293 3.1, RFC 7323, RFC 2018).  o = the option bytes, i = index of the next byte.
\* Strict walk: EOL(0) ends the list and only zero padding may follow; NOP(1); every other option
\* is kind,length,data with the length its RFC declares; options must end exactly at the end.
OptLenOK(k, n) ==
  CASE k = 2 -> n = 4                         \* MSS
    [] k = 3 -> n = 3                         \* window scale
    [] k = 4 -> n = 2                         \* SACK permitted
    [] k = 5 -> n \in {10, 18, 26, 34}        \* SACK: 1..4 blocks
    [] k = 8 -> n = 10                        \* timestamps
    [] OTHER -> n >= 2

RECURSIVE OptWalk(_, _)
OptWalk(o, i) ==
  IF i > Len(o) THEN TRUE
  ELSE IF o[i] = 0 THEN \A j \in i..Len(o) : o[j] = 0
  ELSE IF o[i] = 1 THEN OptWalk(o, i + 1)
  ELSE IF i + 1 > Len(o) THEN FALSE
  ELSE /\ o[i + 1] >= 2
       /\ i + o[i + 1] - 1 <= Len(o)
       /\ OptLenOK(o[i], o[i + 1])
       /\ OptWalk(o, i + o[i + 1])

\* the option kinds present (only meaningful when OptWalk holds), as a sequence of <<kind, index>>
RECURSIVE OptKinds(_, _)
OptKinds(o, i) ==
  IF i > Len(o) \/ o[i] = 0 THEN {}
  ELSE IF o[i] = 1 THEN OptKinds(o, i + 1)
  ELSE {<<o[i], i>>} \cup OptKinds(o, i + o[i + 1])
KindsOf(o) == {k[1] : k \in OptKinds(o, 1)}

\* TCP (RFC 9293 3.1): sport(2) dport(2) seq(4) ack(4) doff(4 bits)+rsv(4) flags(1) win(2) cksum(2) urg(2) options
DecTcp(s) ==
  IF Len(s) < 20 THEN [ok |-> FALSE]
  ELSE LET hl == 4 * (U8(s, 12) \div 16) IN
       [ok |-> TRUE, sport |-> U16(s, 0), dport |-> U16(s, 2), seq |-> Bytes(s, 4, 4), ack |-> Bytes(s, 8, 4),
        hl |-> hl, flags |-> U8(s, 13) % 64, win |-> U16(s, 14), cksum |-> U16(s, 16),
        opts |-> IF hl >= 20 /\ hl <= Len(s) THEN SubSeq(s, 21, hl) ELSE <<>>,
        paylen |-> IF hl >= 20 /\ hl <= Len(s) THEN Len(s) - hl ELSE 0]
FlagSyn(t) == (t.flags \div 2) % 2 = 1

\* pseudo = pseudo-header sum; sumExempt = checksum-offload link (the link computes the checksum)
TcpFails(s, pseudo, sumExempt) ==
  IF Len(s) < 20 THEN {"tcp.short"}
  ELSE LET t == DecTcp(s) IN
       IF ~(20 <= t.hl /\ t.hl <= Len(s)) THEN {"tcp.dataOffset"}
       ELSE Chk(sumExempt \/ Verifies(SumFrom(s, 0, Len(s), pseudo)), "tcp.checksum")
            \cup Chk(OptWalk(t.opts, 1), "tcp.options")

\* UDP (RFC 768): sport(2) dport(2) length(2) cksum(2)
DecUdp(s) ==
  IF Len(s) < 8 THEN [ok |-> FALSE]
  ELSE [ok |-> TRUE, sport |-> U16(s, 0), dport |-> U16(s, 2), len |-> U16(s, 4), cksum |-> U16(s, 6)]

UdpFails(s, pseudo, v, sumExempt) ==
  IF Len(s) < 8 THEN {"udp.short"}
  ELSE LET u == DecUdp(s) IN
       Chk(u.len = Len(s), "udp.len")
       \cup (IF u.cksum = 0 THEN Chk(v = 4 \/ sumExempt, "udp.checksum.zero6")
             ELSE Chk(sumExempt \/ Verifies(SumFrom(s, 0, Len(s), pseudo)), "udp.checksum"))

\* ICMPv4 (RFC 792): type(1) code(1) cksum(2) rest(4) ...
DecIcmp4(s) ==
  IF Len(s) < 8 THEN [ok |-> FALSE]
  ELSE [ok |-> TRUE, type |-> U8(s, 0), code |-> U8(s, 1), cksum |-> U16(s, 2), ident |-> U16(s, 4), seq |-> U16(s, 6)]
Icmp4Fails(s) ==
  IF Len(s) < 8 THEN {"icmp4.short"}
  ELSE Chk(Verifies(Sum1071(s)), "icmp4.checksum")

\* ICMPv6 (RFC 4443 2.1, checksum 2.3 with pseudo-header); NDP (RFC 4861 4.3, 4.4, 4.6)
\*   NS/NA: type code cksum rsv/flags(4) target(16) options*  ; option: type(1) len(1, units of 8 bytes, > 0) data
DecIcmp6(s) ==
  IF Len(s) < 8 THEN [ok |-> FALSE]
  ELSE [ok |-> TRUE, type |-> U8(s, 0), code |-> U8(s, 1), cksum |-> U16(s, 2), ident |-> U16(s, 4), seq |-> U16(s, 6),
        target |-> IF U8(s, 0) \in {135, 136} /\ Len(s) >= 24 THEN Bytes(s, 8, 16) ELSE <<>>,
        \* link-layer address option (type 1 source / 2 target, length 1) if it is the first option
        lladdr |-> IF U8(s, 0) \in {135, 136} /\ Len(s) >= 32 /\ U8(s, 25) = 1 THEN Bytes(s, 26, 6) ELSE <<>>,
        llkind |-> IF U8(s, 0) \in {135, 136} /\ Len(s) >= 32 THEN U8(s, 24) ELSE 0]

RECURSIVE NdOptWalk(_, _)
NdOptWalk(s, o) ==          \* o = offset of the next option
  IF o = Len(s) THEN TRUE
  ELSE IF o + 2 > Len(s) THEN FALSE
  ELSE /\ U8(s, o + 1) > 0
       /\ o + 8 * U8(s, o + 1) <= Len(s)
       /\ NdOptWalk(s, o + 8 * U8(s, o + 1))

Icmp6Fails(s, pseudo) ==
  IF Len(s) < 8 THEN {"icmp6.short"}
  ELSE Chk(Verifies(SumFrom(s, 0, Len(s), pseudo)), "icmp6.checksum")
       \cup (IF U8(s, 0) \in {135, 136}
             THEN (IF Len(s) < 24 THEN {"icmp6.nd.short"} ELSE Chk(NdOptWalk(s, 24), "icmp6.nd.options"))
             ELSE {})

-----------------------------------------------------------------------------
\* IPv4 (RFC 791 3.1): ver/ihl tos totlen(2) id(2) flags/fragoff(2) ttl proto cksum(2) src(4) dst(4) options
DecIPv4(p) ==
  IF Len(p) < 20 THEN [ok |-> FALSE]
  ELSE LET hl == 4 * (U8(p, 0) % 16) IN
       [ok |-> TRUE, version |-> U8(p, 0) \div 16, hl |-> hl, totlen |-> U16(p, 2), id |-> U16(p, 4),
        mf |-> (U8(p, 6) \div 32) % 2, fragoff |-> (U8(p, 6) % 32) * 256 + U8(p, 7),
        ttl |-> U8(p, 8), proto |-> U8(p, 9), cksum |-> U16(p, 10), src |-> Bytes(p, 12, 4), dst |-> Bytes(p, 16, 4),
        hdrok |-> hl >= 20 /\ hl <= Len(p)]

\* IPv6 (RFC 8200 3): ver/tc/flow(4) plen(2) next hop src(16) dst(16)
DecIPv6(p) ==
  IF Len(p) < 40 THEN [ok |-> FALSE]
  ELSE [ok |-> TRUE, version |-> U8(p, 0) \div 16, plen |-> U16(p, 4), next |-> U8(p, 6), hop |-> U8(p, 7),
        src |-> Bytes(p, 8, 16), dst |-> Bytes(p, 24, 16)]

\* transport part of an IP packet: seg = the bytes after the IP header
L4Fails(seg, proto, v, pseudo, sumExempt) ==
  CASE proto = 6 -> TcpFails(seg, pseudo, sumExempt)
    [] proto = 17 -> UdpFails(seg, pseudo, v, sumExempt)
    [] proto = 1 /\ v = 4 -> Icmp4Fails(seg)
    [] proto = 58 /\ v = 6 -> Icmp6Fails(seg, pseudo)
    [] OTHER -> {"ip.proto"}

IPv4Fails(p, sumExempt) ==
  IF Len(p) < 20 THEN {"ipv4.short"}
  ELSE LET h == DecIPv4(p) IN
       Chk(h.version = 4, "ipv4.version") \cup Chk(h.hl >= 20, "ipv4.ihl")
       \cup Chk(h.totlen = Len(p), "ipv4.totalLen") \cup Chk(h.ttl > 0, "ipv4.ttl")
       \cup (IF ~h.hdrok THEN {"ipv4.ihl"}
             ELSE Chk(Verifies(SumFrom(p, 0, h.hl, 0)), "ipv4.checksum")
                  \cup (IF h.mf = 0 /\ h.fragoff = 0         \* whole datagram: judge the transport part
                        THEN L4Fails(From(p, h.hl), h.proto, 4, Pseudo4(p, h.proto, Len(p) - h.hl), sumExempt)
                        ELSE {}))

IPv6Fails(p, sumExempt) ==
  IF Len(p) < 40 THEN {"ipv6.short"}
  ELSE LET h == DecIPv6(p) IN
       Chk(h.version = 6, "ipv6.version") \cup Chk(h.plen = Len(p) - 40, "ipv6.payloadLen")
       \cup L4Fails(From(p, 40), h.next, 6, Pseudo6(p, h.next, Len(p) - 40), sumExempt)

\* network-layer packet with its EtherType
L3Fails(p, ethertype, sumExempt) ==
  CASE ethertype = 2054 -> ArpFails(p)
    [] ethertype = 2048 -> IPv4Fails(p, sumExempt)
    [] ethertype = 34525 -> IPv6Fails(p, sumExempt)
    [] OTHER -> {"eth.type"}

\* Ethernet frame of a NIC whose address is mac
EthFails(f, mac, sumExempt) ==
  IF Len(f) < 14 THEN {"eth.short"}
  ELSE LET e == DecEth(f) IN
       Chk(e.type \in EtherTypes, "eth.type") \cup Chk(e.src = mac, "eth.src")
       \cup (IF e.type \in EtherTypes THEN L3Fails(e.payload, e.type, sumExempt) ELSE {})

(* WellFormed(frame, proto): proto is the EtherType of a network-layer packet
   (links that hand over packets without link header), or 0 for an Ethernet
   frame (the EtherType is then read from the frame; the source-MAC clause
   needs the NIC and lives in EthFails).                                    *)
FrameFails(frame, proto) ==
  IF proto = 0 THEN (IF Len(frame) < 14 THEN {"eth.short"}
                     ELSE LET e == DecEth(frame) IN
                          IF e.type \in EtherTypes THEN L3Fails(e.payload, e.type, FALSE) ELSE {"eth.type"})
  ELSE L3Fails(frame, proto, FALSE)
WellFormed(frame, proto) == FrameFails(frame, proto) = {}
=============================================================================
