------------------------------ MODULE WireVec ------------------------------
(* Non-vacuity of the decoder Wire.tla: hand-assembled packets (byte by byte
   from the RFC layouts; the checksums were computed by hand/with a pocket
   script that shares nothing with the repository or the harness) must be
   accepted, and each single corruption must be rejected WITH THE RIGHT
   CLAUSE.  Checked by TLC as ASSUMEs (the behaviour spec is a dummy).      *)
EXTENDS Wire, TLC
VARIABLE x
Init == x = 0
Next == x' = x
Spec == Init /\ [][Next]_x

Set(f, o, b) == [f EXCEPT ![o + 1] = b]                 \* byte at offset o := b
Xor1(f, o) == Set(f, o, IF f[o + 1] % 2 = 0 THEN f[o + 1] + 1 ELSE f[o + 1] - 1)   \* flip the lowest bit

\* ---- RFC 1071 section 3, numerical example: 0001 f203 f4f5 f6f7 -> sum 2ddf0 -> ddf2 (end-around carry)
Rfc1071 == <<0, 1, 242, 3, 244, 245, 246, 247>>
ASSUME Sum1071(Rfc1071) = 56818                                   \* 0xddf2
ASSUME Sum1071(SubSeq(Rfc1071, 1, 7)) = Add1c(Sum1071(SubSeq(Rfc1071, 1, 6)), 246 * 256)   \* odd byte is padded on the right
ASSUME Sum1071(<<>>) = 0 /\ Sum1071(<<255, 255>>) = 65535 /\ Sum1071(<<255, 255, 0, 1>>) = 1 /\ Sum1071(<<1>>) = 256
\* the widely quoted IPv4 header 4500 0073 0000 4000 4011 b861 c0a8 0001 c0a8 00c7 verifies
WikiHdr == <<69, 0, 0, 115, 0, 0, 64, 0, 64, 17, 184, 97, 192, 168, 0, 1, 192, 168, 0, 199>>
ASSUME Verifies(Sum1071(WikiHdr)) /\ ~Verifies(Sum1071(Set(WikiHdr, 3, 116)))

\* ---- IPv4 / UDP, 5 payload bytes (odd), 192.168.0.1:40000 -> 192.168.0.199:53
UdpOdd4 == <<69, 0, 0, 33, 28, 70, 64, 0, 64, 17, 156, 109, 192, 168, 0, 1, 192, 168, 0, 199,
             156, 64, 0, 53, 0, 13, 157, 115, 104, 101, 108, 108, 111>>
UdpZeroCk4 == <<69, 0, 0, 33, 28, 70, 64, 0, 64, 17, 156, 109, 192, 168, 0, 1, 192, 168, 0, 199,
                156, 64, 0, 53, 0, 13, 0, 0, 104, 101, 108, 108, 111>>
ASSUME WellFormed(UdpOdd4, 2048)
ASSUME WellFormed(UdpZeroCk4, 2048)                                            \* checksum 0 = not computed: legal on IPv4
ASSUME FrameFails(Xor1(UdpOdd4, 32), 2048) = {"udp.checksum"}                  \* last (odd) payload byte
ASSUME FrameFails(Xor1(UdpOdd4, 28), 2048) = {"udp.checksum"}
ASSUME FrameFails(Xor1(UdpOdd4, 15), 2048) = {"ipv4.checksum", "udp.checksum"}  \* source address: both sums cover it
ASSUME FrameFails(Set(UdpOdd4, 8, 0), 2048) = {"ipv4.checksum", "ipv4.ttl"}
ASSUME "ipv4.totalLen" \in FrameFails(Set(UdpOdd4, 3, 34), 2048)
ASSUME FrameFails(Append(UdpOdd4, 0), 2048) = {"ipv4.totalLen", "udp.len", "udp.checksum"}   \* trailing byte (the pseudo-header carries the actual length)
ASSUME "udp.len" \in FrameFails(Set(UdpOdd4, 25, 12), 2048)
ASSUME "ipv4.version" \in FrameFails(Set(UdpOdd4, 0, 85), 2048)
ASSUME "ipv4.ihl" \in FrameFails(Set(UdpOdd4, 0, 68), 2048)
ASSUME FrameFails(SubSeq(UdpOdd4, 1, 19), 2048) = {"ipv4.short"}
ASSUME "ip.proto" \in FrameFails(Set(UdpOdd4, 9, 99), 2048)
ASSUME LET d == DecIPv4(UdpOdd4) u == DecUdp(From(UdpOdd4, 20)) IN
         d.src = <<192, 168, 0, 1>> /\ d.dst = <<192, 168, 0, 199>> /\ d.proto = 17 /\ d.id = 7238 /\ d.ttl = 64
         /\ d.totlen = 33 /\ d.hl = 20 /\ u.sport = 40000 /\ u.dport = 53 /\ u.len = 13

\* ---- IPv6 / UDP, 7 payload bytes, fd00::1 -> fd00::9
Udp6 == <<96, 0, 0, 0, 0, 15, 17, 64, 253, 0, 0, 0, 0, 0, 0, 0, 0, 0, 0, 0, 0, 0, 0, 1,
          253, 0, 0, 0, 0, 0, 0, 0, 0, 0, 0, 0, 0, 0, 0, 9, 156, 64, 0, 53, 0, 15, 4, 92, 104, 101, 108, 108, 111, 33, 33>>
ASSUME WellFormed(Udp6, 34525)
ASSUME FrameFails(Set(Set(Udp6, 46, 0), 47, 0), 34525) = {"udp.checksum.zero6"}    \* RFC 8200 8.1: zero checksum illegal on IPv6
ASSUME FrameFails(Xor1(Udp6, 54), 34525) = {"udp.checksum"}
ASSUME FrameFails(Xor1(Udp6, 39), 34525) = {"udp.checksum"}                        \* destination address is in the pseudo-header
ASSUME "ipv6.payloadLen" \in FrameFails(Set(Udp6, 5, 14), 34525)
ASSUME "ipv6.version" \in FrameFails(Set(Udp6, 0, 64), 34525)
ASSUME ~WellFormed(Udp6, 2048) /\ ~WellFormed(UdpOdd4, 34525)

\* ---- IPv4 / TCP SYN with MSS, SACK-permitted, timestamps, NOP, window scale (20 option bytes)
TcpSyn4 == <<69, 0, 0, 60, 28, 70, 64, 0, 64, 6, 156, 93, 192, 168, 0, 1, 192, 168, 0, 199,
             168, 202, 0, 80, 18, 52, 86, 120, 0, 0, 0, 0, 160, 2, 250, 240, 226, 149, 0, 0,
             2, 4, 5, 180, 4, 2, 8, 10, 0, 18, 214, 135, 0, 0, 0, 0, 1, 3, 3, 7>>
ASSUME WellFormed(TcpSyn4, 2048)
ASSUME LET t == DecTcp(From(TcpSyn4, 20)) IN
         t.sport = 43210 /\ t.dport = 80 /\ t.hl = 40 /\ FlagSyn(t) /\ t.seq = <<18, 52, 86, 120>> /\ t.paylen = 0
         /\ KindsOf(t.opts) = {2, 4, 8, 3}
ASSUME FrameFails(Set(TcpSyn4, 32, 128), 2048) = {"tcp.checksum", "tcp.options"}       \* data offset 8: timestamp option cut
ASSUME FrameFails(Set(TcpSyn4, 32, 144), 2048) = {"tcp.checksum"}                      \* data offset 9: options end at an option boundary
ASSUME FrameFails(Set(TcpSyn4, 32, 176), 2048) = {"tcp.dataOffset"}                    \* data offset 11 > segment
ASSUME FrameFails(Set(TcpSyn4, 32, 64), 2048) = {"tcp.dataOffset"}                     \* data offset 4 < 5
ASSUME "tcp.options" \in FrameFails(Set(TcpSyn4, 56, 0), 2048)                         \* EOL followed by non-zero bytes
ASSUME "tcp.options" \in FrameFails(Set(TcpSyn4, 41, 5), 2048)                         \* MSS with length 5
ASSUME "tcp.options" \in FrameFails(Set(TcpSyn4, 58, 4), 2048)                         \* WS with length 4: runs past the header
ASSUME FrameFails(Xor1(TcpSyn4, 27), 2048) = {"tcp.checksum"}

\* ---- IPv4 / TCP data segment, 19 payload bytes (odd), NOP NOP TS
TcpData4 == <<69, 0, 0, 71, 28, 70, 64, 0, 64, 6, 156, 82, 192, 168, 0, 1, 192, 168, 0, 199,
              168, 202, 0, 80, 18, 52, 86, 121, 154, 188, 222, 240, 128, 24, 1, 246, 91, 47, 0, 0,
              1, 1, 8, 10, 0, 18, 214, 144, 0, 52, 86, 120,
              71, 69, 84, 32, 47, 32, 72, 84, 84, 80, 47, 49, 46, 48, 13, 10, 13, 10, 0>>
ASSUME WellFormed(TcpData4, 2048)
ASSUME DecTcp(From(TcpData4, 20)).paylen = 19
ASSUME FrameFails(Xor1(TcpData4, 70), 2048) = {"tcp.checksum"}                         \* the odd last byte counts (high half)
ASSUME "tcp.options" \in FrameFails(Set(TcpData4, 40, 0), 2048)                       \* EOL then garbage
ASSUME "tcp.options" \in FrameFails(Set(TcpData4, 43, 11), 2048)                       \* TS with length 11

\* ---- IPv6 / TCP ACK with NOP NOP TS NOP NOP SACK(2 blocks)
TcpSack6 == <<96, 0, 0, 0, 0, 52, 6, 64, 253, 0, 0, 0, 0, 0, 0, 0, 0, 0, 0, 0, 0, 0, 0, 1,
              253, 0, 0, 0, 0, 0, 0, 0, 0, 0, 0, 0, 0, 0, 0, 9,
              0, 80, 168, 202, 0, 0, 0, 1, 0, 0, 0, 2, 208, 16, 3, 232, 75, 210, 0, 0,
              1, 1, 8, 10, 0, 18, 214, 144, 0, 52, 86, 120, 1, 1, 5, 18, 0, 0, 0, 10, 0, 0, 0, 20, 0, 0, 0, 30, 0, 0, 0, 40>>
ASSUME WellFormed(TcpSack6, 34525)
ASSUME KindsOf(DecTcp(From(TcpSack6, 40)).opts) = {8, 5}
ASSUME "tcp.options" \in FrameFails(Set(TcpSack6, 75, 17), 34525)                      \* SACK length not 2+8n
ASSUME "tcp.options" \in FrameFails(Set(TcpSack6, 75, 26), 34525)                      \* SACK longer than the header
ASSUME FrameFails(Xor1(TcpSack6, 23), 34525) = {"tcp.checksum"}

\* ---- ICMPv4 echo request, 23 payload bytes; ICMPv6 echo request, 3 payload bytes; NDP solicitation
Echo4 == <<69, 0, 0, 51, 28, 70, 64, 0, 64, 1, 156, 107, 192, 168, 0, 1, 192, 168, 0, 199,
           8, 0, 209, 33, 18, 52, 0, 1, 97, 98, 99, 100, 101, 102, 103, 104, 105, 106, 107, 108, 109, 110, 111, 112, 113, 114, 115, 116, 117, 118, 119>>
Echo6 == <<96, 0, 0, 0, 0, 11, 58, 64, 253, 0, 0, 0, 0, 0, 0, 0, 0, 0, 0, 0, 0, 0, 0, 1,
           253, 0, 0, 0, 0, 0, 0, 0, 0, 0, 0, 0, 0, 0, 0, 9, 128, 0, 147, 36, 0, 7, 0, 9, 120, 121, 122>>
Ns6 == <<96, 0, 0, 0, 0, 32, 58, 255, 253, 0, 0, 0, 0, 0, 0, 0, 0, 0, 0, 0, 0, 0, 0, 1,
         255, 2, 0, 0, 0, 0, 0, 0, 0, 0, 0, 1, 255, 0, 0, 9,
         135, 0, 125, 137, 0, 0, 0, 0, 253, 0, 0, 0, 0, 0, 0, 0, 0, 0, 0, 0, 0, 0, 0, 9, 1, 1, 2, 0, 0, 0, 0, 1>>
ASSUME WellFormed(Echo4, 2048) /\ WellFormed(Echo6, 34525) /\ WellFormed(Ns6, 34525)
ASSUME FrameFails(Xor1(Echo4, 50), 2048) = {"icmp4.checksum"}
ASSUME FrameFails(Xor1(Echo6, 50), 34525) = {"icmp6.checksum"}
ASSUME FrameFails(Xor1(Echo6, 23), 34525) = {"icmp6.checksum"}                         \* ICMPv6 sum covers the pseudo-header
\* an ICMPv6 checksum computed WITHOUT the pseudo-header (as for ICMPv4) must be rejected
ASSUME Verifies(Sum1071(From(Echo4, 20))) /\ ~Verifies(Sum1071(From(Echo6, 40)))
ASSUME "icmp6.nd.options" \in FrameFails(Set(Ns6, 65, 0), 34525)                       \* NDP option of length 0
ASSUME "icmp6.nd.options" \in FrameFails(Set(Ns6, 65, 2), 34525)                       \* NDP option longer than the message
ASSUME LET m == DecIcmp6(From(Ns6, 40)) IN
         m.type = 135 /\ m.target = <<253, 0, 0, 0, 0, 0, 0, 0, 0, 0, 0, 0, 0, 0, 0, 9>> /\ m.lladdr = <<2, 0, 0, 0, 0, 1>> /\ m.llkind = 1
ASSUME DecIcmp4(From(Echo4, 20)).ident = 4660 /\ DecIcmp4(From(Echo4, 20)).seq = 1 /\ DecIcmp4(From(Echo4, 20)).type = 8

\* ---- ARP request, bare and in an Ethernet frame
ArpReq == <<0, 1, 8, 0, 6, 4, 0, 1, 2, 0, 0, 0, 0, 1, 192, 168, 0, 1, 0, 0, 0, 0, 0, 0, 192, 168, 0, 199>>
EthArp == <<255, 255, 255, 255, 255, 255, 2, 0, 0, 0, 0, 1, 8, 6>> \o ArpReq
ASSUME WellFormed(ArpReq, 2054) /\ WellFormed(EthArp, 0)
ASSUME EthFails(EthArp, <<2, 0, 0, 0, 0, 1>>, FALSE) = {} /\ EthFails(EthArp, <<2, 0, 0, 0, 0, 2>>, FALSE) = {"eth.src"}
ASSUME FrameFails(Set(ArpReq, 7, 3), 2054) = {"arp.op"} /\ FrameFails(Set(ArpReq, 1, 6), 2054) = {"arp.htype"}
ASSUME FrameFails(Set(ArpReq, 4, 8), 2054) = {"arp.hlen"} /\ FrameFails(Set(ArpReq, 5, 16), 2054) = {"arp.plen"}
ASSUME FrameFails(Set(ArpReq, 2, 134), 2054) = {"arp.ptype"} /\ FrameFails(Append(ArpReq, 0), 2054) = {"arp.len"}
ASSUME FrameFails(SubSeq(ArpReq, 1, 27), 2054) = {"arp.len"}
ASSUME FrameFails(Set(EthArp, 13, 7), 0) = {"eth.type"} /\ FrameFails(SubSeq(EthArp, 1, 13), 0) = {"eth.short"}
ASSUME LET a == DecArp(ArpReq) e == DecEth(EthArp) IN
         a.op = 1 /\ a.sha = <<2, 0, 0, 0, 0, 1>> /\ a.spa = <<192, 168, 0, 1>> /\ a.tpa = <<192, 168, 0, 199>>
         /\ e.dst = BroadcastMac /\ e.src = <<2, 0, 0, 0, 0, 1>> /\ e.type = 2054 /\ e.payload = ArpReq
=============================================================================
