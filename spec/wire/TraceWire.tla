----------------------------- MODULE TraceWire -----------------------------
(* P-spec of C06 as a trace validator: TLC decodes and judges every frame a
   real stack emitted.  A capture is a sequence of events (ndjson; addresses
   and MACs are byte lists):

     reset   state                      new independent segment; state = TRUE: the configuration events
                                        below are complete, so the state-dependent clauses are judged too
     nic     host nic kind mac resolve offload      kind "ip" (frames are network-layer packets, `proto`
                                        is their EtherType) or "eth" (frames are Ethernet frames)
     addr    host nic addr              address assigned to the NIC
     routes  host routes                the whole ordered route table: [dst, mask, gw (<<>> = none), nic]
     neigh   host nic addr mac          static neighbour entry (Stack.AddLinkAddress)
     sock    host s proto               socket s created (proto 6 tcp, 17 udp, 1 / 58 ping sockets)
     bind    host s nic addr port       successful bind (addr <<>> = any; port = the port obtained)
     connect host s nic addr port       BEFORE the call: the peer the socket is being connected to
     sendto  host s nic addr port       BEFORE a write with an explicit destination
     local   host s addr port           what the API reports as local address/port afterwards
     rx      host nic proto raw smac    frame delivered to the host (the packets that may be answered)
     emit    host nic proto raw rmac    frame EMITTED by the stack  <-- judged
     note                               ignored

   Judged per emitted frame:
     Wire!WellFormed (all its clauses; transport checksums are exempt on checksum-offload links),
     IpIdFresh, SrcByRoute, PortsRight, DstMac   (see DESIGN C06).
   With Explain = TRUE nothing is rejected; the failed clauses of every bad
   frame are printed instead (<<"FAILED", line, {clauses}>>): used to name
   the clause after a rejection.                                            *)
EXTENDS TraceIO, Wire
CONSTANTS Explain,   \* TRUE: reject nothing, print the failed clauses of every bad frame
          Known      \* ids of known findings (known_findings.json, status known) whose exact shape is tolerated
VARIABLES jst,      \* judge the state-dependent clauses in this segment
          nics,     \* set of [host, nic, kind, mac, resolve, offload]
          addrs,    \* set of [host, nic, addr]
          routes,   \* set of [host, rt]: rt = the route table (sequence)
          neigh,    \* set of [host, nic, addr, mac]: the MAC most recently learnt for the neighbour
          socks,    \* <<host, s>> -> [proto, bnic, laddr, lport, raddr, rport, conn]
          sent,     \* set of [host, s, addr, port]: explicit destinations of writes
          rxs,      \* set of received packet tuples (see RxTuple)
          lastId    \* set of [host, src, dst, proto, id]: IP id of the last large packet of the flow
tvars == <<l, jst, nics, addrs, routes, neigh, socks, sent, rxs, lastId>>
cfgv == <<jst, nics, addrs, routes, neigh>>

Fld(r, f, d) == IF f \in DOMAIN r THEN r[f] ELSE d

TInit == /\ l = 1 /\ jst = FALSE /\ nics = {} /\ addrs = {} /\ routes = {} /\ neigh = {} /\ socks = <<>>
         /\ sent = {} /\ rxs = {} /\ lastId = {} /\ HWInit

Reset == /\ IsEvent("reset")
         /\ jst' = Fld(Ev, "state", FALSE)
         /\ nics' = {} /\ addrs' = {} /\ routes' = {} /\ neigh' = {} /\ socks' = <<>> /\ sent' = {} /\ rxs' = {} /\ lastId' = {}

Nic == /\ IsEvent("nic")
       /\ nics' = nics \cup {[host |-> Ev.host, nic |-> Ev.nic, kind |-> Ev.kind, mac |-> Ev.mac,
                              resolve |-> Ev.resolve, offload |-> Fld(Ev, "offload", FALSE)]}
       /\ UNCHANGED <<jst, addrs, routes, neigh, socks, sent, rxs, lastId>>
Addr == /\ IsEvent("addr")
        /\ addrs' = addrs \cup {[host |-> Ev.host, nic |-> Ev.nic, addr |-> Ev.addr]}
        /\ UNCHANGED <<jst, nics, routes, neigh, socks, sent, rxs, lastId>>
Routes == /\ IsEvent("routes")
          /\ routes' = {r \in routes : r.host # Ev.host} \cup {[host |-> Ev.host, rt |-> Ev.routes]}
          /\ UNCHANGED <<jst, nics, addrs, neigh, socks, sent, rxs, lastId>>
Neigh == /\ IsEvent("neigh")
         /\ neigh' = {x \in neigh : ~(x.host = Ev.host /\ x.nic = Ev.nic /\ x.addr = Ev.addr)}
                      \cup {[host |-> Ev.host, nic |-> Ev.nic, addr |-> Ev.addr, mac |-> Ev.mac]}
         /\ UNCHANGED <<jst, nics, addrs, routes, socks, sent, rxs, lastId>>

\* ------------------------------------------------------------------ sockets
NoAddr == <<>>
\* a dual-stack IPv6 socket names IPv4 peers by v4-mapped addresses (RFC 4291 2.5.5.2, ::ffff:a.b.c.d):
\* on the wire that is the IPv4 address a.b.c.d
Unmap(a) == IF Len(a) = 16 /\ (\A i \in 1..10 : a[i] = 0) /\ a[11] = 255 /\ a[12] = 255 THEN SubSeq(a, 13, 16) ELSE a
Sock == /\ IsEvent("sock")
        /\ socks' = (<<Ev.host, Ev.s>> :> [proto |-> Ev.proto, bnic |-> 0, laddr |-> NoAddr, lport |-> 0,
                                           raddr |-> NoAddr, rport |-> 0, conn |-> FALSE]) @@ socks
        /\ UNCHANGED <<cfgv, sent, rxs, lastId>>
Bind == /\ IsEvent("bind")
        /\ LET k == <<Ev.host, Ev.s>> IN
           socks' = [socks EXCEPT ![k].bnic = Ev.nic, ![k].laddr = Unmap(Ev.addr), ![k].lport = Ev.port]
        /\ UNCHANGED <<cfgv, sent, rxs, lastId>>
Connect == /\ IsEvent("connect")
           /\ LET k == <<Ev.host, Ev.s>> IN
              socks' = [socks EXCEPT ![k].raddr = Unmap(Ev.addr), ![k].rport = Ev.port, ![k].conn = TRUE,
                                     ![k].bnic = IF Ev.nic # 0 THEN Ev.nic ELSE @]
           /\ UNCHANGED <<cfgv, sent, rxs, lastId>>
\* (cur: this explicit destination belongs to the write that is in progress - from its sendto event to its wend event)
SendTo == /\ IsEvent("sendto")
          /\ sent' = sent \cup {[host |-> Ev.host, s |-> Ev.s, addr |-> Unmap(Ev.addr), port |-> Ev.port, cur |-> TRUE]}
          /\ UNCHANGED <<cfgv, socks, rxs, lastId>>
WEnd == /\ IsEvent("wend")
        /\ sent' = {IF x.host = Ev.host /\ x.s = Ev.s THEN [x EXCEPT !.cur = FALSE] ELSE x : x \in sent}
        /\ UNCHANGED <<cfgv, socks, rxs, lastId>>
\* what the API reports fills in what is still unknown (ephemeral port, address chosen by connect); it never
\* replaces the binding the socket was given: C06 judges frames against the socket, not the API against itself
Local == /\ IsEvent("local")
         /\ LET k == <<Ev.host, Ev.s>> IN
            socks' = [socks EXCEPT ![k].lport = IF @ = 0 THEN Ev.port ELSE @,
                                   ![k].laddr = IF socks[k].conn /\ @ = NoAddr THEN Unmap(Ev.addr) ELSE @]
         /\ UNCHANGED <<cfgv, sent, rxs, lastId>>

\* ------------------------------------------------------------------ packets
\* the network-layer packet and its EtherType of a frame event
IsEthNic(h, n) == \E x \in nics : x.host = h /\ x.nic = n /\ x.kind = "eth"
L3Of(e) == IF e.proto = 0
           THEN (IF Len(e.raw) >= 14 THEN [ok |-> TRUE, type |-> DecEth(e.raw).type, p |-> From(e.raw, 14), smac |-> Bytes(e.raw, 6, 6), dmac |-> Bytes(e.raw, 0, 6)]
                 ELSE [ok |-> FALSE])
           ELSE [ok |-> TRUE, type |-> e.proto, p |-> e.raw, smac |-> Fld(e, "smac", <<>>), dmac |-> Fld(e, "rmac", <<>>)]

\* uniform tuple of a packet: [kind, v, src, dst, p1, p2, x]
\*   tcp/udp: p1 = source port, p2 = destination port;  echo request/reply: p1 = ident, p2 = seq
\*   arp: src = spa, dst = tpa, p1 = op, x = <<sha, tha>>;  ns/na: x = <<target, link-layer address option>>
Other == [kind |-> "other", v |-> 0, src |-> <<>>, dst |-> <<>>, p1 |-> 0, p2 |-> 0, x |-> <<>>]
L4Tuple(v, src, dst, proto, seg) ==
  LET T(kind, a, b, x) == [kind |-> kind, v |-> v, src |-> src, dst |-> dst, p1 |-> a, p2 |-> b, x |-> x] IN
  CASE proto = 6 /\ Len(seg) >= 20 -> T("tcp", U16(seg, 0), U16(seg, 2), <<>>)
    [] proto = 17 /\ Len(seg) >= 8 -> T("udp", U16(seg, 0), U16(seg, 2), <<>>)
    [] proto = 1 /\ v = 4 /\ Len(seg) >= 8 ->
         (IF U8(seg, 0) = 8 THEN T("echoreq", U16(seg, 4), U16(seg, 6), <<>>)
          ELSE IF U8(seg, 0) = 0 THEN T("echorep", U16(seg, 4), U16(seg, 6), <<>>) ELSE T("icmp", U8(seg, 0), 0, <<>>))
    [] proto = 58 /\ v = 6 /\ Len(seg) >= 8 ->
         (LET m == DecIcmp6(seg) IN
          IF m.type = 128 THEN T("echoreq", m.ident, m.seq, <<>>)
          ELSE IF m.type = 129 THEN T("echorep", m.ident, m.seq, <<>>)
          ELSE IF m.type = 135 THEN T("ns", 0, m.llkind, <<m.target, m.lladdr>>)
          ELSE IF m.type = 136 THEN T("na", 0, m.llkind, <<m.target, m.lladdr>>)
          ELSE T("icmp", m.type, 0, <<>>))
    [] OTHER -> [Other EXCEPT !.v = v, !.src = src, !.dst = dst]
Tuple(type, p) ==
  IF type = 2054 /\ Len(p) >= 28
  THEN LET a == DecArp(p) IN [kind |-> "arp", v |-> 4, src |-> a.spa, dst |-> a.tpa, p1 |-> a.op, p2 |-> 0, x |-> <<a.sha, a.tha>>]
  ELSE IF type = 2048 /\ Len(p) >= 20 /\ DecIPv4(p).hdrok
  THEN LET h == DecIPv4(p) IN
       IF h.mf = 0 /\ h.fragoff = 0 THEN L4Tuple(4, h.src, h.dst, h.proto, From(p, h.hl))
       ELSE [Other EXCEPT !.v = 4, !.src = h.src, !.dst = h.dst]
  ELSE IF type = 34525 /\ Len(p) >= 40
  THEN LET h == DecIPv6(p) IN L4Tuple(6, h.src, h.dst, h.next, From(p, 40))
  ELSE Other

(* Neighbour learning (P-level, RFC 826 / RFC 4861): the MOST RECENT claim for an address replaces
   the earlier ones.  An ARP reply and a neighbour advertisement are always a claim; an ARP request /
   neighbour solicitation only when it asks for one of this NIC's own addresses (then its sender is
   learnt).  For NDP both the frame's source MAC and the link-layer address option count (they are
   the same in every sane capture).                                                               *)
Rx == /\ IsEvent("rx")
      /\ LET f == L3Of(Ev)
             t == IF f.ok THEN Tuple(f.type, f.p) ELSE Other
             mine(a) == [host |-> Ev.host, nic |-> Ev.nic, addr |-> a] \in addrs
             learn == IF ~f.ok THEN {}
                      ELSE IF t.kind = "arp" THEN (IF t.p1 = 2 \/ mine(t.dst) THEN {<<t.src, t.x[1]>>} ELSE {})
                      ELSE IF t.kind = "ns" THEN
                           (IF mine(t.x[1]) THEN {<<t.src, f.smac>>} \cup (IF t.x[2] # <<>> THEN {<<t.src, t.x[2]>>} ELSE {}) ELSE {})
                      ELSE IF t.kind = "na" THEN
                           {<<t.src, f.smac>>, <<t.x[1], f.smac>>} \cup (IF t.x[2] # <<>> THEN {<<t.x[1], t.x[2]>>} ELSE {})
                      ELSE {}
             claims == {y \in learn : y[2] # <<>>}
         IN /\ rxs' = rxs \cup {[host |-> Ev.host, nic |-> Ev.nic, t |-> t]}
            /\ neigh' = {x \in neigh : ~(x.host = Ev.host /\ x.nic = Ev.nic /\ \E y \in claims : y[1] = x.addr)}
                         \cup {[host |-> Ev.host, nic |-> Ev.nic, addr |-> y[1], mac |-> y[2]] : y \in claims}
      /\ UNCHANGED <<jst, nics, addrs, routes, socks, sent, lastId>>

\* ------------------------------------------------------------------ routing (P-level)
\* mask bytes are prefix masks (255, 254, 252, ..., 128, 0): a & m = a - a % (256 - m)
And8(a, m) == a - (a % (256 - m))
Match(r, dst) == /\ Len(r.dst) = Len(dst) /\ Len(r.mask) = Len(dst)
                 /\ \A i \in 1..Len(dst) : And8(dst[i], r.mask[i]) = r.dst[i]
TableOf(h) == IF \E r \in routes : r.host = h THEN (CHOOSE r \in routes : r.host = h).rt ELSE <<>>
\* index of the first route entry matching dst (through NIC b when b # 0); 0 = none
FirstMatch(h, dst, b) ==
  LET rt == TableOf(h)
      ok == {i \in 1..Len(rt) : Match(rt[i], dst) /\ (b = 0 \/ rt[i].nic = b)}
  IN IF ok = {} THEN 0 ELSE CHOOSE i \in ok : \A j \in ok : i <= j
NextHop(h, dst) ==
  LET i == FirstMatch(h, dst, 0) IN
  IF i = 0 THEN dst ELSE IF TableOf(h)[i].gw = <<>> THEN dst ELSE TableOf(h)[i].gw
HasAddr(h, n, a) == [host |-> h, nic |-> n, addr |-> a] \in addrs
Answers(h, n, t) == \E r \in rxs : r.host = h /\ r.nic = n /\ r.t.v = t.v /\ r.t.src = t.dst /\ r.t.dst = t.src
SolicitedNode(a) == <<255, 2, 0, 0, 0, 0, 0, 0, 0, 0, 0, 1, 255, a[14], a[15], a[16]>>

\* ------------------------------------------------------------------ the state-dependent clauses
SockProto(t) == CASE t.kind = "tcp" -> 6 [] t.kind = "udp" -> 17 [] t.kind = "echoreq" -> (IF t.v = 4 THEN 1 ELSE 58) [] OTHER -> 0
\* remote side of socket k agrees with the packet (ping sockets have no remote port)
\* (a connected socket may still name a destination per datagram)
PeerOK(k, t) == \/ socks[k].conn /\ socks[k].raddr = t.dst /\ (t.kind = "echoreq" \/ socks[k].rport = t.p2)
                \/ \E x \in sent : x.host = k[1] /\ x.s = k[2] /\ x.addr = t.dst /\ (t.kind = "echoreq" \/ x.port = t.p2)
\* a datagram that a socket emits while its write with an explicit destination is in progress goes to THAT destination
\* (judged on in-memory links without address resolution only: there the tap logs the frame inside the Write call; fd-based
\*  links are captured by a reader goroutine and resolution defers frames, so "in progress" says nothing about them)
NowRight(h, t) == \A x \in sent : (x.cur /\ x.host = h /\ t.kind = "udp" /\ <<h, x.s>> \in DOMAIN socks /\ socks[<<h, x.s>>].proto = 17
                                      /\ socks[<<h, x.s>>].lport \in {0, t.p1} /\ socks[<<h, x.s>>].laddr \in {NoAddr, t.src})
                                     => (t.dst = x.addr /\ t.p2 = x.port)
Owners(h, t) == {k \in DOMAIN socks : /\ k[1] = h /\ socks[k].proto = SockProto(t)
                                      /\ socks[k].lport = t.p1 /\ socks[k].laddr \in {NoAddr, t.src} /\ PeerOK(k, t)}
\* sockets that have no local port yet and are sending to this destination: the frame shows their port
Fresh(h, t) == {k \in DOMAIN socks : /\ k[1] = h /\ socks[k].proto = SockProto(t)
                                     /\ socks[k].lport = 0 /\ socks[k].laddr \in {NoAddr, t.src} /\ PeerOK(k, t)}
Mirrors(h, n, t, kind) == \E r \in rxs : /\ r.host = h /\ r.nic = n /\ r.t.kind = kind /\ r.t.v = t.v
                                         /\ r.t.src = t.dst /\ r.t.dst = t.src
                                         /\ (IF kind = "echoreq" THEN r.t.p1 = t.p1 /\ r.t.p2 = t.p2
                                             ELSE r.t.p1 = t.p2 /\ r.t.p2 = t.p1)

PortsRight(h, n, t) ==
  CASE t.kind \in {"tcp", "udp"} -> Owners(h, t) # {} \/ Fresh(h, t) # {} \/ Mirrors(h, n, t, t.kind)
    [] t.kind = "echoreq" -> Owners(h, t) # {} \/ Fresh(h, t) # {}
    [] t.kind = "echorep" -> Mirrors(h, n, t, "echoreq")
    [] OTHER -> TRUE
BoundNics(h, t) == {0} \cup {socks[k].bnic : k \in Owners(h, t) \cup Fresh(h, t)}
SrcByRoute(h, n, t) ==
  \/ (t.v = 6 /\ t.dst[1] = 255 /\ t.dst[2] % 16 = 2 /\ HasAddr(h, n, t.src))   \* link-scope multicast is not routed: an address of this NIC
  \/ \E b \in BoundNics(h, t) : LET i == FirstMatch(h, t.dst, b) IN i # 0 /\ TableOf(h)[i].nic = n /\ HasAddr(h, n, t.src)
  \/ Answers(h, n, t)

\* address resolution is only ever done for a NEXT HOP: an address that a route entry reaches directly
\* (no gateway) through this very NIC -- the gateway of an entry is such an address, an off-link destination is not
IsNextHop(h, n, a) == \E b \in {0, n} : LET i == FirstMatch(h, a, b) IN i # 0 /\ TableOf(h)[i].gw = <<>> /\ TableOf(h)[i].nic = n
MacsOf(h, n, a) == {x.mac : x \in {y \in neigh : y.host = h /\ y.nic = n /\ y.addr = a}}
DstMacIP(h, n, t, dmac) ==
  IF t.v = 4 /\ t.dst = <<255, 255, 255, 255>> THEN dmac = BroadcastMac
  ELSE IF t.v = 6 /\ t.dst[1] = 255 THEN dmac \in {BroadcastMac, <<51, 51, t.dst[13], t.dst[14], t.dst[15], t.dst[16]>>}
  ELSE dmac \in MacsOf(h, n, NextHop(h, t.dst))

ArpFailsSt(h, nc, t, dmac) ==
  IF t.p1 = 1
  THEN Chk(t.x[1] = nc.mac, "arp.sha") \cup Chk(HasAddr(h, nc.nic, t.src), "arp.spa")
       \cup Chk(~nc.resolve \/ dmac = BroadcastMac, "dstmac.arp.request")
       \cup Chk(IsNextHop(h, nc.nic, t.dst), "dstmac.arp.nexthop")
  ELSE Chk(t.x[1] = nc.mac, "arp.sha") \cup Chk(HasAddr(h, nc.nic, t.src), "arp.spa")
       \cup Chk(\E r \in rxs : r.host = h /\ r.nic = nc.nic /\ r.t.kind = "arp" /\ r.t.p1 = 1
                                /\ r.t.dst = t.src /\ r.t.src = t.dst /\ r.t.x[1] = t.x[2], "arp.reply.mirror")
       \cup Chk(~nc.resolve \/ dmac = t.x[2], "dstmac.arp.reply")
NdFailsSt(h, nc, t) ==
  IF t.kind = "ns"
  THEN Chk(t.dst = SolicitedNode(t.x[1]) \/ t.dst = t.x[1], "nd.ns.dst")
       \cup Chk(t.x[2] = <<>> \/ (t.p2 = 1 /\ t.x[2] = nc.mac), "nd.ns.slla")
       \cup Chk(IsNextHop(h, nc.nic, t.x[1]), "dstmac.ns.nexthop")
  ELSE Chk(HasAddr(h, nc.nic, t.x[1]) /\ t.src = t.x[1], "nd.na.target")
       \cup Chk(\E r \in rxs : r.host = h /\ r.nic = nc.nic /\ r.t.kind = "ns" /\ r.t.x[1] = t.x[1] /\ r.t.src = t.dst, "nd.na.mirror")
       \cup Chk(t.x[2] = <<>> \/ (t.p2 = 2 /\ t.x[2] = nc.mac), "nd.na.tlla")

StateFails(h, nc, t, dmac) ==
  IF t.kind = "arp" THEN ArpFailsSt(h, nc, t, dmac)
  ELSE IF t.kind = "other" /\ t.v = 0 THEN {}                       \* undecodable: WellFormed has already failed
  ELSE Chk(SrcByRoute(h, nc.nic, t), "SrcByRoute") \cup Chk(PortsRight(h, nc.nic, t) /\ (nc.kind = "eth" \/ nc.resolve \/ NowRight(h, t)), "PortsRight")
       \cup Chk(~nc.resolve \/ DstMacIP(h, nc.nic, t, dmac), "DstMac")
       \cup (IF t.kind \in {"ns", "na"} THEN NdFailsSt(h, nc, t) ELSE {})

\* IpIdFresh: consecutive IPv4 packets of one flow that are larger than 68 bytes carry different identifiers
IsLarge4(f) == f.ok /\ f.type = 2048 /\ Len(f.p) > 68 /\ Len(f.p) >= 20
FlowOf(h, p) == [host |-> h, src |-> Bytes(p, 12, 4), dst |-> Bytes(p, 16, 4), proto |-> U8(p, 9)]
IdFails(h, f) ==
  IF IsLarge4(f)
  THEN LET fl == FlowOf(h, f.p) IN
       Chk(~\E x \in lastId : x.host = h /\ x.src = fl.src /\ x.dst = fl.dst /\ x.proto = fl.proto /\ x.id = U16(f.p, 4), "IpIdFresh")
  ELSE {}

(* Known findings (DESIGN 2.3): the exact shape of a defect recorded in known_findings.json is
   tolerated (and printed) so that validation continues past it; anything else still fails.
     F12  ping6 socket: ICMPv6 echo request whose checksum is the plain ICMP sum without pseudo-header
     F13  fd-based link: neighbour solicitation leaves with an all-zero Ethernet source address      *)
KnownShape(e, f, t, fails) ==
  IF f.ok /\ t.kind = "echoreq" /\ t.v = 6 /\ fails = {"icmp6.checksum"} /\ Verifies(Sum1071(From(f.p, 40))) THEN "F12"
  ELSE IF f.ok /\ e.proto = 0 /\ t.kind = "ns" /\ fails = {"eth.src"} /\ f.smac = <<0, 0, 0, 0, 0, 0>> THEN "F13"
  ELSE "none"

NoNic == [host |-> 0, nic |-> 0, kind |-> "ip", mac |-> <<>>, resolve |-> FALSE, offload |-> FALSE]
NicRec(h, n) == IF \E x \in nics : x.host = h /\ x.nic = n THEN CHOOSE x \in nics : x.host = h /\ x.nic = n ELSE [NoNic EXCEPT !.nic = n]

Emit ==
  /\ IsEvent("emit")
  /\ LET h == Ev.host
         nc == NicRec(h, Ev.nic)
         f == L3Of(Ev)
         t == IF f.ok THEN Tuple(f.type, f.p) ELSE Other
         wf == IF Ev.proto = 0 THEN EthFails(Ev.raw, nc.mac, nc.offload) ELSE L3Fails(Ev.raw, Ev.proto, nc.offload)
         st == IF jst /\ f.ok THEN StateFails(h, nc, t, f.dmac) ELSE {}
         fails == wf \cup st \cup IdFails(h, f)
         fresh == IF t.kind \in {"tcp", "udp", "echoreq"} /\ Owners(h, t) = {} THEN Fresh(h, t) ELSE {}
         kf == KnownShape(Ev, f, t, fails)
     IN /\ (IF fails = {} THEN TRUE
            ELSE IF kf \in Known THEN PrintT(<<"KNOWN", l, kf>>)
            ELSE IF Explain THEN PrintT(<<"FAILED", l, fails>>) ELSE FALSE)
        /\ lastId' = IF IsLarge4(f)
                     THEN LET fl == FlowOf(h, f.p) IN
                          {x \in lastId : ~(x.host = h /\ x.src = fl.src /\ x.dst = fl.dst /\ x.proto = fl.proto)}
                          \cup {[host |-> h, src |-> fl.src, dst |-> fl.dst, proto |-> fl.proto, id |-> U16(f.p, 4)]}
                     ELSE lastId
        /\ socks' = IF fresh # {}
                    THEN LET k == CHOOSE k \in fresh : TRUE IN
                         [socks EXCEPT ![k].lport = t.p1, ![k].laddr = IF socks[k].conn THEN t.src ELSE @]
                    ELSE socks
  /\ UNCHANGED <<cfgv, sent, rxs>>

Note == IsEvent("note") /\ UNCHANGED <<cfgv, socks, sent, rxs, lastId>>

TNext == Reset \/ Nic \/ Addr \/ Routes \/ Neigh \/ Sock \/ Bind \/ Connect \/ SendTo \/ WEnd \/ Local \/ Rx \/ Emit \/ Note
TSpec == TInit /\ [][TNext]_tvars
=============================================================================
