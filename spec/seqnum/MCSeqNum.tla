---- MODULE MCSeqNum ----
(* E1 for C14: TLC visits every pair (a, x) in V x V as a state and evaluates
   the equivalences for every third / third-and-fourth operand in the
   invariants, i.e. every operand tuple of every function at modulus M. *)
EXTENDS SeqNum, TLC
VARIABLES a, x, st
vars == <<a, x, st>>
Init == a \in V /\ x = 0 /\ st = 0
Next == st = 0 /\ st' = 1 /\ x' \in V /\ a' = a
Spec == Init /\ [][Next]_vars

ASSUME M \in {4, 8, 16, 32, 64, 128} /\ H + H = M

Pairs == /\ LtExact(a, x) /\ LeExact(a, x) /\ LtShape(a, x) /\ AddSizeEq(a, x)
         /\ (Precedes(a, x) => ~Precedes(x, a))                 \* the definition is antisymmetric
         /\ (a # x /\ ~F2a(a, x)) => (Precedes(a, x) \/ Precedes(x, a))
Triples == \A c \in V : /\ InRangeEq(c, a, x) /\ InWindowEq(c, a, x)
                        /\ (InWindow(c, a, x) <=> (x > 0 /\ (c = a \/ InRange(c, a, Add(a, x)))))
Quads == \A b, y \in V :
            LET sh   == Share(a, b, x, y)          \* the definition, literally (\E k \in V)
                shw  == ShareW(a, b, x, y)
                impl == OverlapImpl(a, b, x, y)
                ends == EndsAhead(a, b, x, y)
                fe   == (b = 0 \/ y = 0) /\ ends
                fw   == b > 0 /\ y > 0 /\ shw /\ ~ends
            IN  /\ (impl # sh) <=> (fe \/ fw)                    \* OverlapExact
                /\ sh <=> shw                                    \* ShareLemma
                /\ (fe \/ fw) <=> F2b(a, b, x, y)
                /\ impl <=> ends
                /\ R2(b, y) => ~(fe \/ fw)
                /\ R1(a, b, x, y) => ~(fe \/ fw)
                /\ fw => b + y > H + 1
                /\ ~(fe /\ fw)
QuadsSym == \A b, y \in V : Share(a, b, x, y) <=> Share(x, y, a, b)
(* R2 is exact in the sizes (evaluated once, in the state a = 0, st = 0) *)
SizesExact == (st = 0 /\ a = 0) =>
                \A b, y \in V : (R2(b, y) \/ <<b, y>> \in {<<0, 1>>, <<1, 0>>})
                                  <=> (\A p, q \in V : ~F2b(p, b, q, y))
(* translation invariance of every definition and region (used by the embedding sweep) *)
Shift == \A t \in {1, H - 1, H, H + 1, M - 1} : \A b, y \in {0, 1, H - 1, H, H + 1, M - 1} :
            LET a2 == Add(a, t)  x2 == Add(x, t) IN
            /\ Precedes(a2, x2) <=> Precedes(a, x)
            /\ F2a(a2, x2) <=> F2a(a, x)
            /\ InRange(Add(b, t), a2, x2) <=> InRange(b, a, x)
            /\ InWindow(x2, a2, b) <=> InWindow(x, a, b)
            /\ Share(a2, b, x2, y) <=> Share(a, b, x, y)
            /\ F2b(a2, b, x2, y) <=> F2b(a, b, x, y)
====
