---- MODULE MCSeqNum ----
(* E1 for C14: TLC visits every pair (a, x) in V x V as a state and evaluates
   the equivalences for every third / third-and-fourth operand in the
   invariants, i.e. every operand tuple of every function at modulus M.
   wa[s] / wx[s] hold the windows [a, a+s) / [x, x+s) of the state as sets
   (computed once per state), so that "the windows share a number" is one set
   intersection per tuple; QuadsLit ties them to the literal \E k form. *)
EXTENDS SeqNum, TLC
VARIABLES a, x, st, wa, wx
vars == <<a, x, st, wa, wx>>
Wins(p) == [s \in V |-> Window(p, s)]
Init == a \in V /\ x = 0 /\ st = 0 /\ wa = Wins(a) /\ wx = Wins(0)
Next == st = 0 /\ st' = 1 /\ x' \in V /\ a' = a /\ wa' = wa /\ wx' = Wins(x')
Spec == Init /\ [][Next]_vars

ASSUME M \in {4, 8, 16, 32, 64, 128} /\ H + H = M

Pairs == /\ LtExact(a, x) /\ LeExact(a, x) /\ LtShape(a, x) /\ AddSizeEq(a, x)
         /\ (Precedes(a, x) => ~Precedes(x, a))                 \* the definition is antisymmetric
         /\ (a # x /\ ~F2a(a, x)) => (Precedes(a, x) \/ Precedes(x, a))
Triples == \A c \in V : /\ InRangeEq(c, a, x) /\ InWindowEq(c, a, x)
                        /\ (InWindow(c, a, x) <=> (x > 0 /\ (c = a \/ InRange(c, a, Add(a, x)))))
Quads == \A b, y \in V :
            LET sh   == (wa[b] \cap wx[y]) # {}        \* ShareSet(a, b, x, y): the windows share a number
                shw  == ShareW(a, b, x, y)
                impl == OverlapImpl(a, b, x, y)
                ends == EndsAhead(a, b, x, y)
                f    == IF b = 0 \/ y = 0 THEN ends ELSE shw /\ ~ends     \* F2b(a, b, x, y), see QuadsLit
            IN  /\ (impl # sh) <=> f                             \* OverlapExact
                /\ sh <=> shw                                    \* ShareLemma
                /\ R2(b, y) => ~f
                /\ R1(a, b, x, y) => ~f
                /\ (f /\ b > 0 /\ y > 0) => b + y > H + 1         \* WideNeedsExtent
(* the set form and the unfolded F2b used above are the literal definitions (\E k \in V : ..., F2b) *)
QuadsLit == /\ \A s \in V : wa[s] = Window(a, s) /\ wx[s] = Window(x, s)
            /\ \A b, y \in V :
                  /\ Share(a, b, x, y) <=> ((wa[b] \cap wx[y]) # {})
                  /\ F2b(a, b, x, y) <=> (IF b = 0 \/ y = 0 THEN EndsAhead(a, b, x, y)
                                                            ELSE ShareW(a, b, x, y) /\ ~EndsAhead(a, b, x, y))
                  /\ OverlapExactW(a, b, x, y)
(* R2 is exact in the sizes: for every other (b, y) except (0,1), (1,0) some placement is in F2b
   (the converse, R2 => ~F2b for every placement, is part of Quads).  Evaluated once, in the state a = 0, st = 0. *)
SizesExact == (st = 0 /\ a = 0) =>
                /\ \A b, y \in V : (R2(b, y) \/ <<b, y>> \in {<<0, 1>>, <<1, 0>>}) \/ (\E q \in V : F2b(0, b, q, y))
                /\ \A p, q \in V : ~F2b(p, 0, q, 1) /\ ~F2b(p, 1, q, 0)
(* translation invariance of every definition and region (used by the embedding sweep) *)
Shift == \A t \in {1, H, M - 1} : \A b, y \in {0, 1, H, M - 1} :
            LET a2 == Add(a, t)  x2 == Add(x, t) IN
            /\ Precedes(a2, x2) <=> Precedes(a, x)
            /\ F2a(a2, x2) <=> F2a(a, x)
            /\ InRange(Add(b, t), a2, x2) <=> InRange(b, a, x)
            /\ InWindow(x2, a2, b) <=> InWindow(x, a, b)
            /\ Share(a2, b, x2, y) <=> Share(a, b, x, y)
            /\ Share(a, b, x, y) <=> Share(x, y, a, b)
            /\ F2b(a2, b, x2, y) <=> F2b(a, b, x, y)
====
