---- MODULE MCU32 ----
(* U32 (two base-B digits) agrees with SeqNum at M = B*B on every operand
   tuple: states are the pairs (a, x); the invariants quantify over the rest. *)
EXTENDS U32, TLC
CONSTANT QA                       \* quadruples are checked in the states whose a is in QA
S == INSTANCE SeqNum WITH M <- B * B
VARIABLES a, x, st
vars == <<a, x, st>>
P(n) == <<n \div B, n % B>>       \* number -> digits
N(p) == p[1] * B + p[2]           \* digits -> number
Init == a \in S!V /\ x = 0 /\ st = 0
Next == st = 0 /\ st' = 1 /\ x' \in S!V /\ a' = a
Spec == Init /\ [][Next]_vars

Arith == /\ IsU(P(a)) /\ N(P(a)) = a
         /\ N(USub(P(a), P(x))) = (a - x + B * B) % (B * B)
         /\ N(UAdd(P(a), P(x))) = (a + x) % (B * B)
         /\ ULess(P(a), P(x)) <=> a < x
         /\ ULeq(P(a), P(x)) <=> a <= x
         /\ N(HalfU) = S!H /\ N(One) = 1 /\ N(Zero) = 0
Pairs == /\ Precedes(P(a), P(x)) <=> S!Precedes(a, x)
         /\ PrecedesEq(P(a), P(x)) <=> S!PrecedesEq(a, x)
         /\ F2a(P(a), P(x)) <=> S!F2a(a, x)
         /\ N(Add(P(a), P(x))) = S!Add(a, x)
         /\ N(Size(P(a), P(x))) = S!Size(a, x)
Triples == \A c \in S!V : /\ InRange(P(c), P(a), P(x)) <=> S!InRange(c, a, x)
                          /\ InWindow(P(c), P(a), P(x)) <=> S!InWindow(c, a, x)
Quads == (a \in QA) => \A b, y \in S!V :
            /\ ShareW(P(a), P(b), P(x), P(y)) <=> S!Share(a, b, x, y)
            /\ F2b(P(a), P(b), P(x), P(y)) <=> S!F2b(a, b, x, y)
====
