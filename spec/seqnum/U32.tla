---- MODULE U32 ----
(* SeqNum at modulus M = B*B with numbers written as two base-B digits <<hi, lo>>.
   With B = 65536 this is the real 32-bit sequence space inside TLC's 32-bit
   signed integers: the oracle for the Go functions at real width
   (TraceSeqNum).  The text below is a transliteration of the DEFINITIONS and
   F2 regions of SeqNum.tla; MCU32 checks it against SeqNum for every operand
   tuple at B = 4 (M = 16) and B = 8 pairs/triples (M = 64); carries and
   borrows are base-generic. *)
EXTENDS Integers, Sequences
CONSTANT B
IsU(p) == Len(p) = 2 /\ p[1] \in 0 .. (B - 1) /\ p[2] \in 0 .. (B - 1)
Zero == <<0, 0>>
One == <<0, 1>>
HalfU == <<B \div 2, 0>>                              \* H
USub(p, q) == LET lo == p[2] - q[2]  bw == IF lo < 0 THEN 1 ELSE 0
              IN <<(p[1] - q[1] - bw + B + B) % B, (lo + B) % B>>     \* (p - q) mod M
UAdd(p, q) == LET lo == p[2] + q[2]
              IN <<(p[1] + q[1] + (lo \div B)) % B, lo % B>>          \* (p + q) mod M
ULess(p, q) == p[1] < q[1] \/ (p[1] = q[1] /\ p[2] < q[2])
ULeq(p, q) == p = q \/ ULess(p, q)

(* ------------------------------------------------------------ definitions *)
Dist(v, w) == USub(w, v)
Precedes(v, w) == ULeq(One, Dist(v, w)) /\ ULess(Dist(v, w), HalfU)      \* 1 <= d <= H-1
PrecedesEq(v, w) == v = w \/ Precedes(v, w)
InRange(v, a, b) == ULess(Dist(a, v), Dist(a, b))
Add(v, s) == UAdd(v, s)
Size(v, w) == Dist(v, w)
InWindow(v, first, size) == ULess(Dist(first, v), size)
InBoth(k, a, b, x, y) == ULess(Dist(a, k), b) /\ ULess(Dist(x, k), y)
ShareW(a, b, x, y) == InBoth(a, a, b, x, y) \/ InBoth(x, a, b, x, y)      \* = Share by ShareLemma

(* ------------------------------------------------- known-finding regions F2 *)
F2a(v, w) == Dist(v, w) = HalfU
Ahead(p, q) == ULeq(One, Dist(p, q)) /\ ULeq(Dist(p, q), HalfU)
EndsAhead(a, b, x, y) == Ahead(a, Add(x, y)) /\ Ahead(x, Add(a, b))
F2bEmpty(a, b, x, y) == (b = Zero \/ y = Zero) /\ EndsAhead(a, b, x, y)
F2bWide(a, b, x, y) == b # Zero /\ y # Zero /\ ShareW(a, b, x, y) /\ ~EndsAhead(a, b, x, y)
F2b(a, b, x, y) == F2bEmpty(a, b, x, y) \/ F2bWide(a, b, x, y)
====
