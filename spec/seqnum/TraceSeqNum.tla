---- MODULE TraceSeqNum ----
(* Trace validation for C14: each event is one call of the real seqnum API at
   real width, operands and results logged as <<hi, lo>> 16-bit halves.  TLC
   evaluates the DEFINITIONS (U32 with B = 65536) and accepts the event iff the
   logged result is the defined one.
   Known findings (DESIGN 2.3, "Inv \/ KF_x"): with Lenient = TRUE an event whose
   result differs from the definition is still consumed when its operands lie
   in the F2 region of that function; TLC then prints <<"KF", id, event id>> so
   the check can report it.  With Lenient = FALSE the module is the pure P-spec.
   Events: reset | lt le (v w got) | inrange (v a b got) | inwindow (v first size got)
           | overlap (a b x y got) | add upd (v s got=<<hi,lo>>) | size (v w got=<<hi,lo>>) *)
EXTENDS U32, TraceIO
CONSTANT Lenient

Judge(e, def, region, kf) ==
    \/ e.got = def
    \/ Lenient /\ region /\ PrintT(<<"KF", kf, e.id>>)

Holds(e) ==
    CASE e.ev = "reset"    -> TRUE
      [] e.ev = "lt"       -> IsU(e.v) /\ IsU(e.w) /\ Judge(e, Precedes(e.v, e.w), F2a(e.v, e.w), "F2a")
      [] e.ev = "le"       -> IsU(e.v) /\ IsU(e.w) /\ Judge(e, PrecedesEq(e.v, e.w), F2a(e.v, e.w), "F2a")
      [] e.ev = "inrange"  -> IsU(e.v) /\ IsU(e.a) /\ IsU(e.b) /\ e.got = InRange(e.v, e.a, e.b)
      [] e.ev = "inwindow" -> IsU(e.v) /\ IsU(e.first) /\ IsU(e.size) /\ e.got = InWindow(e.v, e.first, e.size)
      [] e.ev = "overlap"  -> /\ IsU(e.a) /\ IsU(e.b) /\ IsU(e.x) /\ IsU(e.y)
                              /\ Judge(e, ShareW(e.a, e.b, e.x, e.y), F2b(e.a, e.b, e.x, e.y), "F2b")
      [] e.ev = "add"      -> IsU(e.v) /\ IsU(e.s) /\ e.got = Add(e.v, e.s)
      [] e.ev = "upd"      -> IsU(e.v) /\ IsU(e.s) /\ e.got = Add(e.v, e.s)
      [] e.ev = "size"     -> IsU(e.v) /\ IsU(e.w) /\ e.got = Size(e.v, e.w) /\ Add(e.v, e.got) = e.w
      [] OTHER             -> FALSE

TInit == l = 1 /\ HWInit
TNext == l <= NT /\ Holds(Ev) /\ l' = l + 1
TSpec == TInit /\ [][TNext]_l
====
