---- MODULE SeqNum ----
(* C14 - sequence-space arithmetic modulo M (M a power of two, H = M/2).
   Part 1: the DEFINITIONS, exactly as the property states them (the P-spec).
   Part 2: the IMPLEMENTATION SHAPES of /repo/pkg/seqnum/seqnum.go (the I-spec).
   Part 3: the known-finding regions F2a / F2b: the exact sets of operand
           tuples on which part 2 differs from part 1.
   Every predicate uses only the constants 0, H, M in comparisons, so the same
   text is checked by TLC at M = 16, 32, 64 (MCSeqNum), by Apalache at
   M = 2^32 (SeqNumApa) and, transliterated to 16-bit halves, evaluated by TLC
   at real width (U32 / TraceSeqNum).
   All dividends of % are kept non-negative (operands are in 0..M-1). *)
EXTENDS Integers
CONSTANT
    \* @type: Int;
    M
H == M \div 2
V == 0 .. (M - 1)

(* ------------------------------------------------------------ definitions *)
Dist(v, w) == (w - v + M) % M                       \* forward distance from v to w
Precedes(v, w) == LET d == Dist(v, w) IN 1 <= d /\ d <= H - 1
PrecedesEq(v, w) == v = w \/ Precedes(v, w)
InRange(v, a, b) == Dist(a, v) < Dist(a, b)         \* v in [a, b)
Add(v, s) == (v + s) % M                            \* the number following [v, v+s)
Size(v, w) == Dist(v, w)                            \* size of [v, w)
InWindow(v, first, size) == Dist(first, v) < size   \* v in [first, first+size)
InBoth(k, a, b, x, y) == Dist(a, k) < b /\ Dist(x, k) < y
Share(a, b, x, y) == \E k \in V : InBoth(k, a, b, x, y)      \* [a,a+b) and [x,x+y) share a number
Window(a, b) == {k \in V : Dist(a, k) < b}                   \* the window [a, a+b) as a set
ShareSet(a, b, x, y) == (Window(a, b) \cap Window(x, y)) # {}  \* the same statement on sets
(* Lemma (ShareLemma, checked for every tuple): two windows that share a number
   share the first number of one of them.  ShareW is the form that can be
   evaluated at M = 2^32. *)
ShareW(a, b, x, y) == InBoth(a, a, b, x, y) \/ InBoth(x, a, b, x, y)

(* --------------------------------------------------- implementation shapes *)
U(n) == n % M                                        \* uint32 truncation (n >= 0)
ToSigned(u) == IF u >= H THEN u - M ELSE u           \* int32(u)
LessThanImpl(v, w) == ToSigned(U(v - w + M)) < 0     \* int32(v-w) < 0
LessThanEqImpl(v, w) == IF v = w THEN TRUE ELSE LessThanImpl(v, w)
InRangeImpl(v, a, b) == U(v - a + M) < U(b - a + M)  \* v-a < b-a (unsigned)
AddImpl(v, s) == U(v + s)
InWindowImpl(v, first, size) == InRangeImpl(v, first, AddImpl(first, size))
OverlapImpl(a, b, x, y) == LessThanImpl(a, AddImpl(x, y)) /\ LessThanImpl(x, AddImpl(a, b))
SizeImpl(v, w) == U(w - v + M)
UpdateForwardImpl(v, s) == U(v + s)

(* ------------------------------------------------- known-finding regions F2 *)
(* F2a: antipodal pair.  The code says "v before w" (both ways round), the
   property says neither precedes the other. *)
F2a(v, w) == Dist(v, w) = H

(* q is 1..H ahead of p (antipode included): what int32(p-q) < 0 computes *)
Ahead(p, q) == LET d == Dist(p, q) IN 1 <= d /\ d <= H
EndsAhead(a, b, x, y) == Ahead(a, Add(x, y)) /\ Ahead(x, Add(a, b))
(* F2b: exact set of tuples where Overlap differs from "share a number".
   F2bEmpty: a window is empty (so nothing is shared) but each window's end is
             1..H ahead of the other's start - e.g. an empty window strictly
             inside the other: the code reports an overlap.
   F2bWide:  both non-empty, a number is shared, but the end of one window is
             0 or more than H ahead of the other's start: the code reports no
             overlap.  Only possible when b + y > H + 1 (WideNeedsExtent). *)
F2bEmpty(a, b, x, y) == (b = 0 \/ y = 0) /\ EndsAhead(a, b, x, y)
F2bWide(a, b, x, y) == b > 0 /\ y > 0 /\ ShareW(a, b, x, y) /\ ~EndsAhead(a, b, x, y)
F2b(a, b, x, y) == F2bEmpty(a, b, x, y) \/ F2bWide(a, b, x, y)

(* Simple sufficient agreement regions (both imply ~F2b, checked):
   R2 depends on the sizes only and is exact in the sizes: for every other
   (b, y) except (0,1) and (1,0) some placement of the windows is in F2b.
   R1 is the region measured in DESIGN A.4. *)
R2(b, y) == b > 0 /\ y > 0 /\ b + y <= H + 1
R1(a, b, x, y) == /\ 0 < b /\ b < H /\ 0 < y /\ y < H
                  /\ (Dist(a, x) + y < H \/ Dist(x, a) + b < H)

(* ------------------------------- the equivalences (one instance per tuple) *)
LtExact(v, w) == (LessThanImpl(v, w) # Precedes(v, w)) <=> F2a(v, w)
LeExact(v, w) == (LessThanEqImpl(v, w) # PrecedesEq(v, w)) <=> F2a(v, w)
LtShape(v, w) == LessThanImpl(v, w) <=> Ahead(v, w)
InRangeEq(v, a, b) == InRangeImpl(v, a, b) <=> InRange(v, a, b)
InWindowEq(v, f, s) == InWindowImpl(v, f, s) <=> InWindow(v, f, s)
AddSizeEq(v, w) == /\ AddImpl(v, w) = Add(v, w)                \* w read as a size
                   /\ UpdateForwardImpl(v, w) = Add(v, w)
                   /\ SizeImpl(v, w) = Size(v, w)
                   /\ Dist(v, Add(v, w)) = w                   \* [v, v+s) has s numbers
                   /\ Add(v, Size(v, w)) = w
OverlapExactW(a, b, x, y) == (OverlapImpl(a, b, x, y) # ShareW(a, b, x, y)) <=> F2b(a, b, x, y)
RegionsOK(a, b, x, y) == /\ R2(b, y) => ~F2b(a, b, x, y)
                         /\ R1(a, b, x, y) => ~F2b(a, b, x, y)
                         /\ F2bWide(a, b, x, y) => b + y > H + 1
                         /\ ~(F2bEmpty(a, b, x, y) /\ F2bWide(a, b, x, y))
====
