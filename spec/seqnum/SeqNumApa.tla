---- MODULE SeqNumApa ----
(* E6 for C14: the equivalences of SeqNum at the real modulus M = 2^32, decided
   by Apalache:  apalache-mc check --cinit=CInit --length=0 --inv=<Inv> SeqNumApa.tla
   With --length=0 only Init is unrolled, so each invariant is a validity
   query over all operand values in 0..2^32-1. *)
EXTENDS SeqNum
VARIABLES
    \* @type: Int;
    v,
    \* @type: Int;
    w,
    \* @type: Int;
    a,
    \* @type: Int;
    b,
    \* @type: Int;
    x,
    \* @type: Int;
    y,
    \* @type: Int;
    k,
    \* @type: Int;
    t

CInit == M = 4294967296
Init == v \in V /\ w \in V /\ a \in V /\ b \in V /\ x \in V /\ y \in V /\ k \in V /\ t \in V
Next == UNCHANGED <<v, w, a, b, x, y, k, t>>

(* LessThan / LessThanEq: differ from the definition exactly on F2a (antipode) *)
LtInv == LtExact(v, w) /\ LtShape(v, w)
LeInv == LeExact(v, w)
(* InRange / InWindow / Add / Size: agree everywhere *)
InRangeInv == InRangeEq(v, a, b)
InWindowInv == InWindowEq(v, a, b)
AddSizeInv == AddSizeEq(v, w)
(* Overlap: differs from "share a number" exactly on F2b.  Share quantifies over
   2^32 values; it is replaced by ShareW, justified by ShareLemmaInv: every k in
   both windows implies ShareW (k is a free variable), and ShareW exhibits a
   witness (a or x) by definition. *)
ShareLemmaInv == InBoth(k, a, b, x, y) => ShareW(a, b, x, y)
OverlapInv == OverlapExactW(a, b, x, y)
(* the simple agreement regions R2 (sizes only) and R1 (DESIGN A.4) lie outside F2b *)
RegionsInv == RegionsOK(a, b, x, y)
OverlapR2Inv == R2(b, y) => (OverlapImpl(a, b, x, y) <=> ShareW(a, b, x, y))
(* translation invariance of every definition and region: justifies the embedding sweep *)
ShiftInv == LET v2 == Add(v, t)  w2 == Add(w, t)  a2 == Add(a, t)  x2 == Add(x, t) IN
            /\ Dist(v2, w2) = Dist(v, w)
            /\ Precedes(v2, w2) <=> Precedes(v, w)
            /\ PrecedesEq(v2, w2) <=> PrecedesEq(v, w)
            /\ F2a(v2, w2) <=> F2a(v, w)
            /\ InRange(v2, a2, x2) <=> InRange(v, a, x)
            /\ InWindow(v2, a2, b) <=> InWindow(v, a, b)
            /\ ShareW(a2, b, x2, y) <=> ShareW(a, b, x, y)
            /\ F2b(a2, b, x2, y) <=> F2b(a, b, x, y)
(* one run for everything *)
AllInv == /\ LtInv /\ LeInv /\ InRangeInv /\ InWindowInv /\ AddSizeInv
          /\ ShareLemmaInv /\ OverlapInv /\ RegionsInv /\ OverlapR2Inv /\ ShiftInv
(* sensitivity self-tests: the literal statements WITHOUT the F2 regions are false
   at 2^32 and Apalache must say so (counterexamples are the F2 findings) *)
LtNaive == LessThanImpl(v, w) <=> Precedes(v, w)
OverlapNaive == OverlapImpl(a, b, x, y) <=> ShareW(a, b, x, y)
====
