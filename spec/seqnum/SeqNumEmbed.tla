---- MODULE SeqNumEmbed ----
(* E6 for C14: the embedding argument, decided by Apalache.
   For a small modulus 2^k the map e(n) = n * 2^(32-k), followed by any
   translation t, carries every definition and every F2 region of SeqNum at
   modulus 2^k to the same definition at modulus 2^32.  Hence the table of
   definition values that TLC computes exhaustively at modulus 2^k is a valid
   oracle for the real functions on the points e(n) + t (harness/seqnumd sweep).
     apalache-mc check --init=Init4 --length=0 --inv=Embed4 SeqNumEmbed.tla
     apalache-mc check --init=Init5 --length=0 --inv=Embed5 SeqNumEmbed.tla *)
EXTENDS Integers
VARIABLES
    \* @type: Int;
    v,
    \* @type: Int;
    w,
    \* @type: Int;
    a,
    \* @type: Int;
    b,
    \* @type: Int;
    x,
    \* @type: Int;
    y,
    \* @type: Int;
    t
L == INSTANCE SeqNum WITH M <- 4294967296
Next == UNCHANGED <<v, w, a, b, x, y, t>>

(* ---- modulus 16, scale 268435456 ---- *)
S4 == INSTANCE SeqNum WITH M <- 16
e4(n) == n * 268435456
Init4 == v \in S4!V /\ w \in S4!V /\ a \in S4!V /\ b \in S4!V /\ x \in S4!V /\ y \in S4!V /\ t \in L!V
Embed4 ==
    LET v2 == L!Add(e4(v), t)  w2 == L!Add(e4(w), t)  a2 == L!Add(e4(a), t)  x2 == L!Add(e4(x), t) IN
    /\ L!Dist(v2, w2) = e4(S4!Dist(v, w))
    /\ L!Precedes(v2, w2) <=> S4!Precedes(v, w)
    /\ L!PrecedesEq(v2, w2) <=> S4!PrecedesEq(v, w)
    /\ L!F2a(v2, w2) <=> S4!F2a(v, w)
    /\ L!InRange(v2, a2, x2) <=> S4!InRange(v, a, x)
    /\ L!InWindow(v2, a2, e4(b)) <=> S4!InWindow(v, a, b)
    /\ L!ShareW(a2, e4(b), x2, e4(y)) <=> S4!ShareW(a, b, x, y)
    /\ L!F2b(a2, e4(b), x2, e4(y)) <=> S4!F2b(a, b, x, y)
    /\ L!Add(v2, e4(b)) = L!Add(e4(S4!Add(v, b)), t)
    /\ L!Size(v2, w2) = e4(S4!Size(v, w))

(* ---- modulus 32, scale 134217728 ---- *)
S5 == INSTANCE SeqNum WITH M <- 32
e5(n) == n * 134217728
Init5 == v \in S5!V /\ w \in S5!V /\ a \in S5!V /\ b \in S5!V /\ x \in S5!V /\ y \in S5!V /\ t \in L!V
Embed5 ==
    LET v2 == L!Add(e5(v), t)  w2 == L!Add(e5(w), t)  a2 == L!Add(e5(a), t)  x2 == L!Add(e5(x), t) IN
    /\ L!Dist(v2, w2) = e5(S5!Dist(v, w))
    /\ L!Precedes(v2, w2) <=> S5!Precedes(v, w)
    /\ L!PrecedesEq(v2, w2) <=> S5!PrecedesEq(v, w)
    /\ L!F2a(v2, w2) <=> S5!F2a(v, w)
    /\ L!InRange(v2, a2, x2) <=> S5!InRange(v, a, x)
    /\ L!InWindow(v2, a2, e5(b)) <=> S5!InWindow(v, a, b)
    /\ L!ShareW(a2, e5(b), x2, e5(y)) <=> S5!ShareW(a, b, x, y)
    /\ L!F2b(a2, e5(b), x2, e5(y)) <=> S5!F2b(a, b, x, y)
    /\ L!Add(v2, e5(b)) = L!Add(e5(S5!Add(v, b)), t)
    /\ L!Size(v2, w2) = e5(S5!Size(v, w))
====
