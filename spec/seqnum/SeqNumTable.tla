---- MODULE SeqNumTable ----
(* Dumps the complete table of DEFINITION values (and F2 region flags) of SeqNum
   at the small modulus M to table.json, for the embedding sweep of
   harness/seqnumd: index i stands for the number i-1.
   lt, le, ov entries: bit 0 = value of the definition, bit 1 = operand tuple in the
   F2 region of that function.  inr, inw: 0/1.  add, size: numbers. *)
EXTENDS SeqNum, TLC, Json
VARIABLE z
I == 1 .. M
(* every window as a set, computed once (constant-level definition); the windows [a, a+b) and [x, x+y)
   share a number iff their intersection is non-empty: ShareSet, tied to the \E k form by MCSeqNum!QuadsLit *)
Win == [p \in V |-> [s \in V |-> Window(p, s)]]
Shares(a, b, x, y) == (Win[a][b] \cap Win[x][y]) # {}
Bit(p) == IF p THEN 1 ELSE 0
Table ==
  [ m    |-> M,
    lt   |-> [v \in I |-> [w \in I |-> Bit(Precedes(v - 1, w - 1)) + 2 * Bit(F2a(v - 1, w - 1))]],
    le   |-> [v \in I |-> [w \in I |-> Bit(PrecedesEq(v - 1, w - 1)) + 2 * Bit(F2a(v - 1, w - 1))]],
    inr  |-> [v \in I |-> [a \in I |-> [b \in I |-> Bit(InRange(v - 1, a - 1, b - 1))]]],
    inw  |-> [v \in I |-> [f \in I |-> [s \in I |-> Bit(InWindow(v - 1, f - 1, s - 1))]]],
    add  |-> [v \in I |-> [s \in I |-> Add(v - 1, s - 1)]],
    size |-> [v \in I |-> [w \in I |-> Size(v - 1, w - 1)]],
    ov   |-> [a \in I |-> [b \in I |-> [x \in I |-> [y \in I |->
                Bit(Shares(a - 1, b - 1, x - 1, y - 1)) + 2 * Bit(F2b(a - 1, b - 1, x - 1, y - 1))]]]] ]
ASSUME \A a, b, x, y \in {0, 1, H - 1, H, M - 1} : Shares(a, b, x, y) <=> Share(a, b, x, y)
Init == z = 0 /\ JsonSerialize("table.json", Table)
Next == UNCHANGED z
Spec == Init /\ [][Next]_z
====
