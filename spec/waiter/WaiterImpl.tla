---- MODULE WaiterImpl ----
(* I-spec: waiter.Queue as implemented - an intrusive doubly linked list
   (pkg/ilist: head, tail, per element next/prev) of entries carrying a mask
   field; Notify walks the list from head along next.  PushBack and Remove are
   transcribed statement by statement from pkg/ilist/list.go (Remove leaves the
   removed element's own next/prev untouched: stale pointers are part of the
   state).  The I-actions keep their own observations (icalls, itoken); the
   closed model MCWaiter runs them in lockstep with the P-spec actions and
   checks "list well-formed and equals reg" and equal observations. *)
EXTENDS Waiter
VARIABLES head, tail, next, prev, emask, icalls, itoken
ivars == <<head, tail, next, prev, emask, icalls, itoken>>
Nil == "nil"

IInit == /\ head = Nil /\ tail = Nil
         /\ next = [e \in Entries |-> Nil]
         /\ prev = [e \in Entries |-> Nil]
         /\ emask = [e \in Entries |-> {}]
         /\ icalls = [e \in CbEntries |-> 0]
         /\ itoken = [c \in Chans |-> 0]

(* func (l *List) PushBack(e Element) {
       e.SetNext(nil)
       e.SetPrev(l.tail)
       if l.tail != nil { l.tail.SetNext(e) } else { l.head = e }
       l.tail = e } *)
PushBack(e) ==
   LET n1 == [next EXCEPT ![e] = Nil]
       p1 == [prev EXCEPT ![e] = tail]
   IN /\ prev' = p1
      /\ IF tail # Nil THEN next' = [n1 EXCEPT ![tail] = e] /\ head' = head
                       ELSE next' = n1 /\ head' = e
      /\ tail' = e

(* func (l *List) Remove(e Element) {
       prev := e.Prev(); next := e.Next()
       if prev != nil { prev.SetNext(next) } else { l.head = next }
       if next != nil { next.SetPrev(prev) } else { l.tail = prev } } *)
Remove(e) ==
   LET p == prev[e]
       n == next[e]
   IN /\ IF p # Nil THEN next' = [next EXCEPT ![p] = n] /\ head' = head
                    ELSE next' = next /\ head' = n
      /\ IF n # Nil THEN prev' = [prev EXCEPT ![n] = p] /\ tail' = tail
                    ELSE prev' = prev /\ tail' = p

\* the walk `for it := l.Front(); it != nil; it = it.Next()`, cut after k elements so that
\* it is defined on a malformed (cyclic) list as well
RECURSIVE WalkFrom(_, _)
WalkFrom(x, k) == IF x = Nil \/ k = 0 THEN <<>> ELSE <<x>> \o WalkFrom(next[x], k - 1)
IList == WalkFrom(head, Cardinality(Entries) + 1)

\* EventRegister: q.mu.Lock(); e.mask = mask; q.list.PushBack(e); q.mu.Unlock()
IRegister(e, m) == /\ emask' = [emask EXCEPT ![e] = m]
                   /\ PushBack(e)
                   /\ UNCHANGED <<icalls, itoken>>
\* EventUnregister: q.mu.Lock(); q.list.Remove(e); q.mu.Unlock()
IUnregister(e) == Remove(e) /\ UNCHANGED <<emask, icalls, itoken>>
\* Notify: under RLock, for each element of the walk: if mask&e.mask != 0 { e.Callback.Callback(e) }
\* callback entry: the harness callback counts; channel entry: non-blocking send on a 1-buffered channel
Times(e, m) == Cardinality({i \in DOMAIN IList : IList[i] = e /\ emask[e] \cap m # {}})
INotify(m) == /\ icalls' = [e \in CbEntries |-> icalls[e] + Times(e, m)]
              /\ itoken' = [c \in Chans |-> IF \E e \in ChEntries : chanOf[e] = c /\ Times(e, m) > 0 THEN 1 ELSE itoken[c]]
              /\ UNCHANGED <<head, tail, next, prev, emask>>
\* NewChannelEntry(ch): a fresh Entry value (next = prev = nil, mask 0) replaces the unregistered e
INewEntry(e) == /\ next' = [next EXCEPT ![e] = Nil]
                /\ prev' = [prev EXCEPT ![e] = Nil]
                /\ emask' = [emask EXCEPT ![e] = {}]
                /\ UNCHANGED <<head, tail, icalls, itoken>>
\* non-blocking receive
ITake(c, ok) == /\ ok = (itoken[c] = 1)
                /\ itoken' = [itoken EXCEPT ![c] = 0]
                /\ UNCHANGED <<head, tail, next, prev, emask, icalls>>

\* ---- invariants: the list is well-formed and equals reg
RegEntries == [i \in DOMAIN reg |-> reg[i].e]
ListOK ==
   /\ IList = RegEntries
   /\ (head = Nil) = (reg = <<>>)
   /\ (tail = Nil) = (reg = <<>>)
   /\ reg # <<>> => /\ head = reg[1].e /\ tail = reg[Len(reg)].e
                    /\ prev[head] = Nil /\ next[tail] = Nil
   /\ \A i \in DOMAIN reg : /\ emask[reg[i].e] = reg[i].m
                            /\ i > 1 => prev[reg[i].e] = reg[i - 1].e
                            /\ i < Len(reg) => next[reg[i].e] = reg[i + 1].e
Refines == icalls = calls /\ itoken = token
ITypeOK == /\ head \in Entries \cup {Nil} /\ tail \in Entries \cup {Nil}
           /\ next \in [Entries -> Entries \cup {Nil}]
           /\ prev \in [Entries -> Entries \cup {Nil}]
====
