---- MODULE MCWaiter ----
(* Closed model for C17: every sequence of at most MaxOps operations
   register / unregister / notify / take over the entries CbEntries \cup
   ChEntries and all masks over Events, contract-respecting (no double
   register, no unregister of an unregistered entry).  Each step runs the
   P-spec action and the I-spec action with the same arguments; the
   invariants say that the linked list is well-formed and equals reg and that
   both layers make the same observations.  The edge labels of the state graph
   (action + arguments) drive the replay on the real waiter.Queue. *)
EXTENDS WaiterImpl
CONSTANTS Events, MaxOps
VARIABLES steps
vars == <<reg, token, calls, head, tail, next, prev, emask, icalls, itoken, steps>>
Masks == SUBSET Events

MCInit == PInit /\ IInit /\ steps = 0
Tick == steps < MaxOps /\ steps' = steps + 1

DoRegister(e, m) == Tick /\ Register(e, m) /\ IRegister(e, m)
DoUnregister(e)  == Tick /\ Unregister(e) /\ IUnregister(e)
DoNotify(m)      == Tick /\ Notify(m) /\ INotify(m)
DoTake(e, ok)    == Tick /\ Take(e, ok) /\ ITake(e, ok)

MCNext == \/ \E e \in Entries, m \in Masks : DoRegister(e, m)
          \/ \E e \in Entries : DoUnregister(e)
          \/ \E m \in Masks : DoNotify(m)
          \/ \E e \in ChEntries, ok \in BOOLEAN : DoTake(e, ok)
MCSpec == MCInit /\ [][MCNext]_vars

TypeOK == PTypeOK /\ ITypeOK /\ steps \in 0..MaxOps

\* ---- the property, restated over steps of the closed model (sanity of the P-spec itself)
Others(s, e) == SelectSeq(s, LAMBDA r : r.e # e)
\* registering / unregistering e changes only e's membership
MembershipFrame == [][\A e \in Entries :
                        ((\E m \in Masks : DoRegister(e, m)) \/ DoUnregister(e)) =>
                           /\ Others(reg', e) = Others(reg, e)
                           /\ IsReg(e) # (\E i \in DOMAIN reg' : reg'[i].e = e)]_vars
\* a notification calls back exactly the registered entries with an intersecting mask, once
NotifyExact == [][\A m \in Masks : DoNotify(m) =>
                     /\ \A e \in CbEntries : calls'[e] - calls[e] =
                              (IF IsReg(e) /\ MaskOf(e) \cap m # {} THEN 1 ELSE 0)
                     /\ \A e \in ChEntries : token'[e] =
                              (IF IsReg(e) /\ MaskOf(e) \cap m # {} THEN 1 ELSE token[e])]_vars
\* a token is never lost: it disappears only by a successful take
TokenSticky == [][\A e \in ChEntries : (token[e] = 1 /\ token'[e] = 0) => DoTake(e, TRUE)]_vars
\* nothing but a notification calls back
OnlyNotifyCalls == [][(calls' # calls \/ \E e \in ChEntries : token'[e] > token[e]) =>
                         \E m \in Masks : DoNotify(m)]_vars
====
