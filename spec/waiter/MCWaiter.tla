---- MODULE MCWaiter ----
(* Closed model for C17: every sequence of at most MaxOps operations
   register / unregister / notify / take over the entries CbEntries \cup
   ChEntries and all masks over Events, contract-respecting (no double
   register, no unregister of an unregistered entry).  Each step runs the
   P-spec action and the I-spec action with the same arguments; the
   invariants say that the linked list is well-formed and equals reg and that
   both layers make the same observations.  The edge labels of the state graph
   (action + arguments) drive the replay on the real waiter.Queue. *)
EXTENDS WaiterImpl
CONSTANTS Events, MaxOps
VARIABLES steps
vars == <<reg, token, calls, chanOf, head, tail, next, prev, emask, icalls, itoken, steps>>
Masks == SUBSET Events

MCInit == PInit /\ IInit /\ steps = 0
Tick == steps < MaxOps /\ steps' = steps + 1

DoRegister(e, m) == Tick /\ Register(e, m) /\ IRegister(e, m)
DoUnregister(e)  == Tick /\ Unregister(e) /\ IUnregister(e)
DoNotify(m)      == Tick /\ Notify(m) /\ INotify(m)
DoTake(c, ok)    == Tick /\ Take(c, ok) /\ ITake(c, ok)
DoNewEntry(e, c) == Tick /\ NewEntry(e, c) /\ INewEntry(e)

MCNext == \/ \E e \in Entries, m \in Masks : DoRegister(e, m)
          \/ \E e \in Entries : DoUnregister(e)
          \/ \E m \in Masks : DoNotify(m)
          \/ \E c \in Chans, ok \in BOOLEAN : DoTake(c, ok)
          \/ \E e \in ChEntries, c \in Chans : DoNewEntry(e, c)
MCSpec == MCInit /\ [][MCNext]_vars

TypeOK == PTypeOK /\ ITypeOK /\ steps \in 0..MaxOps

\* ---- the property, restated over steps of the closed model (sanity of the P-spec itself)
Others(s, e) == SelectSeq(s, LAMBDA r : r.e # e)
\* registering / unregistering e changes only e's membership
MembershipFrame == [][\A e \in Entries :
                        ((\E m \in Masks : DoRegister(e, m)) \/ DoUnregister(e)) =>
                           /\ Others(reg', e) = Others(reg, e)
                           /\ IsReg(e) # (\E i \in DOMAIN reg' : reg'[i].e = e)]_vars
\* a notification calls back exactly the registered entries with an intersecting mask, once
NotifyExact == [][\A m \in Masks : DoNotify(m) =>
                     /\ \A e \in CbEntries : calls'[e] - calls[e] =
                              (IF IsReg(e) /\ MaskOf(e) \cap m # {} THEN 1 ELSE 0)
                     /\ \A c \in Chans : token'[c] =
                              (IF \E e \in ChEntries : chanOf[e] = c /\ IsReg(e) /\ MaskOf(e) \cap m # {} THEN 1 ELSE token[c])]_vars
\* a token is never lost: it disappears only by a successful take
TokenSticky == [][\A c \in Chans : (token[c] = 1 /\ token'[c] = 0) => DoTake(c, TRUE)]_vars
\* nothing but a notification calls back
OnlyNotifyCalls == [][(calls' # calls \/ \E c \in Chans : token'[c] > token[c]) =>
                         \E m \in Masks : DoNotify(m)]_vars
====
