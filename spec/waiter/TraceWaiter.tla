---- MODULE TraceWaiter ----
(* Trace validation for C17 against the P-spec Waiter (only its actions
   Register / Unregister / Hit / Deliver / Take are used).

   Events (one ndjson line each, written through one mutex-serialised log):
     reset                          start of an independent history
     call (g, op, e, m)             goroutine g is about to invoke op in
                                    {"register","unregister","notify","take"}
                                    (take: e names the channel = the entry that allocated it)
     ret  (g [, ok])                the operation returned (take: ok = a token was received)
     new  (g, e, c)                 g re-created its unregistered channel entry e on existing channel c
     cb   (g, e)                    logged from inside the callback of callback entry e,
                                    g = the goroutine running it (the notifier)
     obs  (calls, tokens)           quiescent observation: cumulative callback counts and
                                    len(channel) per channel (no operation in flight)

   Sequential histories are the special case of one goroutine.  For concurrent
   histories TLC places, for every call, an internal Lin(g) step between call
   and ret.  A Notify is Lin (fixes the set of entries owed a callback = the
   entries registered AT THAT MOMENT with intersecting mask) followed by one
   delivery per owed entry before its ret: a logged cb for callback entries, an
   internal Fire for channel entries (the token becomes visible to concurrent
   takes only when the send really happened).  Constraints:
     * every cb(e) is owed by the Notify of the goroutine that ran it (so it is
       linearized while e is registered with an intersecting mask), and each
       such Notify delivers exactly once per owed entry (owed = {} at ret);
     * AfterUnregister: no delivery for e after ret(Unregister(e)) unless a
       later Register(e) call precedes it (unregd[e]);
     * tokens: a take succeeds iff a token is there; it stays until taken. *)
EXTENDS Waiter, TraceIO
VARIABLES pend, owed, unregd
G == 0..7
None == [op |-> "none"]
tvars == <<reg, token, calls, chanOf, l, pend, owed, unregd>>

Quiet == \A g \in G : pend[g] = None

TInit == /\ PInit /\ l = 1 /\ HWInit
         /\ pend = [g \in G |-> None]
         /\ owed = [g \in G |-> {}]
         /\ unregd = [e \in Entries |-> FALSE]

Reset == /\ IsEvent("reset")
         /\ Quiet
         /\ reg' = <<>>
         /\ token' = [c \in Chans |-> 0]
         /\ calls' = [e \in CbEntries |-> 0]
         /\ chanOf' = [e \in ChEntries |-> e]
         /\ owed' = [g \in G |-> {}]
         /\ unregd' = [e \in Entries |-> FALSE]
         /\ UNCHANGED pend

Call == /\ IsEvent("call")
        /\ Ev.g \in G /\ pend[Ev.g] = None
        /\ Ev.op \in {"register", "unregister", "notify", "take"}
        /\ (Ev.op # "notify") => Ev.e \in Entries
        /\ pend' = [pend EXCEPT ![Ev.g] = [op |-> Ev.op,
                                           e |-> IF Ev.op = "notify" THEN "" ELSE Ev.e,
                                           m |-> IF Ev.op \in {"register", "notify"} THEN SeqToSet(Ev.m) ELSE {},
                                           done |-> FALSE, ok |-> TRUE]]
        /\ unregd' = IF Ev.op = "register" THEN [unregd EXCEPT ![Ev.e] = FALSE] ELSE unregd
        /\ UNCHANGED <<reg, token, calls, chanOf, owed>>

\* new (g, e, c): goroutine g (idle, owner of the unregistered channel entry e) re-created e on
\* the existing channel c with NewChannelEntry(ch)
New == /\ IsEvent("new")
       /\ Ev.g \in G /\ pend[Ev.g] = None
       /\ NewEntry(Ev.e, Ev.c)
       /\ UNCHANGED <<pend, owed, unregd>>

Lin(g) == /\ pend[g] # None /\ ~pend[g].done
          /\ LET c == pend[g] IN
             \E ok \in BOOLEAN :
               /\ CASE c.op = "register"   -> Register(c.e, c.m) /\ ok = TRUE /\ UNCHANGED owed
                    [] c.op = "unregister" -> Unregister(c.e) /\ ok = TRUE /\ UNCHANGED owed
                    [] c.op = "notify"     -> /\ owed' = [owed EXCEPT ![g] = Hit(c.m)]
                                              /\ ok = TRUE /\ UNCHANGED <<reg, token, calls, chanOf>>
                    [] c.op = "take"       -> Take(c.e, ok) /\ UNCHANGED owed
               /\ pend' = [pend EXCEPT ![g].done = TRUE, ![g].ok = ok]
          /\ UNCHANGED <<l, unregd>>

\* the channel send of a linearized Notify (unlogged)
Fire(g, e) == /\ e \in ChEntries /\ e \in owed[g]
              /\ ~unregd[e]
              /\ Deliver({e}) /\ UNCHANGED reg
              /\ owed' = [owed EXCEPT ![g] = @ \ {e}]
              /\ UNCHANGED <<l, pend, unregd>>

Cb == /\ IsEvent("cb")
      /\ Ev.g \in G /\ Ev.e \in CbEntries
      /\ pend[Ev.g] # None /\ pend[Ev.g].op = "notify" /\ pend[Ev.g].done
      /\ Ev.e \in owed[Ev.g]
      /\ ~unregd[Ev.e]
      /\ Deliver({Ev.e}) /\ UNCHANGED reg
      /\ owed' = [owed EXCEPT ![Ev.g] = @ \ {Ev.e}]
      /\ UNCHANGED <<pend, unregd>>

Ret == /\ IsEvent("ret")
       /\ Ev.g \in G /\ pend[Ev.g] # None /\ pend[Ev.g].done
       /\ owed[Ev.g] = {}
       /\ (pend[Ev.g].op = "take") => (Has(Ev, "ok") /\ Ev.ok = pend[Ev.g].ok)
       /\ unregd' = IF pend[Ev.g].op = "unregister" THEN [unregd EXCEPT ![pend[Ev.g].e] = TRUE] ELSE unregd
       /\ pend' = [pend EXCEPT ![Ev.g] = None]
       /\ UNCHANGED <<reg, token, calls, chanOf, owed>>

Obs == /\ IsEvent("obs")
       /\ Quiet
       /\ Has(Ev, "calls")  => \A e \in DOMAIN Ev.calls  : e \in CbEntries /\ calls[e] = Ev.calls[e]
       /\ Has(Ev, "tokens") => \A c \in DOMAIN Ev.tokens : c \in Chans /\ token[c] = Ev.tokens[c]
       /\ UNCHANGED <<reg, token, calls, chanOf, pend, owed, unregd>>

TNext == \/ Reset \/ Call \/ Ret \/ Cb \/ Obs \/ New
         \/ \E g \in G : Lin(g)
         \/ \E g \in G, e \in ChEntries : Fire(g, e)
TSpec == TInit /\ [][TNext]_tvars
====
