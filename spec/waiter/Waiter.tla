---- MODULE Waiter ----
(* P-spec of the wait queue (property C17): exactly what the property says.
   State
     reg    the registered entries with their masks, in registration order
            (no P-level observation depends on the order; it is kept so the
            implementation-shaped list of WaiterImpl can be compared with it)
     chanOf per channel-backed entry: the channel it sends to.  Channels are named after
            the entry that allocated them (NewChannelEntry(nil)); an unregistered entry may
            be re-created at any time on ANY existing channel (NewChannelEntry(ch)), so
            several entries can share one channel
     token  per channel: 1 iff the channel holds a token
     calls  per callback entry: number of callback invocations so far
   Entries are strings, masks are sets of event names ("in", "out", ...).
   Contract (callers' obligation, therefore guards, not behaviour): an entry is
   registered only while unregistered and unregistered only while registered. *)
EXTENDS Integers, Sequences, FiniteSets, TLC
CONSTANTS CbEntries, ChEntries
VARIABLES reg, token, calls, chanOf
pvars == <<reg, token, calls, chanOf>>
Chans == ChEntries
Entries == CbEntries \cup ChEntries

IsReg(e)   == \E i \in DOMAIN reg : reg[i].e = e
RegSet     == {reg[i].e : i \in DOMAIN reg}
MaskOf(e)  == (CHOOSE r \in {reg[i] : i \in DOMAIN reg} : r.e = e).m
\* the entries registered now whose mask intersects m
Hit(m)     == {reg[i].e : i \in {j \in DOMAIN reg : reg[j].m \cap m # {}}}

PInit == /\ reg = <<>>
         /\ token = [c \in Chans |-> 0]
         /\ calls = [e \in CbEntries |-> 0]
         /\ chanOf = [e \in ChEntries |-> e]

\* only e's membership changes: the others are neither lost nor duplicated
Register(e, m) == /\ ~IsReg(e)
                  /\ reg' = Append(reg, [e |-> e, m |-> m])
                  /\ UNCHANGED <<token, calls, chanOf>>
Unregister(e)  == /\ IsReg(e)
                  /\ reg' = SelectSeq(reg, LAMBDA r : r.e # e)
                  /\ UNCHANGED <<token, calls, chanOf>>

\* NewChannelEntry(ch) on an existing channel: e now sends to c.  Creating an entry is not a
\* receive: a token already in the channel (a notification nobody has taken yet) stays there.
NewEntry(e, c) == /\ e \in ChEntries /\ c \in Chans /\ ~IsReg(e)
                  /\ chanOf' = [chanOf EXCEPT ![e] = c]
                  /\ UNCHANGED <<reg, token, calls>>

\* every entry of S gets exactly one callback: a callback entry counts it, a
\* channel entry holds a token afterwards (it stays 1 until taken)
Deliver(S) == /\ calls' = [e \in CbEntries |-> calls[e] + (IF e \in S THEN 1 ELSE 0)]
              /\ token' = [c \in Chans |-> IF \E e \in S \cap ChEntries : chanOf[e] = c THEN 1 ELSE token[c]]
              /\ UNCHANGED chanOf

\* exactly the entries registered at this moment with an intersecting mask
Notify(m) == Deliver(Hit(m)) /\ UNCHANGED reg

\* the waiter's non-blocking receive: succeeds iff a token is there, consumes it
Take(c, ok) == /\ c \in Chans
               /\ ok = (token[c] = 1)
               /\ token' = [token EXCEPT ![c] = 0]
               /\ UNCHANGED <<reg, calls, chanOf>>

NoDup == \A i, j \in DOMAIN reg : reg[i].e = reg[j].e => i = j
PTypeOK == /\ \A i \in DOMAIN reg : reg[i].e \in Entries
           /\ token \in [Chans -> {0, 1}]
           /\ chanOf \in [ChEntries -> Chans]
           /\ calls \in [CbEntries -> Nat]
           /\ NoDup
====
