---- MODULE Waiter ----
(* P-spec of the wait queue (property C17): exactly what the property says.
   State
     reg    the registered entries with their masks, in registration order
            (no P-level observation depends on the order; it is kept so the
            implementation-shaped list of WaiterImpl can be compared with it)
     token  per channel-backed entry: 1 iff the channel holds a token
     calls  per callback entry: number of callback invocations so far
   Entries are strings, masks are sets of event names ("in", "out", ...).
   Contract (callers' obligation, therefore guards, not behaviour): an entry is
   registered only while unregistered and unregistered only while registered. *)
EXTENDS Integers, Sequences, FiniteSets, TLC
CONSTANTS CbEntries, ChEntries
VARIABLES reg, token, calls
pvars == <<reg, token, calls>>
Entries == CbEntries \cup ChEntries

IsReg(e)   == \E i \in DOMAIN reg : reg[i].e = e
RegSet     == {reg[i].e : i \in DOMAIN reg}
MaskOf(e)  == (CHOOSE r \in {reg[i] : i \in DOMAIN reg} : r.e = e).m
\* the entries registered now whose mask intersects m
Hit(m)     == {reg[i].e : i \in {j \in DOMAIN reg : reg[j].m \cap m # {}}}

PInit == /\ reg = <<>>
         /\ token = [e \in ChEntries |-> 0]
         /\ calls = [e \in CbEntries |-> 0]

\* only e's membership changes: the others are neither lost nor duplicated
Register(e, m) == /\ ~IsReg(e)
                  /\ reg' = Append(reg, [e |-> e, m |-> m])
                  /\ UNCHANGED <<token, calls>>
Unregister(e)  == /\ IsReg(e)
                  /\ reg' = SelectSeq(reg, LAMBDA r : r.e # e)
                  /\ UNCHANGED <<token, calls>>

\* every entry of S gets exactly one callback: a callback entry counts it, a
\* channel entry holds a token afterwards (it stays 1 until taken)
Deliver(S) == /\ calls' = [e \in CbEntries |-> calls[e] + (IF e \in S THEN 1 ELSE 0)]
              /\ token' = [e \in ChEntries |-> IF e \in S THEN 1 ELSE token[e]]

\* exactly the entries registered at this moment with an intersecting mask
Notify(m) == Deliver(Hit(m)) /\ UNCHANGED reg

\* the waiter's non-blocking receive: succeeds iff a token is there, consumes it
Take(e, ok) == /\ e \in ChEntries
               /\ ok = (token[e] = 1)
               /\ token' = [token EXCEPT ![e] = 0]
               /\ UNCHANGED <<reg, calls>>

NoDup == \A i, j \in DOMAIN reg : reg[i].e = reg[j].e => i = j
PTypeOK == /\ \A i \in DOMAIN reg : reg[i].e \in Entries
           /\ token \in [ChEntries -> {0, 1}]
           /\ calls \in [CbEntries -> Nat]
           /\ NoDup
====
