---- MODULE TcpClose ----
(* Closed model of the closing exchange of one TCP connection as THIS stack
   does it (gVisor-shaped): no TIME-WAIT state - the protocol goroutine of an
   endpoint exits as soon as the peer's FIN was received, its own FIN was sent
   and everything is acknowledged; an endpoint whose application has Close()d
   it is then forgotten (unregistered), and segments that arrive for a
   forgotten connection are answered with a RST; segments that arrive for an
   endpoint whose goroutine has exited but which is still open are ignored.
   Data are units; each side writes up to W units, shuts down, reads lazily,
   and may Close() after it has seen the end of stream (orderly close).
   The network is a bag per direction; it loses at most MaxDrop segments;
   each endpoint retransmits its earliest unacknowledged segment at most
   MaxRetx times and then gives up with an explicit error.
   RstClosesInLastAck selects the behaviour after fix F26 (RFC 793 p.70:
   a reset received after the peer's FIN was received and the own FIN was
   sent closes the connection quietly); FALSE = the pinned tree.
   Checked: EosOK, OrderlyCloseSeesEos (C02 first sentence), and under weak
   fairness that every reader gets EOS or an explicit error. *)
EXTENDS Integers, FiniteSets, TLC
CONSTANTS W, MaxDrop, MaxRetx, RstClosesInLastAck
E == {"a", "b"}
P(e) == IF e = "a" THEN "b" ELSE "a"
VARIABLES app, left, written, sndNxt, sndUna, rcvNxt, finAt, delivered, eos, rerr, worker, reg, errst, gaveUp, retx, net, drops
vars == <<app, left, written, sndNxt, sndUna, rcvNxt, finAt, delivered, eos, rerr, worker, reg, errst, gaveUp, retx, net, drops>>
\* a segment: [k |-> "seg", seq, fin, ack] (data unit or FIN at seq, cumulative ack) / [k |-> "ack", ack] / [k |-> "rst"]
Limit(e) == written[e] + (IF app[e] # "w" THEN 1 ELSE 0)          \* the FIN occupies sequence number written[e]
Init == /\ app = [e \in E |-> "w"] /\ left = [e \in E |-> W] /\ written = [e \in E |-> 0]
        /\ sndNxt = [e \in E |-> 0] /\ sndUna = [e \in E |-> 0] /\ rcvNxt = [e \in E |-> 0] /\ finAt = [e \in E |-> -1]
        /\ delivered = [e \in E |-> 0] /\ eos = [e \in E |-> FALSE] /\ rerr = [e \in E |-> FALSE]
        /\ worker = [e \in E |-> "run"] /\ reg = [e \in E |-> TRUE] /\ errst = [e \in E |-> FALSE] /\ gaveUp = [e \in E |-> FALSE]
        /\ retx = [e \in E |-> 0] /\ net = [e \in E |-> {}] /\ drops = 0
Put(to, m) == net' = [net EXCEPT ![to] = @ \cup {m}]
\* ---------------------------------------------------------------- applications
AppWrite(e) == /\ app[e] = "w" /\ left[e] > 0 /\ ~errst[e]
               /\ written' = [written EXCEPT ![e] = @ + 1] /\ left' = [left EXCEPT ![e] = @ - 1]
               /\ UNCHANGED <<app, sndNxt, sndUna, rcvNxt, finAt, delivered, eos, rerr, worker, reg, errst, gaveUp, retx, net, drops>>
AppShut(e) == /\ app[e] = "w" /\ app' = [app EXCEPT ![e] = "shut"]
              /\ UNCHANGED <<left, written, sndNxt, sndUna, rcvNxt, finAt, delivered, eos, rerr, worker, reg, errst, gaveUp, retx, net, drops>>
DataRcvd(e) == IF finAt[e] >= 0 THEN finAt[e] ELSE rcvNxt[e]
AppRead(e) == /\ ~eos[e] /\ ~rerr[e] /\ delivered[e] < DataRcvd(e)
              /\ delivered' = [delivered EXCEPT ![e] = @ + 1]
              /\ UNCHANGED <<app, left, written, sndNxt, sndUna, rcvNxt, finAt, eos, rerr, worker, reg, errst, gaveUp, retx, net, drops>>
\* Read on an empty queue: the error state wins over "closed for receive"
AppEos(e) == /\ ~eos[e] /\ ~rerr[e] /\ delivered[e] = DataRcvd(e) /\ finAt[e] >= 0 /\ ~errst[e]
             /\ eos' = [eos EXCEPT ![e] = TRUE]
             /\ UNCHANGED <<app, left, written, sndNxt, sndUna, rcvNxt, finAt, delivered, rerr, worker, reg, errst, gaveUp, retx, net, drops>>
AppErr(e) == /\ ~eos[e] /\ ~rerr[e] /\ delivered[e] = DataRcvd(e) /\ errst[e]
             /\ rerr' = [rerr EXCEPT ![e] = TRUE]
             /\ UNCHANGED <<app, left, written, sndNxt, sndUna, rcvNxt, finAt, delivered, eos, worker, reg, errst, gaveUp, retx, net, drops>>
\* orderly Close(): only after the own shutdown and after the end of stream (or an error) was read
AppClose(e) == /\ app[e] = "shut" /\ (eos[e] \/ rerr[e])
               /\ app' = [app EXCEPT ![e] = "closed"]
               /\ reg' = [reg EXCEPT ![e] = IF worker[e] = "exit" THEN FALSE ELSE @]
               /\ UNCHANGED <<left, written, sndNxt, sndUna, rcvNxt, finAt, delivered, eos, rerr, worker, errst, gaveUp, retx, net, drops>>
\* ---------------------------------------------------------------- protocol goroutine
Seg(e, s) == [k |-> "seg", seq |-> s, fin |-> (app[e] # "w" /\ s = written[e]), ack |-> rcvNxt[e]]
Send(e) == /\ worker[e] = "run" /\ sndNxt[e] < Limit(e)
           /\ Put(P(e), Seg(e, sndNxt[e])) /\ sndNxt' = [sndNxt EXCEPT ![e] = @ + 1]
           /\ UNCHANGED <<app, left, written, sndUna, rcvNxt, finAt, delivered, eos, rerr, worker, reg, errst, gaveUp, retx, drops>>
\* a timeout: neither the earliest unacknowledged segment nor an acknowledgement of it is in flight any more
\* (the model's timer never fires spuriously: real timeouts are long compared with the delivery of a segment)
TimedOut(e) == /\ \A m \in net[P(e)] : IF m.k = "seg" THEN m.seq # sndUna[e] ELSE TRUE
               /\ \A m \in net[e] : IF m.k = "rst" THEN TRUE ELSE m.ack <= sndUna[e]
Retx(e) == /\ worker[e] = "run" /\ sndUna[e] < sndNxt[e] /\ retx[e] < MaxRetx
           /\ TimedOut(e)
           /\ Put(P(e), Seg(e, sndUna[e])) /\ retx' = [retx EXCEPT ![e] = @ + 1]
           /\ UNCHANGED <<app, left, written, sndNxt, sndUna, rcvNxt, finAt, delivered, eos, rerr, worker, reg, errst, gaveUp, drops>>
GiveUp(e) == /\ worker[e] = "run" /\ sndUna[e] < sndNxt[e] /\ retx[e] = MaxRetx /\ TimedOut(e)
             /\ errst' = [errst EXCEPT ![e] = TRUE] /\ gaveUp' = [gaveUp EXCEPT ![e] = TRUE]
             /\ worker' = [worker EXCEPT ![e] = "exit"] /\ reg' = [reg EXCEPT ![e] = IF app[e] = "closed" THEN FALSE ELSE @]
             /\ UNCHANGED <<app, left, written, sndNxt, sndUna, rcvNxt, finAt, delivered, eos, rerr, retx, net, drops>>
Done(e) == finAt[e] >= 0 /\ app[e] # "w" /\ sndUna[e] = Limit(e)
WorkerExit(e) == /\ worker[e] = "run" /\ Done(e)
                 /\ worker' = [worker EXCEPT ![e] = "exit"] /\ reg' = [reg EXCEPT ![e] = IF app[e] = "closed" THEN FALSE ELSE @]
                 /\ UNCHANGED <<app, left, written, sndNxt, sndUna, rcvNxt, finAt, delivered, eos, rerr, errst, gaveUp, retx, net, drops>>
\* ---------------------------------------------------------------- arrival of m at r
Max2(x, y) == IF x > y THEN x ELSE y
Arrive(r, m) ==
  /\ m \in net[r]
  /\ LET rest == [net EXCEPT ![r] = @ \ {m}] IN
     IF ~reg[r]                                                       \* forgotten connection: reset, unless it is a reset
     THEN /\ net' = IF m.k = "rst" THEN rest ELSE [rest EXCEPT ![P(r)] = @ \cup {[k |-> "rst"]}]
          /\ UNCHANGED <<app, left, written, sndNxt, sndUna, rcvNxt, finAt, delivered, eos, rerr, worker, reg, errst, gaveUp, retx, drops>>
     ELSE IF worker[r] = "exit"                                       \* goroutine gone, endpoint still open: ignored
     THEN /\ net' = rest
          /\ UNCHANGED <<app, left, written, sndNxt, sndUna, rcvNxt, finAt, delivered, eos, rerr, worker, reg, errst, gaveUp, retx, drops>>
     ELSE IF m.k = "rst"
     THEN /\ net' = rest
          /\ LET closing == finAt[r] >= 0 /\ app[r] # "w" /\ sndNxt[r] = Limit(r) IN     \* CLOSING / LAST-ACK
             /\ errst' = [errst EXCEPT ![r] = IF RstClosesInLastAck /\ closing THEN @ ELSE TRUE]
          /\ worker' = [worker EXCEPT ![r] = "exit"] /\ reg' = [reg EXCEPT ![r] = IF app[r] = "closed" THEN FALSE ELSE @]
          /\ UNCHANGED <<app, left, written, sndNxt, sndUna, rcvNxt, finAt, delivered, eos, rerr, gaveUp, retx, drops>>
     ELSE /\ sndUna' = [sndUna EXCEPT ![r] = IF m.ack <= sndNxt[r] THEN Max2(@, m.ack) ELSE @]
          /\ retx' = [retx EXCEPT ![r] = IF m.ack <= sndNxt[r] /\ m.ack > sndUna[r] THEN 0 ELSE @]
          /\ IF m.k = "seg"
             THEN /\ rcvNxt' = [rcvNxt EXCEPT ![r] = IF m.seq = @ /\ finAt[r] < 0 THEN @ + 1 ELSE @]
                  /\ finAt' = [finAt EXCEPT ![r] = IF m.seq = rcvNxt[r] /\ m.fin /\ @ < 0 THEN m.seq ELSE @]
                  /\ net' = [rest EXCEPT ![P(r)] = @ \cup {[k |-> "ack", ack |-> rcvNxt'[r]]}]      \* every segment is acknowledged
             ELSE /\ net' = rest /\ UNCHANGED <<rcvNxt, finAt>>
          /\ UNCHANGED <<app, left, written, sndNxt, delivered, eos, rerr, worker, reg, errst, gaveUp, drops>>
Lose(r, m) == /\ m \in net[r] /\ drops < MaxDrop /\ drops' = drops + 1 /\ net' = [net EXCEPT ![r] = @ \ {m}]
              /\ UNCHANGED <<app, left, written, sndNxt, sndUna, rcvNxt, finAt, delivered, eos, rerr, worker, reg, errst, gaveUp, retx>>
Next == \E e \in E : \/ AppWrite(e) \/ AppShut(e) \/ AppRead(e) \/ AppEos(e) \/ AppErr(e) \/ AppClose(e)
                     \/ Send(e) \/ Retx(e) \/ GiveUp(e) \/ WorkerExit(e)
                     \/ \E m \in net[e] : Arrive(e, m) \/ Lose(e, m)
Progress == \A e \in E : /\ WF_vars(AppShut(e)) /\ WF_vars(AppRead(e)) /\ WF_vars(AppEos(e)) /\ WF_vars(AppErr(e))
                         /\ WF_vars(Send(e)) /\ WF_vars(Retx(e)) /\ WF_vars(GiveUp(e)) /\ WF_vars(WorkerExit(e))
                         /\ WF_vars(\E m \in net[e] : Arrive(e, m))
Spec == Init /\ [][Next]_vars
FairSpec == Spec /\ Progress
\* ---------------------------------------------------------------- properties
\* end-of-stream only after everything the peer wrote, and only after the peer shut down
EosOK == \A e \in E : eos[e] => (app[P(e)] # "w" /\ delivered[e] = written[P(e)])
\* C02, first sentence: in an orderly close nobody reads an error unless a connection gave up explicitly
OrderlyCloseSeesEos == \A e \in E : rerr[e] => (gaveUp["a"] \/ gaveUp["b"])
\* every reader eventually gets the end of stream or an explicit error
EventuallyEnd == <>(\A e \in E : eos[e] \/ rerr[e])
\* without loss both protocol goroutines end without error
CleanWithoutLoss == (drops = 0 /\ \A e \in E : worker[e] = "exit") => \A e \in E : ~errst[e]
====
