---- MODULE TcpC05 ----
(* C05 bookkeeping and clauses as pure operators over one endpoint's record
   (used by TraceTcp).  Offsets are stream offsets; times in microseconds.
   Two duplicate-ACK counters: a STRICT one (same ack, no data, same window
   as the previous ACK: what RFC 5681 and the code call a duplicate) that
   MANDATES the fast retransmit, and a LOOSE one (same ack, no data) that only
   JUSTIFIES an early retransmission, so that neither an over- nor an
   under-count can produce a false alarm.
   Segments are identified by what they carry, not by where they start: a peer that is not this stack may acknowledge
   the middle of a segment or shrink its window, after which the same bytes go out again with other boundaries
   (the remainder of a partially acknowledged segment, a segment cut down to a smaller window).  Such an emission is a
   RETRANSMISSION (every byte of it was on the wire before), its "previous transmission" is the last emission that
   carried its first byte, and it does not add a segment to the flight. *)
EXTENDS Integers, FiniteSets, Sequences, TLC
LOCAL Max2(x, y) == IF x > y THEN x ELSE y
C5Init0 == [dataSegs |-> 0,        \* distinct data segments emitted before the first ACK after data arrived
            ackedData |-> FALSE,  \* an ACK has arrived after the first data segment was sent
            una |-> 0,            \* highest stream offset acknowledged (arrived ACKs)
            dupS |-> 0, dupL |-> 0, lastWnd |-> -1,
            acks |-> 0,           \* duplicate ACKs received so far (loose count: the generous side of the Reno bound)
            segsAcked |-> 0,      \* data segments acknowledged so far
            sent |-> {},          \* <<off, end>> of distinct data segments emitted
            lastTx |-> <<>>,      \* <<off, end>> -> time of the last emission of exactly that segment
            finSent |-> FALSE,    \* a FIN has been emitted (it occupies the sequence number after the last data byte)
            needRetx |-> -1,      \* offset the next data emission MUST start at (third strict duplicate ACK), or -1
            mayRetx |-> FALSE,    \* three loose duplicate ACKs arrived: one early retransmission of the head is justified
            fresh |-> FALSE,      \* an ACK advanced una and the new head has not been retransmitted since (partial ACK / go-back-N credit)
            recover |-> -1,       \* highest offset sent when loss recovery last started (RFC 6582 "recover")
            rtoPrev |-> -1,       \* time of the last timeout retransmission if NOTHING has arrived since (the peer is silent), else -1
            rtoGap |-> -1,        \* interval between the last two timeout retransmissions of that silent period, or -1
            gapBase |-> FALSE,    \* rtoGap is the baseline interval: from the head's transmission to the FIRST timeout of the silent period
            lastArr |-> -1,       \* time of the last arrival
            inRec |-> FALSE,      \* a fast retransmission started a recovery that no ACK >= recover has ended yet (bookkeeping for F28)
            exitHi |-> -1]        \* highest offset on the wire when the last such recovery ended: segments below it that lie at or
                                  \* beyond that recovery's `recover` were FIRST sent while it was in progress (known finding F28)

Covers(s, off) == s[1] <= off /\ off < s[2]
IsRetx(c, off) == \E s \in c.sent : Covers(s, off)           \* the byte at off has been on the wire before
\* time of the last emission that carried the byte at off (only used when IsRetx(c, off))
PrevTx(c, off) == LET T == {c.lastTx[s] : s \in {x \in c.sent : Covers(x, off)}} IN CHOOSE m \in T : \A x \in T : x <= m
\* segments not wholly contained in another emitted segment: re-cut copies of bytes already in flight are not counted twice
Maximal(S) == {s \in S : ~\E r \in S : r # s /\ r[1] <= s[1] /\ s[2] <= r[2]}
\* A TIMEOUT retransmission: the earliest unacknowledged segment is sent again and nothing justifies doing so early:
\* not the fast retransmit, no three duplicate ACKs, not the first retransmission of a head the left edge has moved to
\* while loss recovery is in progress (partial-ACK retransmission, go-back-N after a timeout).
IsTimeoutRetx(c, off) == IsRetx(c, off) /\ off = c.una /\ c.needRetx # off /\ ~c.mayRetx /\ ~(c.fresh /\ off < c.recover)
\* "the timeout at least doubling between successive retransmissions": the timer is re-armed when the retransmission is
\* emitted, so successive intervals are R + lateness, 2R + lateness, ...; lateness (timer goroutine scheduling) is the only
\* slack needed: the larger of 60 ms and a quarter of the previous interval.  The doubling stops at the 60 s ceiling.
MaxRTO == 60000000
\* The FIRST doubling is checked against a baseline: when nothing at all has arrived since the head's (last) transmission at t0,
\* the timer that fires at t1 was armed at t0 or earlier (it is armed when data goes out with no timer running and re-armed only
\* by an ACK), so t1 - t0 <= R + lateness and the second timeout, 2R after t1, is at least twice that away (slack 100 ms there).
BackoffSlack(g, base) == LET m == IF base THEN 100000 ELSE 60000 IN IF g \div 4 > m THEN g \div 4 ELSE m
BackoffOK(c, t) == c.rtoGap >= 0 => t - c.rtoPrev >= (IF 2 * c.rtoGap > MaxRTO THEN MaxRTO ELSE 2 * c.rtoGap) - BackoffSlack(c.rtoGap, c.gapBase)
InFlight(c, newsent) == Cardinality(Maximal({s \in newsent : s[2] > c.una}))

\* the C05 clauses for an emitted data segment [off, off+len) at time t
C5EmitOK(c, off, len, t, kf7, reno) ==
  /\ (c.needRetx >= 0 => off = c.needRetx)                            \* after the third duplicate ACK the head goes out first
  /\ IsTimeoutRetx(c, off) => (t - PrevTx(c, off) >= 200000            \* never sooner than 200 ms after its previous transmission
                               \/ (kf7 /\ c.recover >= 0))            \* known finding F7: timeout shortly after a fast retransmit
  \* while the peer stays silent: exactly one segment (the earliest unacknowledged one) per timeout ...
  /\ (c.rtoPrev >= 0 => off = c.una)
  \* ... and the timeout at least doubles between successive retransmissions
  /\ ((c.rtoPrev >= 0 /\ IsTimeoutRetx(c, off)) => BackoffOK(c, t))
  /\ (~c.ackedData /\ ~IsRetx(c, off)) => c.dataSegs + 1 <= 10         \* at most 10 segments before the first ACK
  /\ reno => InFlight(c, c.sent \cup {<<off, off + len>>}) <= 10 + c.segsAcked + c.acks

C5AfterEmit(c, off, len, t, emitMaxBefore) ==
  LET headRetx == IsRetx(c, off) /\ off = c.una
      tmo == IsTimeoutRetx(c, off)
      fast == headRetx /\ (c.needRetx = off \/ c.mayRetx) IN          \* the retransmission three duplicate ACKs call for
  [c EXCEPT !.rtoPrev = IF tmo THEN t ELSE @,
            !.inRec = IF tmo THEN FALSE ELSE IF fast THEN TRUE ELSE @,
            !.rtoGap = IF tmo /\ c.rtoPrev >= 0 THEN t - c.rtoPrev
                       ELSE IF tmo /\ c.lastArr < PrevTx(c, off) THEN t - PrevTx(c, off) ELSE @,
            !.gapBase = IF tmo THEN c.rtoPrev < 0 ELSE @,
            !.dataSegs = IF c.ackedData \/ IsRetx(c, off) THEN @ ELSE @ + 1,
            !.sent = @ \cup {<<off, off + len>>},
            !.lastTx = (<<off, off + len>> :> t) @@ @,
            !.recover = IF headRetx THEN Max2(@, emitMaxBefore) ELSE @,
            !.needRetx = -1, !.mayRetx = IF headRetx THEN FALSE ELSE @, !.fresh = IF headRetx THEN FALSE ELSE @]

\* an ACK-bearing segment arrives: a = relative ack number, llen = its logical length (data + FIN), wnd = raw window field,
\* sentEnd = highest offset the endpoint has put on the wire (+1 once its FIN is out).  An ACK beyond sentEnd acknowledges
\* data that was never sent: it acknowledges nothing (RFC 793 p.72: "ignore"), it is only a sign of life.
\* kf28 = known finding F28 is tolerated: no fast retransmit is demanded for a segment first sent during a fast recovery
\* (the stack moves its recover mark to SND.NXT-1 when the recovery ENDS); the clause itself is unchanged when kf28 is FALSE.
C5AfterAck(c0, a, llen, wnd, t, sentEnd, kf28) ==
  LET c == [c0 EXCEPT !.rtoPrev = -1, !.rtoGap = -1, !.gapBase = FALSE, !.lastArr = t]          \* something arrived: the peer is not silent
      acked == a - 1
      newly == Cardinality(Maximal({s \in c.sent : s[2] <= acked /\ s[2] > c.una}))
      outstanding == \E s \in c.sent : s[2] > acked
      strict == IF wnd = c.lastWnd THEN c.dupS + 1 ELSE 0
  IN IF acked > c.una /\ acked <= sentEnd
     THEN [c EXCEPT !.una = acked, !.ackedData = TRUE, !.segsAcked = @ + newly, !.dupS = 0, !.dupL = 0, !.lastWnd = wnd,
                    !.needRetx = -1, !.mayRetx = FALSE, !.fresh = TRUE,
                    !.inRec = IF c.inRec /\ acked >= c.recover THEN FALSE ELSE @,
                    !.exitHi = IF c.inRec /\ acked >= c.recover THEN sentEnd ELSE @]
     ELSE IF acked = c.una /\ llen = 0 /\ outstanding
     THEN [c EXCEPT !.dupL = @ + 1, !.acks = @ + 1, !.dupS = strict, !.lastWnd = wnd, !.ackedData = TRUE,
                    !.mayRetx = (@ \/ c.dupL + 1 = 3),
                    !.needRetx = IF strict = 3 /\ acked >= c.recover /\ ~(kf28 /\ acked < c.exitHi) THEN acked ELSE @]
     ELSE [c EXCEPT !.dupS = 0, !.lastWnd = wnd, !.ackedData = (@ \/ c.sent # {})]
====
