---- MODULE TraceTcp ----
(* P-spec of the TCP properties as a trace validator over what is observable
   at the two interfaces of each endpoint of a connection: the sockets API
   (wcall/wret, read, eos, rerr, shutw) and the wire (emit = a segment leaves
   endpoint e's stack, logged in the link tap; arrive = a segment is handed to
   the peer's stack; drop).  Endpoints "a" (active opener) and "b".
   Sequence numbers are RELATIVE to the sender's ISS (SYN = 0, first data byte
   = 1): stream offset of a data segment = seq - 1.
   Stream content is a fixed function of (direction, offset) shared with the
   driver, so no byte sequences are kept in the state.
   Check \subseteq {"C01","C02","C04","C05"} selects which property's clauses are enforced:
   bookkeeping is always done. *)
EXTENDS TraceIO, FiniteSets, TcpC05
CONSTANT Check
VARIABLES cfg, up, written, offer, shut, emitMax, delivered, eos, rstop, contig, pcontig, parked, okEnd, finArr,
          maxEdge, advEdge, mss, ws, err, faults, c5
tvars == <<l, cfg, up, written, offer, shut, emitMax, delivered, eos, rstop, contig, pcontig, parked, okEnd, finArr,
           maxEdge, advEdge, mss, ws, err, faults, c5>>
E == {"a", "b"}
Peer(e) == IF e = "a" THEN "b" ELSE "a"
Dir(e) == IF e = "a" THEN 0 ELSE 1                    \* stream written by e
Byte(d, i) == (i * 31 + d * 101 + (i \div 256) * 7 + 17) % 256
On(p) == p \in Check
Max2(x, y) == IF x > y THEN x ELSE y
Min2(x, y) == IF x < y THEN x ELSE y
Pow2(n) == 2 ^ n
HasFlag(e, c) == \E i \in 1..Len(e.flags) : SubSeq(e.flags, i, i) = c
Fld(r, f, d) == IF f \in DOMAIN r THEN r[f] ELSE d

\* a scenario of the raw-peer driver (harness/tcprawd) sets raw_b: endpoint b is a SCRIPT that fabricates segments (it
\* shrinks windows, acknowledges what it likes, ...).  The clauses constrain real stacks only; the bookkeeping is done for both.
Real(e) == ~(e = "b" /\ Fld(cfg, "raw_b", FALSE))
Mtu(e) == IF e = "b" THEN Fld(cfg, "mtu_b", cfg.mtu) ELSE cfg.mtu     \* link MTU of e's interface (asymmetric paths: mtu_b)
\* okEnd[e].ok: end of the data that arrived in segments which BEGAN inside the window e had advertised; .sus: segments that
\* began at or beyond every edge advertised (logged) before their arrival.  An arrival is logged before the stack processes it,
\* and e may advertise a larger window in between (its application reads): such a segment is judged against the edge e had
\* advertised by the time the harness saw the segment PROCESSED (event `processed`, synchronous wire with procev), where it
\* is settled for good; on a wire without that event any later advertisement that covers its start clears it (weak rule).
\* okEnd[e].lastw: the window field of e's latest ACK (-1: none yet), for "the window reopens once the application reads again"
OkInit == [e \in E |-> [ok |-> 0, sus |-> {}, lastw |-> -1]]
Settle(o, edge, final) == [o EXCEPT !.ok = LET good == {s \in o.sus : s[1] < edge} IN
                                            IF good = {} THEN o.ok ELSE Max2(o.ok, CHOOSE m \in {s[2] : s \in good} : \A s \in good : s[2] <= m),
                                    !.sus = IF final THEN {} ELSE {s \in o.sus : s[1] >= edge}]
\* C04, last clause: e's application has read everything that arrived in order (its receive queue is empty), it is still
\* reading, and yet the latest window e advertised is zero: the window did not reopen.  Judged when the scenario is over
\* (the update is sent by the protocol goroutine right after the read; `end` and `quiesce` are logged much later).
WindowReopened(e) == ~(okEnd[e].lastw = 0 /\ delivered[e] = contig[e] /\ finArr[e] < 0 /\ ~eos[e] /\ ~rstop[e] /\ err[e] = "")
C5Init == [e \in E |-> C5Init0]
Zero == [e \in E |-> 0]
Neg == [e \in E |-> -1]
False == [e \in E |-> FALSE]
TInit == /\ l = 1 /\ cfg = [mtu |-> 1500] /\ up = False /\ written = Zero /\ offer = Zero /\ shut = Neg /\ emitMax = Zero
         /\ delivered = Zero /\ eos = False /\ rstop = False /\ contig = Zero /\ pcontig = Zero /\ parked = [e \in E |-> {}] /\ okEnd = OkInit /\ finArr = Neg
         /\ maxEdge = Zero /\ advEdge = Neg /\ mss = Neg /\ ws = Neg /\ err = [e \in E |-> ""] /\ faults = 0 /\ c5 = C5Init /\ HWInit
Same == UNCHANGED <<cfg, up, written, offer, shut, emitMax, delivered, eos, rstop, contig, pcontig, parked, okEnd, finArr, maxEdge, advEdge, mss, ws, err, faults, c5>>

Reset == /\ IsEvent("reset")
         /\ cfg' = Ev /\ up' = False /\ written' = Zero /\ offer' = Zero /\ shut' = Neg /\ emitMax' = Zero
         /\ delivered' = Zero /\ eos' = False /\ rstop' = False /\ contig' = Zero /\ pcontig' = Zero /\ parked' = [e \in E |-> {}] /\ okEnd' = OkInit /\ finArr' = Neg
         /\ maxEdge' = Zero /\ advEdge' = Neg /\ mss' = Neg /\ ws' = Neg /\ err' = [e \in E |-> ""] /\ faults' = 0 /\ c5' = C5Init

Skip == /\ (IsEvent("connect") \/ IsEvent("shutret") \/ IsEvent("note")) /\ Same
Up == /\ IsEvent("up")
      /\ up' = [up EXCEPT ![Ev.e] = (Ev.err = "")] /\ err' = [err EXCEPT ![Ev.e] = Ev.err]
      /\ UNCHANGED <<cfg, written, offer, shut, emitMax, delivered, eos, rstop, contig, pcontig, parked, okEnd, finArr, maxEdge, advEdge, mss, ws, faults, c5>>

\* ------------------------------------------------------------------ application side
WCall == /\ IsEvent("wcall") /\ Ev.off = written[Ev.e] /\ offer[Ev.e] = 0
         /\ offer' = [offer EXCEPT ![Ev.e] = Ev.n]
         /\ UNCHANGED <<cfg, up, written, shut, emitMax, delivered, eos, rstop, contig, pcontig, parked, okEnd, finArr, maxEdge, advEdge, mss, ws, err, faults, c5>>
WRet == /\ IsEvent("wret")
        /\ Ev.n <= offer[Ev.e] /\ Ev.n >= 0
        /\ On("C01") => emitMax[Ev.e] <= written[Ev.e] + Ev.n            \* nothing beyond the accepted bytes was put on the wire
        /\ written' = [written EXCEPT ![Ev.e] = @ + Ev.n] /\ offer' = [offer EXCEPT ![Ev.e] = 0]
        /\ UNCHANGED <<cfg, up, shut, emitMax, delivered, eos, rstop, contig, pcontig, parked, okEnd, finArr, maxEdge, advEdge, mss, ws, err, faults, c5>>
ShutW == /\ IsEvent("shutw") /\ Ev.at = written[Ev.e]
         /\ shut' = [shut EXCEPT ![Ev.e] = Ev.at]
         /\ UNCHANGED <<cfg, up, written, offer, emitMax, delivered, eos, rstop, contig, pcontig, parked, okEnd, finArr, maxEdge, advEdge, mss, ws, err, faults, c5>>
\* C01: bytes returned by reads are at all times a prefix of the bytes accepted by the peer's writes
Read == /\ IsEvent("read")
        /\ LET e == Ev.e  p == Peer(Ev.e) IN
           /\ Ev.off = delivered[e] /\ Ev.n = Len(Ev.pay) /\ Ev.n > 0
           /\ On("C01") => /\ ~eos[e]                                                  \* no data after end-of-stream
                           /\ \A k \in 1..Ev.n : Ev.pay[k] = Byte(Dir(p), Ev.off + k - 1)  \* exactly the peer's bytes, in order
                           /\ Ev.off + Ev.n <= written[p] + offer[p]                    \* nothing invented
                           /\ Ev.off + Ev.n <= contig[e]                                \* only data that actually arrived, in order
           /\ On("C04") => Ev.off + Ev.n <= okEnd[e].ok  \* only bytes of segments that began inside the advertised window (none wholly outside it)
           /\ delivered' = [delivered EXCEPT ![e] = @ + Ev.n]
        /\ UNCHANGED <<cfg, up, written, offer, shut, emitMax, eos, rstop, contig, pcontig, parked, okEnd, finArr, maxEdge, advEdge, mss, ws, err, faults, c5>>
\* C02: end-of-stream only after everything the peer wrote before its shutdown, and only once its FIN arrived
Eos == /\ IsEvent("eos")
       /\ LET e == Ev.e IN
          /\ Ev.at = delivered[e]
          /\ On("C02") => (finArr[e] >= 0 /\ delivered[e] = finArr[e] /\ shut[Peer(e)] = finArr[e])
          /\ eos' = [eos EXCEPT ![e] = TRUE]
       /\ UNCHANGED <<cfg, up, written, offer, shut, emitMax, delivered, rstop, contig, pcontig, parked, okEnd, finArr, maxEdge, advEdge, mss, ws, err, faults, c5>>
ReadStop == /\ IsEvent("readstop") /\ rstop' = [rstop EXCEPT ![Ev.e] = TRUE]
            /\ UNCHANGED <<cfg, up, written, offer, shut, emitMax, delivered, eos, contig, pcontig, parked, okEnd, finArr, maxEdge, advEdge, mss, ws, err, faults, c5>>
\* The application Close()s its endpoint (after its writer and its reader are done).  Close implies shutting the write side
\* down.  A close before the end of stream was read is abortive (the stack may reset the connection): recorded in err, which
\* explains an error the peer sees afterwards.  A close after EOS is an orderly close: the peer is still owed data + EOS.
AppClose == /\ IsEvent("close")
            /\ shut' = [shut EXCEPT ![Ev.e] = IF @ < 0 THEN written[Ev.e] ELSE @]
            /\ err' = [err EXCEPT ![Ev.e] = IF ~eos[Ev.e] /\ @ = "" THEN "closed-before-eos" ELSE @]
            /\ UNCHANGED <<cfg, up, written, offer, emitMax, delivered, eos, rstop, contig, pcontig, parked, okEnd, finArr, maxEdge, advEdge, mss, ws, faults, c5>>
\* C02 ("eventually delivered ... followed by end-of-stream" as an application that sleeps on the readiness notification sees
\* it): the reader found data / end-of-stream / an error only through its 2-second rescue poll, and no notification for it
\* arrived within another 300 ms: an application blocked on the waiter queue alone would never have got it.
MissedWake == /\ IsEvent("missedwake") /\ ~On("C02") /\ Same
\* a connection may fail only with an explicit error; scenarios whose faults are finite and recoverable do not allow it,
\* unless the peer failed or closed abortively before
RErr == /\ IsEvent("rerr")
        /\ On("C02") => (Fld(cfg, "allowerr", FALSE) \/ err[Peer(Ev.e)] # "")
        /\ err' = [err EXCEPT ![Ev.e] = Ev.err] /\ rstop' = [rstop EXCEPT ![Ev.e] = TRUE]
        /\ UNCHANGED <<cfg, up, written, offer, shut, emitMax, delivered, eos, contig, pcontig, parked, okEnd, finArr, maxEdge, advEdge, mss, ws, faults, c5>>

\* ------------------------------------------------------------------ wire side
\* RFC 7323 2.3: a shift count above 14 in the option means 14 (only a scripted peer sends one)
Scale(e) == IF ws[e] >= 0 /\ ws[Peer(e)] >= 0 THEN Min2(ws[e], 14) ELSE 0
RECURSIVE Adv(_, _)
Adv(c, S) == LET T == {iv \in S : iv[1] <= c /\ iv[2] > c} IN
             IF T = {} THEN c ELSE Adv(CHOOSE m \in {iv[2] : iv \in T} : \A iv \in T : iv[2] <= m, S)

Emit == /\ IsEvent("emit") /\ "bad" \notin DOMAIN Ev
        /\ LET e == Ev.e  p == Peer(Ev.e)  off == Ev.seq - 1  len == Ev.len
               syn == HasFlag(Ev, "S")  fin == HasFlag(Ev, "F")  rst == HasFlag(Ev, "R")  ack == HasFlag(Ev, "A")
               edge == Ev.ack - 1 + (IF syn THEN Ev.wnd ELSE Ev.wnd * Pow2(Scale(e)))
               on(q) == On(q) /\ Real(e)            \* the clauses below bind real stacks, not a scripted peer
           IN
           /\ Ev.sumok /\ Ev.optok
           \* ---- C01: every data byte on the wire is the byte the application wrote at that offset
           /\ (len > 0 /\ on("C01")) => /\ off >= 0 /\ off + len <= written[e] + offer[e]
                                        /\ Len(Ev.pay) = len
                                        /\ \A k \in 1..len : Ev.pay[k] = Byte(Dir(e), off + k - 1)
           \* ---- C02: FIN only after the application shut down, at the end of the stream, after all data was sent at least once
           /\ (fin /\ on("C02")) => /\ shut[e] >= 0 /\ off + len = shut[e]
                                    /\ Max2(emitMax[e], off + len) >= shut[e]
           \* ---- C04: never beyond the right edge the peer offered, never larger than the peer's MSS / the path MTU
           /\ (len > 0 /\ on("C04")) => /\ off + len <= maxEdge[e]
                                        /\ (mss[p] >= 0 => len <= mss[p])
                                        /\ \/ Ev.iplen <= Mtu(e)
                                           \* known finding F14: on a path with no room for payload next to a full option area
                                           \* (MTU - IP header - 20 - 40 <= 0: IPv4 MTU <= 80, IPv6 MTU <= 100) the budget is clamped to 1 byte and the SACK option comes on top
                                           \/ (Fld(cfg, "kf_f14", FALSE) /\ Mtu(e) <= (IF cfg.v = 6 THEN 100 ELSE 80) /\ len = 1 /\ Len(Ev.sack) > 0 /\ Ev.iplen - (8 * Len(Ev.sack) + 4) <= Mtu(e))
           \* ---- C04: the advertised right edge never moves left (RST carries no window)
           /\ (ack /\ ~rst /\ ~syn /\ on("C04") /\ advEdge[e] >= 0) =>
                  \/ edge >= advEdge[e]
                  \/ (Fld(cfg, "kf_f4", FALSE) /\ Scale(e) > 0 /\ advEdge[e] - edge < Pow2(Scale(e)))   \* known finding F4 (scaled-window rounding)
           /\ (on("C04") /\ Fld(cfg, IF e = "a" THEN "rcvbuf_a" ELSE "rcvbuf_b", 0) > 0 /\ ack /\ ~rst /\ ~syn) =>
                  edge - delivered[e] <= 2 * Fld(cfg, IF e = "a" THEN "rcvbuf_a" ELSE "rcvbuf_b", 0) + Pow2(Scale(e)) + 1500
           \* ---- C01/C04: an acknowledgement never covers data that has not arrived; and on a synchronous wire (every arrival but
           \*      the last one has been processed) with default buffers and everything inside the advertised window, it covers all
           \*      in-order data the endpoint held before the last arrival: data the stack accepted is acknowledged, not sat on
           /\ (ack /\ ~rst /\ ~syn /\ (on("C01") \/ on("C04"))) => Ev.ack - 1 <= contig[e] + (IF finArr[e] >= 0 THEN 1 ELSE 0)
           /\ (ack /\ ~rst /\ ~syn /\ on("C04") /\ Fld(cfg, "sync", FALSE) /\ Fld(cfg, IF e = "a" THEN "rcvbuf_a" ELSE "rcvbuf_b", 0) = 0
                   /\ advEdge[e] >= 0 /\ contig[e] <= advEdge[e] /\ ~eos[e] /\ ~rstop[e])
                 => Ev.ack - 1 >= pcontig[e]
           \* ---- C05 (clauses in module TcpC05)
           /\ (len > 0 /\ on("C05")) => C5EmitOK(c5[e], off, len, Ev.t, Fld(cfg, "kf_f7", FALSE), Fld(cfg, "cc", "") \in {"", "reno"})
           \* ---- C05: every retransmission is either the fast retransmission or a retransmission by timeout, "never sooner than
           \*      200 ms after its previous transmission".  Data that is wholly acknowledged (synchronous wire: the ACK was
           \*      processed before anything else arrived) and goes out again a few milliseconds after its last transmission is
           \*      neither (a timer that fired before the ACK was dequeued re-sends data whose last transmission is an RTO old).
           /\ (len > 0 /\ on("C05") /\ Fld(cfg, "sync", FALSE) /\ off + len <= c5[e].una /\ IsRetx(c5[e], off))
                 => Ev.t - PrevTx(c5[e], off) >= 200000
           \* ---- bookkeeping
           /\ emitMax' =[emitMax EXCEPT ![e] = IF len > 0 THEN Max2(@, off + len) ELSE @]
           /\ advEdge' = [advEdge EXCEPT ![e] = IF ack /\ ~rst THEN Max2(@, edge) ELSE @]
           /\ mss' = [mss EXCEPT ![e] = IF syn THEN Ev.mss ELSE @]
           /\ ws' = [ws EXCEPT ![e] = IF syn THEN Ev.ws ELSE @]
           /\ c5' = [c5 EXCEPT ![e] = LET c1 == IF len > 0 THEN C5AfterEmit(c5[e], off, len, Ev.t, emitMax[e]) ELSE c5[e]
                                       IN IF fin THEN [c1 EXCEPT !.finSent = TRUE] ELSE c1]
           /\ okEnd' = [okEnd EXCEPT ![e] = LET o1 == IF ack /\ ~rst /\ ~Fld(cfg, "procev", FALSE) THEN Settle(@, Max2(advEdge[e], edge), FALSE) ELSE @
                                            IN IF ack /\ ~rst /\ ~syn THEN [o1 EXCEPT !.lastw = Ev.wnd] ELSE o1]
        /\ UNCHANGED <<cfg, up, written, offer, shut, delivered, eos, rstop, contig, pcontig, parked, finArr, maxEdge, err, faults>>
\* synchronous wire: the harness saw the segment queue of e empty and its protocol goroutine idle after the last hand-over
Processed == /\ IsEvent("processed")
             /\ okEnd' = [okEnd EXCEPT ![Ev.to] = Settle(@, advEdge[Ev.to], TRUE)]
             /\ UNCHANGED <<cfg, up, written, offer, shut, emitMax, delivered, eos, rstop, contig, pcontig, parked, finArr, maxEdge, advEdge, mss, ws, err, faults, c5>>
EmitOther == /\ IsEvent("emit") /\ "bad" \in DOMAIN Ev /\ Same

Arrive == /\ IsEvent("arrive") /\ "bad" \notin DOMAIN Ev
          /\ LET e == Ev.to  p == Ev.e  off == Ev.seq - 1  len == Ev.len
                 syn == HasFlag(Ev, "S")  fin == HasFlag(Ev, "F")  ack == HasFlag(Ev, "A")  rst == HasFlag(Ev, "R")
                 edge == Ev.ack - 1 + (IF syn THEN Ev.wnd ELSE Ev.wnd * Pow2(Scale(p)))
                 np == IF len > 0 THEN parked[e] \cup {<<off, off + len>>} ELSE parked[e]
                 nc == Adv(contig[e], np)
             IN
             \* C05 "without waiting for the retransmission timeout": on the synchronous wire a frame is handed over only
             \* after the previous one was processed, so the fast retransmit mandated by the third duplicate ACK has been
             \* emitted (synchronously, by the goroutine that processed that ACK) before anything else can arrive
             /\ (On("C05") /\ Fld(cfg, "sync", FALSE) /\ Real(e)) => c5[e].needRetx < 0
             /\ contig' = [contig EXCEPT ![e] = nc]
             /\ pcontig' = [pcontig EXCEPT ![e] = contig[e]]      \* what had arrived in order before this (possibly still unprocessed) arrival
             /\ parked' = [parked EXCEPT ![e] = {iv \in np : iv[2] > nc}]
             /\ okEnd' = [okEnd EXCEPT ![e] = IF len = 0 THEN @
                                              ELSE IF advEdge[e] < 0 \/ off < advEdge[e] THEN [@ EXCEPT !.ok = Max2(@, off + len)]
                                              ELSE [@ EXCEPT !.sus = @ \cup {<<off, off + len>>}]]
             /\ finArr' = [finArr EXCEPT ![e] = IF fin /\ ~rst THEN off + len ELSE @]
             \* the window field of a SYN that carries no ACK (the peer opens actively) is an offer too: it starts at the first
             \* data byte.  (The passive side of this stack sends against it until the first ACK after the handshake arrives.)
             /\ maxEdge' = [maxEdge EXCEPT ![e] = IF ack /\ ~rst /\ Ev.ack > -900000 THEN Max2(@, edge)
                                                  ELSE IF syn /\ ~ack /\ ~rst THEN Max2(@, Ev.wnd) ELSE @]
             /\ c5' = [c5 EXCEPT ![e] = IF ack /\ ~rst /\ ~syn /\ Ev.ack > -900000 THEN C5AfterAck(@, Ev.ack, len + (IF fin THEN 1 ELSE 0), Ev.wnd, Ev.t,
                                                                                                                      emitMax[e] + (IF c5[e].finSent THEN 1 ELSE 0), Fld(cfg, "kf_f28", FALSE)) ELSE @]
          /\ UNCHANGED <<cfg, up, written, offer, shut, emitMax, delivered, eos, rstop, advEdge, mss, ws, err, faults>>
ArriveOther == /\ IsEvent("arrive") /\ "bad" \in DOMAIN Ev /\ Same
Drop == /\ IsEvent("drop") /\ faults' = faults + 1
        /\ UNCHANGED <<cfg, up, written, offer, shut, emitMax, delivered, eos, rstop, contig, pcontig, parked, okEnd, finArr, maxEdge, advEdge, mss, ws, err, c5>>

\* ------------------------------------------------------------------ end of scenario (C02)
\* everything written before the shutdown was delivered, followed by end-of-stream
Complete(e) == shut[e] >= 0 => (eos[Peer(e)] /\ delivered[Peer(e)] = written[e])
Wants(e) == ~rstop[e] /\ ~eos[e] /\ err[e] = ""              \* e's application is still reading
Owed(e) == Wants(Peer(e)) /\ (written[e] > delivered[Peer(e)] \/ (shut[e] >= 0 /\ ~eos[Peer(e)]))
Failed(s) == s.state = 6 /\ s.err # ""
\* a provably quiet connection (nothing in flight, no retransmission timer, both protocol goroutines idle)
\* with data or a FIN still owed to a reading application is a silent stall, unless it failed with an explicit error
Quiesce == /\ IsEvent("quiesce")
           /\ On("C02") => \/ ~(Owed("a") \/ Owed("b"))
                           \/ Failed(Ev.a) \/ Failed(Ev.b)
                           \/ Fld(cfg, "kf_f1", FALSE)       \* known finding F1: scenario built to lose the window update after a zero window
           /\ On("C04") => \A e \in E : Real(e) => WindowReopened(e)
           /\ Same
\* C02: "lost handshake packets ... are recovered from by retransmission ... or the connection fails with an explicit error":
\* a scenario that lost at most three packets must not end with the connection attempt still pending at the deadline (the
\* SYN / SYN-ACK is retransmitted after 1, 3, 7, 15 s; the scenario deadlines are 20 s and more)
HandshakeDone == ~(Ev.why \in {"connect-timeout", "accept-timeout"} /\ faults <= 3)
End == /\ IsEvent("end")
       /\ On("C02") => HandshakeDone
       \* (the pair driver logs `end` at least 30 ms after the applications finished; the raw-peer driver ends with its script)
       /\ (On("C04") /\ ~Fld(cfg, "raw_b", FALSE)) => \A e \in E : WindowReopened(e)
       /\ (On("C02") /\ Ev.why = "done") =>
              /\ (err["a"] = "" /\ err["b"] = "") => (Complete("a") /\ Complete("b"))
              \* closing exchange without loss: both endpoints closed, no error
              /\ (faults = 0 /\ shut["a"] >= 0 /\ shut["b"] >= 0 /\ Ev.a.ok /\ Ev.b.ok /\ ~Fld(cfg, "noclosecheck", FALSE)) =>
                     (Ev.a.state = 5 /\ Ev.b.state = 5 /\ Ev.a.err = "" /\ Ev.b.err = "")
       /\ Same
Panic == IsEvent("panic") /\ FALSE
TNext == Reset \/ Skip \/ Up \/ WCall \/ WRet \/ ShutW \/ AppClose \/ Processed \/ MissedWake \/ Read \/ Eos \/ ReadStop \/ RErr \/ Emit \/ EmitOther \/ Arrive \/ ArriveOther
         \/ Drop \/ Quiesce \/ End
TSpec == TInit /\ [][TNext]_tvars
====
