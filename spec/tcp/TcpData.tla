---- MODULE TcpData ----
(* Closed model of the TCP data phase in one direction, shaped like the code
   (snd.go / rcv.go / reno.go at handler granularity): the application writes
   N units (MSS = 1 unit), the sender keeps sndUna / sndNxt / writeNext /
   outstanding / cwnd / ssthresh / dupAck / fast-recovery state / timer, the
   receiver keeps rcvNxt / rcvAcc / out-of-order set / buffer occupancy; the
   network is a bag of data segments and a set of ACKs with finite budgets of
   drops, duplications and retransmission timeouts (every growing value is
   bounded).  Reverse direction = the ACK / window stream.
   C01 at design level: what the application reads is always a prefix of what
   was written, whatever the network and the schedulers do. *)
EXTENDS Integers, Sequences, FiniteSets, TLC
CONSTANTS N, Buf, MaxDrop, MaxDup, MaxRto
VARIABLES written, sndUna, sndNxt, writeNext, outstanding, cwnd, ssth, dup, frActive, frLast, timerOn, sndWnd,
          rcvNxt, rcvAcc, pend, rcvUsed, delivered, netD, netA, drops, dups, rtos, lastRtoSent
snd == <<written, sndUna, sndNxt, writeNext, outstanding, cwnd, ssth, dup, frActive, frLast, timerOn, sndWnd>>
rcv == <<rcvNxt, rcvAcc, pend, rcvUsed, delivered>>
net == <<netD, netA, drops, dups, rtos, lastRtoSent>>
vars == <<snd, rcv, net>>
View == vars
Seqs == 0..(N - 1)
MaxCwnd == 4
Max2(a, b) == IF a > b THEN a ELSE b
Min2(a, b) == IF a < b THEN a ELSE b

Init == /\ written = 0 /\ sndUna = 0 /\ sndNxt = 0 /\ writeNext = 0 /\ outstanding = 0 /\ cwnd = 2 /\ ssth = MaxCwnd
        /\ dup = 0 /\ frActive = FALSE /\ frLast = -1 /\ timerOn = FALSE /\ sndWnd = Buf
        /\ rcvNxt = 0 /\ rcvAcc = Buf /\ pend = {} /\ rcvUsed = 0 /\ delivered = 0
        /\ netD = [s \in Seqs |-> 0] /\ netA = {} /\ drops = 0 /\ dups = 0 /\ rtos = 0 /\ lastRtoSent = 0

\* sender.sendData: transmit from writeNext while the congestion window and the peer's window allow
RECURSIVE Send(_)
Send(st) == IF st.wn < st.wr /\ st.out < st.cw /\ st.wn < st.una + st.wnd
            THEN Send([st EXCEPT !.wn = @ + 1, !.out = @ + 1, !.nxt = Max2(@, st.wn + 1),
                                 !.nd = [@ EXCEPT ![st.wn] = Min2(@ + 1, 2)]])
            ELSE st
DoSend(wr, una, nxt, wn, out, cw, wnd, nd) ==
  LET r == Send([wr |-> wr, una |-> una, nxt |-> nxt, wn |-> wn, out |-> out, cw |-> cw, wnd |-> wnd, nd |-> nd]) IN
  /\ writeNext' = r.wn /\ outstanding' = r.out /\ sndNxt' = r.nxt /\ netD' = r.nd
  /\ timerOn' = (una # r.nxt)

AppWrite == /\ written < N /\ written' = written + 1
            /\ DoSend(written + 1, sndUna, sndNxt, writeNext, outstanding, cwnd, sndWnd, netD)
            /\ UNCHANGED <<sndUna, cwnd, ssth, dup, frActive, frLast, sndWnd, rcv, netA, drops, dups, rtos, lastRtoSent>>

\* receiver.handleRcvdSegment for data unit s
RECURSIVE Drain(_, _)
Drain(nx, pd) == IF nx \in pd THEN Drain(nx + 1, pd \ {nx}) ELSE [nx |-> nx, pd |-> pd]
AckOf(nx, acc) == [ack |-> nx, wnd |-> acc - nx]
RcvData(s) ==
  /\ netD[s] > 0 /\ netD' = [netD EXCEPT ![s] = @ - 1]
  /\ IF s < rcvNxt \/ s >= rcvAcc
     THEN \* duplicate or outside the window: not accepted, answered with an ACK
          /\ netA' = netA \cup {AckOf(rcvNxt, rcvAcc)} /\ UNCHANGED rcv
     ELSE IF s = rcvNxt
     THEN LET d == Drain(s + 1, pend)
              used == rcvUsed + (d.nx - rcvNxt)
              acc == Max2(rcvAcc, d.nx + Max2(Buf - used, 0))
          IN /\ rcvNxt' = d.nx /\ pend' = d.pd /\ rcvUsed' = used /\ rcvAcc' = acc
             /\ netA' = netA \cup {AckOf(d.nx, acc)} /\ UNCHANGED delivered
     ELSE /\ pend' = pend \cup {s} /\ netA' = netA \cup {AckOf(rcvNxt, rcvAcc)}
          /\ UNCHANGED <<rcvNxt, rcvAcc, rcvUsed, delivered>>
  /\ UNCHANGED <<snd, drops, dups, rtos, lastRtoSent>>

\* application read: frees buffer; a window update is sent only when the window re-opens from zero
AppRead == /\ rcvUsed > 0 /\ delivered' = delivered + 1 /\ rcvUsed' = rcvUsed - 1
           /\ LET acc == Max2(rcvAcc, rcvNxt + (Buf - (rcvUsed - 1))) IN
              /\ rcvAcc' = acc
              /\ netA' = IF rcvAcc = rcvNxt THEN netA \cup {AckOf(rcvNxt, acc)} ELSE netA
           /\ UNCHANGED <<snd, rcvNxt, pend, netD, drops, dups, rtos, lastRtoSent>>

\* sender.handleRcvdSegment for an ACK
SndAck(a) ==
  /\ a \in netA /\ netA' = netA \ {a}
  /\ sndWnd' = a.wnd
  /\ IF a.ack > sndUna /\ a.ack <= sndNxt
     THEN LET ackedN == a.ack - sndUna
              out == Max2(outstanding - ackedN, 0)
              leave == frActive /\ a.ack > frLast
              cw == IF leave THEN ssth ELSE IF frActive THEN cwnd ELSE Min2(cwnd + 1, MaxCwnd)
          IN /\ sndUna' = a.ack /\ dup' = 0 /\ cwnd' = cw /\ frActive' = (frActive /\ ~leave)
             /\ DoSend(written, a.ack, sndNxt, Max2(writeNext, a.ack), out, cw, a.wnd, netD)
             /\ UNCHANGED <<written, ssth, frLast>>
     ELSE IF a.ack = sndUna /\ sndUna # sndNxt /\ ~frActive
     THEN IF dup + 1 = 3 /\ frLast < a.ack
          THEN \* fast retransmit of the head, enter fast recovery
               LET ss == Max2(outstanding \div 2, 2) IN
               /\ dup' = 0 /\ frActive' = TRUE /\ frLast' = sndNxt - 1 /\ ssth' = ss /\ cwnd' = Min2(ss + 3, MaxCwnd + 3)
               /\ DoSend(written, sndUna, sndNxt, writeNext, outstanding, Min2(ss + 3, MaxCwnd + 3), a.wnd,
                         [netD EXCEPT ![sndUna] = Min2(@ + 1, 2)])
               /\ UNCHANGED <<written, sndUna>>
          ELSE /\ dup' = dup + 1
               /\ DoSend(written, sndUna, sndNxt, writeNext, outstanding, cwnd, a.wnd, netD)
               /\ UNCHANGED <<written, sndUna, cwnd, ssth, frActive, frLast>>
     ELSE /\ DoSend(written, sndUna, sndNxt, writeNext, outstanding, cwnd, a.wnd, netD)
          /\ UNCHANGED <<written, sndUna, cwnd, ssth, dup, frActive, frLast>>
  /\ UNCHANGED <<rcv, drops, dups, rtos, lastRtoSent>>

\* retransmission timeout: window 1, go back to the first unacknowledged unit
Rto == /\ timerOn /\ rtos < MaxRto /\ rtos' = rtos + 1
       /\ ssth' = Max2(outstanding \div 2, 2) /\ cwnd' = 1 /\ frActive' = FALSE /\ frLast' = sndNxt - 1 /\ dup' = 0
       /\ DoSend(written, sndUna, sndNxt, sndUna, 0, 1, sndWnd, netD)
       /\ lastRtoSent' = Send([wr |-> written, una |-> sndUna, nxt |-> sndNxt, wn |-> sndUna, out |-> 0, cw |-> 1, wnd |-> sndWnd, nd |-> netD]).out
       /\ UNCHANGED <<written, sndUna, sndWnd, rcv, netA, drops, dups>>

DropD(s) == netD[s] > 0 /\ drops < MaxDrop /\ netD' = [netD EXCEPT ![s] = @ - 1] /\ drops' = drops + 1
            /\ UNCHANGED <<snd, rcv, netA, dups, rtos, lastRtoSent>>
DupD(s) == netD[s] = 1 /\ dups < MaxDup /\ netD' = [netD EXCEPT ![s] = 2] /\ dups' = dups + 1
           /\ UNCHANGED <<snd, rcv, netA, drops, rtos, lastRtoSent>>
DropA(a) == a \in netA /\ drops < MaxDrop /\ netA' = netA \ {a} /\ drops' = drops + 1
            /\ UNCHANGED <<snd, rcv, netD, dups, rtos, lastRtoSent>>
Next == AppWrite \/ AppRead \/ Rto \/ (\E s \in Seqs : RcvData(s) \/ DropD(s) \/ DupD(s)) \/ (\E a \in netA : SndAck(a) \/ DropA(a))
Spec == Init /\ [][Next]_vars

Safety == /\ delivered <= rcvNxt /\ rcvNxt <= sndNxt /\ sndNxt <= written /\ sndUna <= rcvNxt
          /\ delivered + rcvUsed = rcvNxt /\ writeNext <= written /\ sndUna <= writeNext
\* units are their own content: the k-th unit read is unit k, so "delivered is a prefix of written" is:
StreamInv == delivered <= written /\ \A s \in pend : s >= rcvNxt /\ s < written
\* the peer's window is respected with respect to the receiver's true right edge (violated by the
\* unconditional window update of a stale ACK: finding F5; not part of the C01 configuration)
WindowOK == \A s \in Seqs : netD[s] > 0 => s < rcvAcc
\* a quiet state with data outstanding (finding F1 when the lost segment is the window update)
Quiet == netA = {} /\ (\A s \in Seqs : netD[s] = 0) /\ ~timerOn
NoSilentStall == ~(Quiet /\ written = N /\ delivered + rcvUsed < N /\ rcvUsed < Buf)
\* C02 at design level: the only silent stalls are zero-window stalls: the sender believes the window is closed
\* (the update was lost, or an older zero-window ACK overtook it) and has no probe timer (finding F1)
StallOnlyByLostWindowUpdate == NoSilentStall \/ sndWnd = 0
\* C04 at design level (receive side): the advertised right edge never moves left and never exceeds what the buffer can hold
EdgeBounded == rcvAcc <= delivered + Buf /\ rcvNxt <= rcvAcc
EdgeMonotone == [][rcvAcc' >= rcvAcc]_vars
\* C05 at design level
CwndBound == outstanding <= MaxCwnd + 3
OneSegmentPerRto == lastRtoSent <= 1
====
