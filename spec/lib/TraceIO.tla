---- MODULE TraceIO ----
(* Cursor over an ndjson trace ("trace.ndjson" in TLC's working directory).
   Acceptance is by high-water mark (register 1), so trace specs may compose
   silent steps (linearization points, unlogged environment steps).
   Needs -workers 1.  cfg: CONSTRAINT HWMark  POSTCONDITION Accepted *)
EXTENDS Integers, Sequences, TLC, Json
VARIABLE l
Trace == ndJsonDeserialize("trace.ndjson")
NT == Len(Trace)
Ev == Trace[l]
IsEvent(e) == l <= NT /\ Trace[l].ev = e /\ l' = l + 1
HWInit == TLCSet(1, 1)
HWMark == TLCSet(1, IF TLCGet(1) < l THEN l ELSE TLCGet(1))
Accepted == IF TLCGet(1) = NT + 1 THEN TRUE ELSE Print(<<"REJECTED_AT", TLCGet(1)>>, FALSE)
SeqToSet(s) == {s[i] : i \in DOMAIN s}
Has(r, f) == f \in DOMAIN r
====
