---- MODULE TracePorts ----
(* Trace validation for C10 against the P-spec Ports.
   Events:  reset                      start of an independent segment
            pick  (free, ok, port)     one ephemeral search at real width (acceptable ports = free)
            call  (g, op, nets, t, a, p) / ret (g, ok)   concurrent history; Lin(g) is the
                                       internal linearization step placed by TLC between them *)
EXTENDS Ports, TraceIO
VARIABLE pend
G == 0..7
None == [op |-> "none"]
tvars == <<res, l, pend>>

TInit == PInit /\ l = 1 /\ pend = [g \in G |-> None] /\ HWInit

Reset == IsEvent("reset") /\ (\A g \in G : pend[g] = None) /\ res' = {} /\ UNCHANGED pend

Pick == /\ IsEvent("pick")
        /\ LET e == Ev  free == SeqToSet(e.free) IN
             /\ e.ok => (e.port \in free /\ e.port >= First /\ e.port <= MaxPort)
             /\ (~e.ok) => (\A q \in free : q < First \/ q > MaxPort)
             /\ (e.via = "reserve") => e.taken_after
        /\ UNCHANGED <<res, pend>>

Call == /\ IsEvent("call")
        /\ pend[Ev.g] = None
        /\ pend' = [pend EXCEPT ![Ev.g] = [op |-> Ev.op, nets |-> SeqToSet(Ev.nets), t |-> Ev.t, a |-> Ev.a,
                                           p |-> Ev.p, done |-> FALSE, ok |-> TRUE]]
        /\ UNCHANGED res

Lin(g) == /\ pend[g] # None /\ ~pend[g].done
          /\ LET c == pend[g] IN
             \E ok \in BOOLEAN :
               /\ CASE c.op = "reserve" -> Reserve(c.nets, c.t, c.a, c.p, ok)
                    [] c.op = "release" -> Release(c.nets, c.t, c.a, c.p) /\ ok = TRUE
                    [] c.op = "query"   -> Query(c.nets, c.t, c.a, c.p, ok)
               /\ pend' = [pend EXCEPT ![g].done = TRUE, ![g].ok = ok]
          /\ UNCHANGED l

Ret == /\ IsEvent("ret")
       /\ pend[Ev.g] # None /\ pend[Ev.g].done /\ pend[Ev.g].ok = Ev.ok
       /\ pend' = [pend EXCEPT ![Ev.g] = None]
       /\ UNCHANGED res

TNext == Reset \/ Pick \/ Call \/ Ret \/ \E g \in G : Lin(g)
TSpec == TInit /\ [][TNext]_tvars
====
