---- MODULE MCPorts ----
(* Closed model of the port manager over small constants: every history of
   reserve/release/query.  The edge labels of the state graph carry the
   operation, its arguments and the result the P-spec demands; `avail` is a
   derived observation (the answer of IsPortAvailable for every tuple) so that
   the replay can compare the whole observable state after every step. *)
EXTENDS Ports
CONSTANTS Nets, Trans, Addrs, PortSet, MaxRes
VARIABLES avail
NetSets == (SUBSET Nets) \ {{}}
Tuples == NetSets \X Trans \X Addrs \X PortSet
AvailOf(r) == {x \in Tuples : \A n \in x[1] : ~\E y \in r : y[1] = n /\ y[2] = x[2] /\ y[3] = x[4]
                                              /\ (x[3] = AnyA \/ y[4] = AnyA \/ y[4] = x[3])}
MCInit == PInit /\ avail = AvailOf({})
DoReserve(N, t, a, p, ok) == Reserve(N, t, a, p, ok) /\ avail' = AvailOf(res')
DoRelease(N, t, a, p)     == Release(N, t, a, p) /\ avail' = AvailOf(res')
MCNext == \E N \in NetSets, t \in Trans, a \in Addrs, p \in PortSet :
             \/ \E ok \in BOOLEAN : DoReserve(N, t, a, p, ok)
             \/ DoRelease(N, t, a, p)
MCSpec == MCInit /\ [][MCNext]_<<res, avail>>
Bound == Cardinality(res) <= MaxRes
AvailConsistent == avail = {x \in Tuples : Avail(x[1], x[2], x[3], x[4])}
\* released reservations become available again and releasing affects nothing else
ReleaseFrame == [][\A N \in NetSets, t \in Trans, a \in Addrs, p \in PortSet :
                    DoRelease(N, t, a, p) => /\ res' \subseteq res
                                             /\ res \ res' \subseteq {<<n, t, p, a>> : n \in N}]_<<res, avail>>
ReserveFrame == [][\A N \in NetSets, t \in Trans, a \in Addrs, p \in PortSet, ok \in BOOLEAN :
                    DoReserve(N, t, a, p, ok) => res \subseteq res']_<<res, avail>>
====
