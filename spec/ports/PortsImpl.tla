---- MODULE PortsImpl ----
(* I-spec of PortManager.PickEphemeralPort at model scale: the loop
      port = First + (offset + i) % count          for i = 0 .. count-1
   over K-bit unsigned integers.  Wrap = TRUE evaluates offset+i in K bits (the
   shape of the pinned code before the D2 repair: uint16 arithmetic), Wrap =
   FALSE in a wider type (the repaired shape).  K = 4, FirstK = 4 keeps the
   ratio First / 2^K of 16000 / 65536.
   One behaviour = one call with a nondeterministic offset and free set. *)
EXTENDS Integers, FiniteSets, TLC
CONSTANTS K, FirstK, Wrap
M == 2 ^ K
Count == M - FirstK
Range == FirstK .. (M - 1)
VARIABLES offset, free, i, result, visited
vars == <<offset, free, i, result, visited>>
PortAt(o, j) == FirstK + ((IF Wrap THEN (o + j) % M ELSE o + j) % Count)
Init == /\ offset \in 0 .. (Count - 1) /\ free \in SUBSET Range
        /\ i = 0 /\ result = -1 /\ visited = {}
Probe == /\ result = -1 /\ i < Count
         /\ LET p == PortAt(offset, i) IN
              /\ visited' = visited \cup {p}
              /\ IF p \in free THEN result' = p /\ i' = i ELSE result' = result /\ i' = i + 1
         /\ UNCHANGED <<offset, free>>
GiveUp == result = -1 /\ i = Count /\ result' = -2 /\ UNCHANGED <<offset, free, i, visited>>
Next == Probe \/ GiveUp
Spec == Init /\ [][Next]_vars
\* P-level (C10): a returned port was free and in range; failure only when nothing was free
PickSound    == result \in Range => result \in free
PickComplete == result = -2 => free = {}
InRange      == visited \subseteq Range
====
