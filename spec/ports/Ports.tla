---- MODULE Ports ----
(* P-spec of the port manager (property C10).
   State: res, the set of live reservations <<net, trans, port, addr>>.
   Addresses are strings; AnyA = "" is the wildcard.  The actions carry the
   observable result as a parameter, so a trace event (or a graph edge) is
   explained by the spec iff the result is the one the property demands. *)
EXTENDS Integers, Sequences, FiniteSets, TLC
VARIABLES res
AnyA == ""
First == 16000
MaxPort == 65535

Conflict(n, t, p, a) == \E r \in res : r[1] = n /\ r[2] = t /\ r[3] = p /\ (a = AnyA \/ r[4] = AnyA \/ r[4] = a)
Avail(N, t, a, p)    == \A n \in N : ~Conflict(n, t, p, a)

PInit == res = {}

\* ReservePort(nets, trans, addr, port # 0) -> ok
Reserve(N, t, a, p, ok) ==
   /\ ok = Avail(N, t, a, p)
   /\ res' = IF ok THEN res \cup {<<n, t, p, a>> : n \in N} ELSE res

\* ReleasePort: removes exactly the named tuples, nothing else
Release(N, t, a, p) == res' = res \ {<<n, t, p, a>> : n \in N}

\* IsPortAvailable -> ok (no state change)
Query(N, t, a, p, ok) == ok = Avail(N, t, a, p) /\ UNCHANGED res

\* ReservePort(port = 0): ephemeral.  ok => a port of the range that was free and is now reserved;
\* ~ok only if no port in the range was acceptable.  `cand` is the set of ports the caller
\* (model or trace) knows to be the only possibly-free ones: all other ports of the range are
\* reserved for AnyA on some net of N (checked, not assumed).
ReserveEph(N, t, a, ok, p) ==
   IF ok THEN /\ p >= First /\ p <= MaxPort
              /\ Avail(N, t, a, p)
              /\ res' = res \cup {<<n, t, p, a>> : n \in N}
   ELSE /\ UNCHANGED res
        /\ \A q \in First..MaxPort : ~Avail(N, t, a, q)

\* the safety core of C10
Exclusive == \A r1, r2 \in res :
   (r1 # r2 /\ r1[1] = r2[1] /\ r1[2] = r2[2] /\ r1[3] = r2[3]) => (r1[4] # AnyA /\ r2[4] # AnyA /\ r1[4] # r2[4])
====
