---- MODULE Frag ----
(* Closed model for C08: the fragmentation package as an I-spec (shaped like
   protocol/network/fragmentation) driven by an environment that delivers ANY
   fragment sequence, with the P-spec (FragProp) evaluated at every return.

   I-spec, per datagram key k (reassembler.go):   obj[k] = [live, holes (sequence of [first,last,del], in
                                                  append order), del (deleted count), heap (set of [off,len]),
                                                  size, born]
           per Fragmentation (fragmentation.go):  obj (the reassemblers map), lru (rList, front first), fsize,
                                                  limits High/Low, Timeout, clock `now`
   Process = three critical sections per caller c: Lookup(c) [f.mu]  Work(c) [r.mu]  Account(c) [f.mu].
   A caller that still holds a reassembler that has meanwhile been released sees r.done: cur[c].stale.
   With Atomic = TRUE the three sections are one action Arrive (single caller graph, replayed on the code).
   Scripts: callers follow fixed fragment lists (gate scenarios; graph compared with the real interleaving graph).

   FixD1 / FixD3 select the repaired code (TRUE) or the shape before the fix: commits (FALSE):
     D1  reassemble error = panic          -> error: release the reassembler, deliver nothing
     D3  fragment that filled no hole went on to reassemble (empty heap: panic) -> early return

   Units are blocks; the content of block b of key k is the tag Tag(k,b), so delivered payloads are
   position- and key-distinct.  P-level history: seen[k] (arrived fragments with arrival tick since the
   last delivery of k), held[k]/taint[k] (the implementation may have evicted or expired fragments),
   bad (name of the first P-clause violated by a returned result), exp (P-expectation of the last call). *)
EXTENDS FragProp, TLC
CONSTANTS NB,        \* datagram length bound (blocks)
          MaxArr,    \* total number of Process calls
          Keys,      \* datagram keys (small positive integers)
          Callers,   \* concurrent callers (small positive integers)
          High, Low, \* memory limits in blocks (99 = unlimited)
          Timeout,   \* reassembly timeout in ticks (99 = no ageing)
          MaxTick,   \* the clock advances at most to MaxTick
          FixD1, FixD3, Atomic,
          Scripts    \* <<>> : callers deliver any fragment; else a sequence of scenarios, each a tuple
                     \* (indexed by caller) of sequences of [k, f]; the scenario is chosen in Init (sn)
VARIABLES obj, lru, fsize, now, pc, cur, pos, narr, crashed, sn, seen, held, taint, bad, exp
ivars == <<obj, lru, fsize, now, pc, cur, pos, narr, crashed, sn>>
hvars == <<seen, held, taint, bad, exp>>
vars  == <<ivars, hvars>>

NoScript == <<>>
INF   == NB + 2
Frags == {f \in [first : 0..NB-1, last : 0..NB-1, more : BOOLEAN] : f.first <= f.last}
NoFrag == [first |-> 0, last |-> 0, more |-> FALSE]
Tag(k, b)  == 100 * k + b
Tags(k, n) == [i \in 1..n |-> Tag(k, i - 1)]
FLen(f) == f.last - f.first + 1

Dead      == [live |-> FALSE, holes |-> <<>>, del |-> 0, heap |-> {}, size |-> 0, born |-> 0]
NewObj(t) == [live |-> TRUE, holes |-> << [first |-> 0, last |-> INF, del |-> FALSE] >>, del |-> 0,
              heap |-> {}, size |-> 0, born |-> t]
Idle == [k |-> 0, f |-> NoFrag, stale |-> FALSE, done |-> FALSE, rel |-> FALSE, consumed |-> 0, out |-> <<>>]
NoExp == [k |-> 0, cons |-> TRUE, complete |-> FALSE, must |-> FALSE, len |-> 0]

Init == /\ obj = [k \in Keys |-> Dead] /\ lru = <<>> /\ fsize = 0 /\ now = 0
        /\ pc = [c \in Callers |-> "idle"] /\ cur = [c \in Callers |-> Idle] /\ pos = [c \in Callers |-> 0]
        /\ narr = 0 /\ crashed = FALSE /\ sn \in (IF Scripts = <<>> THEN {0} ELSE DOMAIN Scripts)
        /\ seen = [k \in Keys |-> {}] /\ held = [k \in Keys |-> 0] /\ taint = [k \in Keys |-> FALSE]
        /\ bad = "" /\ exp = NoExp

----------------------------------------------------------------------------
One(e) == CHOOSE x \in {e} : TRUE     \* forces a single evaluation (TLC re-evaluates LET definitions at every use)

(* reassembler.updateHoles: the range over the hole list is evaluated once *)
RECURSIVE Upd(_, _, _, _, _, _)
Upd(hs, i, n, f, used, del) ==
  IF i > n THEN [hs |-> hs, used |-> used, del |-> del]
  ELSE LET h == hs[i] IN
    IF h.del \/ f.first > h.last \/ f.last < h.first THEN Upd(hs, i + 1, n, f, used, del)
    ELSE LET hs1 == [hs EXCEPT ![i].del = TRUE]
             hs2 == IF f.first > h.first THEN Append(hs1, [first |-> h.first, last |-> f.first - 1, del |-> FALSE]) ELSE hs1
             hs3 == IF f.last < h.last /\ f.more THEN Append(hs2, [first |-> f.last + 1, last |-> h.last, del |-> FALSE]) ELSE hs2
         IN Upd(hs3, i + 1, n, f, TRUE, del + 1)

(* fragHeap.reassemble: pop in offset order, trim what is already there, fail on a gap *)
Sorted(h) == LET RECURSIVE S(_)
                 S(s) == IF s = {} THEN <<>> ELSE
                         LET m == CHOOSE x \in s : \A y \in s : x.off < y.off \/ (x.off = y.off /\ x.len <= y.len)
                         IN <<m>> \o S(s \ {m})
             IN S(h)
SetOf(s) == {s[i] : i \in DOMAIN s}
FragTags(k, c) == [i \in 1..c.len |-> Tag(k, c.off + i - 1)]
RECURSIVE ReasmR(_, _, _)
ReasmR(frs, out, k) ==
  IF frs = <<>> THEN [ok |-> TRUE, out |-> out, rest |-> {}]
  ELSE LET c == Head(frs)  size == Len(out) IN
       IF c.off > size THEN [ok |-> FALSE, out |-> <<>>, rest |-> SetOf(Tail(frs))]      \* "packet has a hole"
       ELSE LET trim == size - c.off
                body == IF trim >= c.len THEN <<>> ELSE SubSeq(FragTags(k, c), trim + 1, c.len)
            IN ReasmR(Tail(frs), out \o body, k)
Reasm(frs, k) == LET c == Head(frs) IN
  IF c.off # 0 THEN [ok |-> FALSE, out |-> <<>>, rest |-> SetOf(Tail(frs))]              \* "offset of the first packet is != 0"
  ELSE ReasmR(Tail(frs), FragTags(k, c), k)

----------------------------------------------------------------------------
(* The Fragmentation object F = [obj, lru, fsize] *)
\* Fragmentation.release on the live reassembler of key k
Rel(F, k) == IF ~F.obj[k].live THEN F ELSE
   [obj |-> [F.obj EXCEPT ![k] = Dead], lru |-> SelectSeq(F.lru, LAMBDA x : x # k),
    fsize |-> IF F.fsize - F.obj[k].size < 0 THEN 0 ELSE F.fsize - F.obj[k].size]
RECURSIVE EvictR(_, _)
EvictR(F, rel) == IF F.fsize > Low /\ Len(F.lru) > 0
                  THEN LET k == F.lru[Len(F.lru)] IN EvictR(Rel(F, k), rel \cup {k})
                  ELSE [F |-> F, rel |-> rel]
Evict(F) == IF F.fsize > High THEN EvictR(F, {}) ELSE [F |-> F, rel |-> {}]

\* section 1: lookup / expire / create                     -> [F, rel (keys whose reassembler was released)]
LookupOp(F, k, t) ==
  LET old == F.obj[k].live /\ t - F.obj[k].born > Timeout
      F1  == One(IF old THEN Rel(F, k) ELSE F)
      F2  == One(IF F1.obj[k].live THEN F1 ELSE [F1 EXCEPT !.obj[k] = NewObj(t), !.lru = <<k>> \o F1.lru])
  IN [F |-> F2, rel |-> IF old THEN {k} ELSE {}]

\* section 2: reassembler.process on object o              -> [o, done, rel (error: release), crash, consumed, out]
Nothing(o) == [o |-> o, done |-> FALSE, rel |-> FALSE, crash |-> FALSE, consumed |-> 0, out |-> <<>>]
WorkUsed(o, k, f, u, heap1, cons, o1) ==
  IF u.del < Len(u.hs) THEN [Nothing(o1) EXCEPT !.consumed = cons]
  ELSE IF heap1 = {} THEN [Nothing(o1) EXCEPT !.crash = TRUE]           \* heap.Pop on an empty heap
  ELSE LET r == One(Reasm(Sorted(heap1), k)) IN
       IF r.ok THEN [o |-> [o1 EXCEPT !.heap = {}], done |-> TRUE, rel |-> TRUE, crash |-> FALSE,
                     consumed |-> cons, out |-> r.out]
       ELSE IF FixD1 THEN [o |-> [o1 EXCEPT !.heap = r.rest], done |-> FALSE, rel |-> TRUE, crash |-> FALSE,
                           consumed |-> cons, out |-> <<>>]
       ELSE [Nothing([o1 EXCEPT !.heap = r.rest]) EXCEPT !.crash = TRUE, !.consumed = cons]
WorkOp(o, k, f, stale) ==
  IF stale THEN Nothing(o)                                                        \* r.done
  ELSE LET u == One(Upd(o.holes, 1, Len(o.holes), f, FALSE, o.del)) IN
    IF ~u.used /\ FixD3 THEN Nothing(o)
    ELSE LET heap1 == One(IF u.used THEN o.heap \cup {[off |-> f.first, len |-> FLen(f)]} ELSE o.heap)
             cons  == IF u.used THEN FLen(f) ELSE 0
             o1    == One([o EXCEPT !.holes = u.hs, !.del = u.del, !.heap = heap1, !.size = @ + cons])
         IN WorkUsed(o, k, f, u, heap1, cons, o1)

\* section 3: accounting, release when done/error, eviction -> [F, rel]
AccountOp(F, k, stale, rel, consumed) ==
  LET F1 == One([F EXCEPT !.fsize = @ + consumed])
      F2 == One(IF rel /\ ~stale THEN Rel(F1, k) ELSE F1)
      e  == One(Evict(F2))
  IN [F |-> e.F, rel |-> (IF rel /\ ~stale THEN {k} ELSE {}) \cup e.rel]

----------------------------------------------------------------------------
(* P-level bookkeeping *)
Plain(S)      == {[first |-> g.first, last |-> g.last, more |-> g.more] : g \in S}
Window(S, t0) == {g \in S : t0 <= g.t /\ g.t <= t0 + Timeout}
Sum(fn) == LET RECURSIVE Sm(_)
               Sm(D) == IF D = {} THEN 0 ELSE LET x == CHOOSE x \in D : TRUE IN fn[x] + Sm(D \ {x})
           IN Sm(DOMAIN fn)
\* verdict on a delivery (done = TRUE) of key k with payload out, S = fragments arrived since the last delivery
DeliveryBad(k, S, out) ==
  IF ~Complete(Plain(S)) THEN "DeliverOnlyComplete"
  ELSE IF ~\E t0 \in 0..MaxTick : Complete(Plain(Window(S, t0))) THEN "Timeout"
  ELSE IF \E i \in 1..Len(out) : out[i] \div 100 # k THEN "NeverMixed"
  ELSE IF Consistent(Plain(S)) /\ out # Tags(k, EndOf(Plain(S)) + 1) THEN "ExactPayload"
  ELSE ""
Expired(k, t)  == \E g \in seen[k] : t - g.t > Timeout
SetBad(b) == bad' = IF bad = "" THEN b ELSE bad

----------------------------------------------------------------------------
Scripted == Scripts # <<>>
Choice(c) == IF Scripted
             THEN (IF pos[c] < Len(Scripts[sn][c]) THEN {Scripts[sn][c][pos[c] + 1]} ELSE {})
             ELSE {[k |-> k, f |-> f] : k \in Keys, f \in Frags}
F0 == [obj |-> obj, lru |-> lru, fsize |-> fsize]
MarkStale(cu, pcs, rel, self) ==
  [d \in Callers |-> IF d # self /\ pcs[d] # "idle" /\ cu[d].k \in rel THEN [cu[d] EXCEPT !.stale = TRUE] ELSE cu[d]]

Lookup(c, k, f) ==
  /\ ~Atomic /\ ~crashed /\ pc[c] = "idle" /\ narr < MaxArr /\ [k |-> k, f |-> f] \in Choice(c)
  /\ \E l \in {LookupOp(F0, k, now)} :
       /\ obj' = l.F.obj /\ lru' = l.F.lru /\ fsize' = l.F.fsize
       /\ cur' = [MarkStale(cur, pc, l.rel, c) EXCEPT ![c] = [Idle EXCEPT !.k = k, !.f = f]]
  /\ pc' = [pc EXCEPT ![c] = "work"] /\ pos' = [pos EXCEPT ![c] = IF Scripted THEN @ + 1 ELSE @]
  /\ narr' = narr + 1
  /\ seen' = [seen EXCEPT ![k] = @ \cup {[first |-> f.first, last |-> f.last, more |-> f.more, t |-> now]}]
  /\ held' = [held EXCEPT ![k] = @ + FLen(f)]
  /\ taint' = [taint EXCEPT ![k] = @ \/ Expired(k, now)]
  /\ UNCHANGED <<now, crashed, sn, bad, exp>>

Work(c) ==
  /\ ~Atomic /\ ~crashed /\ pc[c] = "work"
  /\ \E k \in {cur[c].k} : \E w \in {WorkOp(obj[k], k, cur[c].f, cur[c].stale)} :
       /\ obj' = [obj EXCEPT ![k] = w.o]
       /\ crashed' = w.crash
       /\ cur' = [cur EXCEPT ![c].done = w.done, ![c].rel = w.rel, ![c].consumed = w.consumed, ![c].out = w.out]
       /\ pc' = [pc EXCEPT ![c] = IF w.crash THEN "idle" ELSE "acct"]
       /\ IF w.done
          THEN /\ SetBad(DeliveryBad(k, seen[k], w.out))
               /\ seen' = [seen EXCEPT ![k] = {}] /\ held' = [held EXCEPT ![k] = 0] /\ taint' = [taint EXCEPT ![k] = FALSE]
          ELSE UNCHANGED <<seen, held, taint, bad>>
  /\ UNCHANGED <<lru, fsize, now, pos, narr, sn, exp>>

Account(c) ==
  /\ ~Atomic /\ ~crashed /\ pc[c] = "acct"
  /\ \E a \in {AccountOp(F0, cur[c].k, cur[c].stale, cur[c].rel, cur[c].consumed)} :
       /\ obj' = a.F.obj /\ lru' = a.F.lru /\ fsize' = a.F.fsize
       /\ cur' = [MarkStale(cur, pc, a.rel, c) EXCEPT ![c] = Idle]
  /\ pc' = [pc EXCEPT ![c] = "idle"]
  /\ taint' = IF Sum(held) > High THEN [j \in Keys |-> taint[j] \/ seen[j] # {}] ELSE taint
  /\ UNCHANGED <<now, pos, narr, crashed, sn, seen, held, bad, exp>>

\* the whole of Process as one step (single caller); carries the P-expectation of the call in exp
Arrive(k, f) ==
  /\ Atomic /\ ~crashed /\ narr < MaxArr
  /\ \E c \in {CHOOSE c \in Callers : TRUE} :
     \E l \in {LookupOp(F0, k, now)} :
     \E w \in {WorkOp(l.F.obj[k], k, f, FALSE)} :
     \E Fw \in {[l.F EXCEPT !.obj[k] = w.o]} :
     \E a \in {AccountOp(Fw, k, FALSE, w.rel, w.consumed)} :
     \E S1 \in {seen[k] \cup {[first |-> f.first, last |-> f.last, more |-> f.more, t |-> now]}} :
     \E excused \in {taint[k] \/ Expired(k, now)} :
     LET seen1 == [seen EXCEPT ![k] = IF w.done THEN {} ELSE S1]
         held1 == [held EXCEPT ![k] = IF w.done THEN 0 ELSE @ + FLen(f)]
         taint1 == [taint EXCEPT ![k] = IF w.done THEN FALSE ELSE excused]
     IN /\ [k |-> k, f |-> f] \in Choice(c)
        /\ pos' = [pos EXCEPT ![c] = IF Scripted THEN @ + 1 ELSE @]
        /\ IF w.crash
           THEN /\ crashed' = TRUE /\ obj' = Fw.obj /\ lru' = Fw.lru /\ fsize' = Fw.fsize
                /\ seen' = [seen EXCEPT ![k] = S1] /\ UNCHANGED <<held, taint, bad>>
                /\ exp' = [k |-> k, cons |-> Consistent(Plain(S1)), complete |-> Complete(Plain(S1)), must |-> FALSE, len |-> 0]
           ELSE /\ crashed' = FALSE /\ obj' = a.F.obj /\ lru' = a.F.lru /\ fsize' = a.F.fsize
                /\ seen' = seen1 /\ held' = held1
                /\ taint' = IF Sum(held1) > High THEN [j \in Keys |-> taint1[j] \/ seen1[j] # {}] ELSE taint1
                /\ SetBad(IF w.done THEN DeliveryBad(k, S1, w.out)
                          ELSE IF MustDeliver(Plain(S1), excused) THEN "DeliversWhenComplete" ELSE "")
                /\ exp' = [k |-> k, cons |-> Consistent(Plain(S1)), complete |-> Complete(Plain(S1)),
                           must |-> MustDeliver(Plain(S1), excused),
                           len |-> IF Complete(Plain(S1)) THEN EndOf(Plain(S1)) + 1 ELSE 0]
  /\ narr' = narr + 1
  /\ UNCHANGED <<now, pc, cur, sn>>

Tick == /\ ~crashed /\ now < MaxTick /\ now' = now + 1
        /\ UNCHANGED <<obj, lru, fsize, pc, cur, pos, narr, crashed, sn, hvars>>

Next == \/ \E c \in Callers : (\E k \in Keys, f \in Frags : Lookup(c, k, f)) \/ Work(c) \/ Account(c)
        \/ \E k \in Keys, f \in Frags : Arrive(k, f)
        \/ Tick
Spec == Init /\ [][Next]_vars

----------------------------------------------------------------------------
(* The property, clause by clause (bad is set where a result is returned) *)
NoCrash              == ~crashed                        \* for ALL fragment sequences, inconsistent ones included
DeliverOnlyComplete  == bad # "DeliverOnlyComplete"     \* handed up only once a complete set incl. the last fragment arrived
Incomplete           == DeliverOnlyComplete              \* incomplete sets deliver nothing (same clause, read contrapositively)
ExactPayload         == bad # "ExactPayload"            \* consistent set: payload = the datagram, length and content
DeliversWhenComplete == bad # "DeliversWhenComplete"    \* consistent + complete (and nothing forgotten legitimately) => delivered
NeverMixed           == bad # "NeverMixed"              \* payload of key x holds only content of key x
TimeoutOK            == bad # "Timeout"                 \* a delivery combines only fragments that arrived within the timeout of each other

(* I-level sanity: what a live reassembler stores has arrived, within the timeout of its creation *)
Stored == \A k \in Keys : obj[k].live =>
            \A h \in obj[k].heap : \E g \in seen[k] : g.first = h.off /\ g.last = h.off + h.len - 1
                                                     /\ obj[k].born <= g.t /\ g.t <= obj[k].born + Timeout
SizeExact == (\A c \in Callers : pc[c] = "idle") =>
               fsize = Sum([k \in Keys |-> IF obj[k].live THEN obj[k].size ELSE 0])
LruExact == /\ \A k \in Keys : obj[k].live <=> \E i \in DOMAIN lru : lru[i] = k
            /\ \A i, j \in DOMAIN lru : i # j => lru[i] # lru[j]
====
