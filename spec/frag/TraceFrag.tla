---- MODULE TraceFrag ----
(* Trace validation for C08 against the P-spec FragProp, in byte units, on
   the exported API of fragmentation.Fragmentation.
   Events:  reset (mode, timeout_ms)                    start of an independent history; mode "strict", "safety" or "timed"
            call  (g, k, first, last, more, bytes, ep, t0, t1)
                                                        Process(key k, first, last, more, bytes) invoked by goroutine g;
                                                        t0 / t1: monotonic ms read by the harness before the call / after
                                                        its return (timed histories are sequential, so t1 is known)
            ret   (g, done, payload)                    its result
   Lin(g) is the internal linearization step TLC places between a call and
   its return (sequential histories: immediately).  Any other event (panic,
   badsize) is matched by no action: the history is rejected.

   seen = fragments (with their bytes and epoch) that arrived since the last
   delivery of their key.  Epochs: the driver separates epochs by a sleep
   longer than the reassembly timeout, so fragments of different epochs must
   never be combined; fragments of one epoch are less than "unknown" apart,
   so in mode "safety" (timeout histories, real clock) delivery is never
   demanded, only constrained.  In mode "strict" (no timeout, no memory
   limit) a complete consistent set must be delivered, except that a call
   that overlapped another call on the same key may lose its fragment to the
   other call's release of the reassembler (excused, FragProp!MustDeliver).

   Mode "timed" (real clock, Fragmentation built with reassembly timeout
   tmo ms): "fragments older than the reassembly timeout are not combined with
   newer ones".  The implementation reads its clock somewhere inside the call,
   i.e. in [t0, t1], so for a fragment h and a later fragment f
       f.t0 - h.t1 > tmo    h is older than the timeout whenever f is looked at:   never combined with f
       f.t1 - h.t0 <= tmo   h is younger than the timeout whenever f is looked at
   and in between nothing is known.  Hence a delivery at f must be complete
   using only fragments that are not certainly too old, and delivery is only
   demanded when every fragment seen is certainly young enough.  No margin
   constants: scheduling jitter only widens [t0, t1]. *)
EXTENDS FragProp, TraceIO
VARIABLES seen, pend, mode, tmo
G == 0..7
None == [op |-> "none"]
tvars == <<seen, pend, mode, tmo, l>>

OfKey(k)     == {g \in seen : g.k = k}
ByteAt(g, b) == g.bytes[b - g.first + 1]
\* overlaps agree on content
Agree(S)       == \A g, h \in S : \A b \in g.first..g.last : Covers(h, b) => ByteAt(g, b) = ByteAt(h, b)
ConsistentB(S) == Consistent(S) /\ Agree(S) /\ \A g \in S : Len(g.bytes) = g.last - g.first + 1
\* the original datagram, read off the fragments (ConsistentB and Complete)
Datagram(S)    == [i \in 1..(EndOf(S) + 1) |-> ByteAt(CHOOSE g \in S : Covers(g, i - 1), i - 1)]
Content(S)     == UNION {{g.bytes[i] : i \in DOMAIN g.bytes} : g \in S}

TInit == seen = {} /\ pend = [g \in G |-> None] /\ mode = "strict" /\ tmo = 0 /\ l = 1 /\ HWInit

\* a history may end with calls still in flight (gate paths are prefixes): reset forgets them
Reset == /\ IsEvent("reset")
         /\ seen' = {} /\ mode' = Ev.mode /\ pend' = [g \in G |-> None]
         /\ tmo' = IF Has(Ev, "timeout_ms") THEN Ev.timeout_ms ELSE 0

SameKey(h, k) == pend[h] # None /\ pend[h].f.k = k
Call == /\ IsEvent("call") /\ pend[Ev.g] = None
        /\ LET fr == [k |-> Ev.k, first |-> Ev.first, last |-> Ev.last, more |-> Ev.more, bytes |-> Ev.bytes, ep |-> Ev.ep,
                      t0 |-> IF Has(Ev, "t0") THEN Ev.t0 ELSE 0, t1 |-> IF Has(Ev, "t1") THEN Ev.t1 ELSE 0]
               ov == \E h \in G : SameKey(h, Ev.k)
           IN pend' = [h \in G |-> IF h = Ev.g THEN [op |-> "process", f |-> fr, lin |-> FALSE, ov |-> ov, done |-> FALSE,
                                                      exact |-> FALSE, payload |-> <<>>, pool |-> {}]
                                   ELSE IF SameKey(h, Ev.k) THEN [pend[h] EXCEPT !.ov = TRUE] ELSE pend[h]]
        /\ UNCHANGED <<seen, mode, tmo>>

Lin(g) == /\ pend[g] # None /\ ~pend[g].lin
          /\ LET c  == pend[g]
                 f  == c.f
                 S1 == OfKey(f.k) \cup {f}
                 W  == IF mode = "timed" THEN {h \in S1 : f.t0 - h.t1 <= tmo}     \* not certainly older than the timeout
                                         ELSE {h \in S1 : h.ep = f.ep}           \* what may be combined with f
                 excused == \/ c.ov \/ mode = "safety"
                            \/ mode = "timed" /\ \E h \in S1 : f.t1 - h.t0 > tmo  \* something may legitimately have expired
             IN \E d \in BOOLEAN :
                  /\ DoneOK(W, excused, d) = TRUE         \* DeliverOnlyComplete / Incomplete / Timeout / DeliversWhenComplete
                                                          \* ("= TRUE": evaluate as a value; TLC would branch on every \E witness)
                  /\ \E add \in (IF c.ov /\ ~d THEN BOOLEAN ELSE {TRUE}) :
                       seen' = IF d THEN seen \ OfKey(f.k) ELSE IF add THEN seen \cup {f} ELSE seen
                  /\ pend' = [pend EXCEPT ![g].lin = TRUE, ![g].done = d,
                                          ![g].exact = d /\ ConsistentB(W),
                                          ![g].payload = IF d /\ ConsistentB(W) THEN Datagram(W) ELSE <<>>,
                                          ![g].pool = IF d /\ ~ConsistentB(W) THEN Content(W) ELSE {}]
          /\ UNCHANGED <<l, mode, tmo>>

Ret == /\ IsEvent("ret") /\ pend[Ev.g] # None /\ pend[Ev.g].lin
       /\ LET c == pend[Ev.g] IN
            /\ Ev.done = c.done
            /\ IF ~c.done THEN Len(Ev.payload) = 0                                    \* nothing handed up
               ELSE IF c.exact THEN /\ Len(Ev.payload) = Len(c.payload)                \* ExactPayload (and NeverMixed: the
                                    /\ \A i \in 1..Len(c.payload) : Ev.payload[i] = c.payload[i]   \* bytes are key-distinct)
               ELSE \A i \in 1..Len(Ev.payload) : Ev.payload[i] \in c.pool            \* inconsistent sender: NeverMixed only
       /\ pend' = [pend EXCEPT ![Ev.g] = None]
       /\ UNCHANGED <<seen, mode, tmo>>

TNext == Reset \/ Call \/ Ret \/ \E g \in G : Lin(g)
TSpec == TInit /\ [][TNext]_tvars
====
