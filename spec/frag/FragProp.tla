---- MODULE FragProp ----
(* P-spec of IPv4 reassembly (property C08): exactly what the property says
   about the fragments of ONE datagram key that have arrived so far.  Unit
   free: a fragment descriptor is any record with fields first, last, more
   (blocks in the closed model Frag, bytes in the trace spec TraceFrag).

     Consistent(S)   all fragments of S were cut from one datagram:
                     more=FALSE iff the fragment ends the datagram
                     (agreement of overlapping content is a property of the
                     bytes and is added where bytes exist: TraceFrag!Agree)
     Complete(S)     a complete set, including the last fragment, is in S
     DoneOK          what the result `done` of one Process call may be     *)
EXTENDS Integers, Sequences, FiniteSets

Covers(g, b)    == g.first <= b /\ b <= g.last
CoveredBy(S, L) == \A b \in 0..L : \E g \in S : Covers(g, b)
Lasts(S)        == {g \in S : ~g.more}
Consistent(S)   == /\ \A g, h \in Lasts(S) : g.last = h.last
                   /\ \A g \in S, h \in Lasts(S) : g.last <= h.last /\ (g.more => g.last < h.last)
Complete(S)     == \E g \in Lasts(S) : CoveredBy(S, g.last)
\* index of the last unit of the datagram (meaningful when Complete; unique when also Consistent)
EndOf(S)        == (CHOOSE g \in Lasts(S) : CoveredBy(S, g.last)).last

\* S1: fragments of the key arrived so far, this one included.  excused: the
\* implementation was entitled to have forgotten fragments of S1 (memory
\* pressure, reassembly timeout, or - for concurrent callers - a racing call
\* on the same key), so that delivery cannot be demanded.
MayDeliver(S1)           == Complete(S1)                                 \* "only once a complete set (including the last fragment) has been received"
MustDeliver(S1, excused) == Consistent(S1) /\ Complete(S1) /\ ~excused   \* "the payload handed to the transport layer is ... the original datagram"
DoneOK(S1, excused, done) == (done => MayDeliver(S1)) /\ (MustDeliver(S1, excused) => done)
====
