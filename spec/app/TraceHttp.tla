---- MODULE TraceHttp ----
(* C20 P-spec (HTTP part) as trace validator: the actions of Http.tla (part B),
   bound to what the harness logged at the exported API of the bundled client
   and server; the C20 statement (Http!P) is required after every step.

     reset                                          new exchange (one connection)
     creq  method path headers body                 the request the bundled client object holds when it sends
     hreq  route method path headers body           handler `route` invoked; the request as the handler sees it
     hresp status body                              what the handler produced (Response.Error / Response.End)
     cres  status body err timeout                  what the bundled client returned (status token of the reply)

   headers = list of [name, value] pairs (compared as a set = as a map: names are unique);
   bodies are hex strings (byte-exact comparison).
   The server's parse result is only visible through the handler's arguments, so
   ServerParse is a silent step that looks at the pending hreq event; an exchange
   whose path has no handler goes creq -> (NoRoute) -> cres.
   A cres with timeout=TRUE enables nothing: the segment is rejected (and re-run by the check). *)
EXTENDS TraceIO, Http

tvars == << l, bvars, t >>
Req(e) == [ method |-> e.method, path |-> e.path, headers |-> SeqToSet(e.headers), body |-> e.body ]

TInit == l = 1 /\ BInit /\ t = << >> /\ HWInit
Reset == /\ IsEvent("reset")
         /\ phase' = "idle" /\ req' = None /\ seen' = None /\ invoked' = {} /\ hresp' = None /\ cres' = None
         /\ UNCHANGED t
CReq == IsEvent("creq") /\ ClientSend(Req(Ev))
\* silent: the parser's output is what the next hreq event shows
HParse == l <= NT /\ Ev.ev = "hreq" /\ ServerParse(Req(Ev)) /\ UNCHANGED l
HReq == IsEvent("hreq") /\ Dispatch(Ev.route)
HResp == IsEvent("hresp") /\ Respond(Ev.status, Ev.body)
\* silent: the client got an answer although no handler ran
HNoRoute == l <= NT /\ Ev.ev = "cres" /\ NoRoute /\ UNCHANGED l
CRes == IsEvent("cres") /\ ~Ev.timeout /\ Ev.err = "" /\ ClientRecv(Ev.status, Ev.body)
Skip == IsEvent("note") /\ UNCHANGED << bvars, t >>

TNext == /\ (Reset \/ CReq \/ HParse \/ HReq \/ HResp \/ HNoRoute \/ CRes \/ Skip)
         /\ P'
TSpec == TInit /\ [][TNext]_tvars
====
