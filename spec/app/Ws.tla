---- MODULE Ws ----
(* C20, WebSocket part.  RFC 6455 section 5.2 frame layout as data, and a
   connection as two FIFO channels of frames.

   Frame header (bytes, most significant bit first):
     byte 1 : FIN(1) RSV1-3(3, zero) OPCODE(4)          text message: FIN=1, OPCODE=1
     byte 2 : MASK(1) LEN7(7)
     LEN7 <= 125            payload length = LEN7
     LEN7 = 126             next 2 bytes = length, big endian (minimal form: length > 125)
     LEN7 = 127             next 8 bytes = length, big endian (minimal form: length > 65535)
     MASK = 1               next 4 bytes = masking key; payload byte i (0-based) is XORed with key[i mod 4]
   The accept-key function (SHA-1, base64) is NOT transcribed: it is an
   uninterpreted value here; the harness computes it with the Go standard
   library and TraceWs compares the two logged strings.

   Abstraction for the closed model (E1): a message is its length n (the
   boundary classes 0,1,125,126,127,65535,65536 as numbers, so the header is
   computed on the real length) plus a SAMPLE of at most SampleLen payload bytes
   (enough to cover every key index and the wrap-around of i mod 4).

   Two encoders: RepoHeader (the selection rule written as the code under test
   writes it: n >= 65536 -> 127, n > 125 -> 126, else n; unmasked) and
   IndepHeader (written from the RFC text: n <= 125, n <= 65535, else; masked
   when a key is given).  One decoder, Decode, written from the RFC text. *)
EXTENDS Integers, Sequences, FiniteSets, TLC, Bitwise

CONSTANTS Lens,        \* set of message lengths (class representatives)
          MaxMsgs,     \* messages per direction
          KeyNames,    \* subset of {"zero", "ones", "mix", "hi"}: masking keys used by a masking encoder
          EncC, EncS   \* encoder of the client / the server: "repo", "indep" (unmasked) or "masked"

Dirs == {"c2s", "s2c"}
Enc == [ d \in Dirs |-> IF d = "c2s" THEN EncC ELSE EncS ]
KeyOf(k) == CASE k = "zero" -> << 0, 0, 0, 0 >>
              [] k = "ones" -> << 255, 255, 255, 255 >>
              [] k = "mix"  -> << 1, 2, 4, 8 >>
              [] k = "hi"   -> << 128, 55, 250, 33 >>
Keys == { KeyOf(k) : k \in KeyNames }
SampleLen == 6
Min(a, b) == IF a < b THEN a ELSE b

\* ------------------------------------------------------------------ layout
FinText == 128 + 1
BE2(n) == << n \div 256, n % 256 >>
BE8(n) == << 0, 0, 0, 0, (n \div 16777216) % 256, (n \div 65536) % 256, (n \div 256) % 256, n % 256 >>
Len7(n) == IF n <= 125 THEN n ELSE IF n <= 65535 THEN 126 ELSE 127
ExtLen(n) == IF n <= 125 THEN << >> ELSE IF n <= 65535 THEN BE2(n) ELSE BE8(n)
\* header written from the RFC text; key = << >> means unmasked
IndepHeader(n, key) == << FinText, (IF key # << >> THEN 128 ELSE 0) + Len7(n) >> \o ExtLen(n) \o key
\* header as the code under test selects the form (conn.go SendData), never masked
RepoHeader(n) ==
    IF n >= 65536 THEN << FinText, 127 >> \o BE8(n)
    ELSE IF n > 125 THEN << FinText, 126 >> \o BE2(n)
    ELSE << FinText, n >>
XorKey(key, p) == [ i \in 1..Len(p) |-> p[i] ^^ key[((i - 1) % 4) + 1] ]
MaskWith(key, p) == IF key = << >> THEN p ELSE XorKey(key, p)

\* ------------------------------------------------------------------ decoder
\* h = header bytes exactly as they appear on the wire (2..14 bytes)
HdrWellFormed(h) ==
    /\ Len(h) >= 2
    /\ \A i \in 1..Len(h) : h[i] \in 0..255
    /\ LET l7 == h[2] % 128
           ext == IF l7 = 126 THEN 2 ELSE IF l7 = 127 THEN 8 ELSE 0
           mk == IF h[2] >= 128 THEN 4 ELSE 0
       IN /\ Len(h) = 2 + ext + mk
          /\ (l7 = 127 => (h[3] = 0 /\ h[4] = 0 /\ h[5] = 0 /\ h[6] = 0 /\ h[7] < 128))  \* lengths here stay below 2^31
DecodeHeader(h) ==
    LET l7 == h[2] % 128
        ext == IF l7 = 126 THEN 2 ELSE IF l7 = 127 THEN 8 ELSE 0
        masked == h[2] >= 128
        n == IF l7 = 126 THEN h[3] * 256 + h[4]
             ELSE IF l7 = 127 THEN ((h[7] * 256 + h[8]) * 256 + h[9]) * 256 + h[10]
             ELSE l7
    IN [ fin |-> h[1] \div 128, rsv |-> (h[1] \div 16) % 8, opcode |-> h[1] % 16,
         masked |-> masked, form |-> IF ext = 0 THEN 7 ELSE IF ext = 2 THEN 16 ELSE 64,
         n |-> n, key |-> IF masked THEN SubSeq(h, 3 + ext, 6 + ext) ELSE << >>,
         minimal |-> (l7 = 126 => n > 125) /\ (l7 = 127 => n > 65535) ]
\* a text message frame whose header says length n in the minimal form
TextHeaderFor(h, n) ==
    /\ HdrWellFormed(h)
    /\ LET d == DecodeHeader(h) IN d.fin = 1 /\ d.rsv = 0 /\ d.opcode = 1 /\ d.n = n /\ d.minimal
Decode(f) == LET d == DecodeHeader(f.hdr) IN [ n |-> d.n, pay |-> MaskWith(d.key, f.pay) ]

\* ------------------------------------------------------------------ closed model
Sample(n, i) == [ k \in 1..Min(n, SampleLen) |-> (n + 37 * k + 101 * i) % 256 ]
Msg(n, i) == [ n |-> n, pay |-> Sample(n, i) ]
Encode(e, m, key) ==
    IF e = "repo" THEN [ hdr |-> RepoHeader(m.n), pay |-> m.pay ]
    ELSE IF e = "indep" THEN [ hdr |-> IndepHeader(m.n, << >>), pay |-> m.pay ]
    ELSE [ hdr |-> IndepHeader(m.n, key), pay |-> XorKey(key, m.pay) ]

VARIABLES sent, chan, rcvd
vars == << sent, chan, rcvd >>
Init == /\ sent = [ d \in Dirs |-> << >> ]
        /\ chan = [ d \in Dirs |-> << >> ]
        /\ rcvd = [ d \in Dirs |-> << >> ]
Send(d, n, key) ==
    /\ Len(sent[d]) < MaxMsgs
    /\ LET m == Msg(n, Len(sent[d]) + 1) IN
        /\ sent' = [ sent EXCEPT ![d] = Append(@, m) ]
        /\ chan' = [ chan EXCEPT ![d] = Append(@, Encode(Enc[d], m, key)) ]
    /\ UNCHANGED rcvd
Recv(d) ==
    /\ chan[d] # << >>
    /\ rcvd' = [ rcvd EXCEPT ![d] = Append(@, Decode(Head(chan[d]))) ]
    /\ chan' = [ chan EXCEPT ![d] = Tail(@) ]
    /\ UNCHANGED sent
SendAny(d) == \E n \in Lens : \E key \in (IF Enc[d] = "masked" THEN Keys ELSE { << >> }) : Send(d, n, key)
Next == \E d \in Dirs : SendAny(d) \/ Recv(d)
Spec == Init /\ [][Next]_vars

\* ------------------------------------------------------------------ properties
IsPrefix(a, b) == Len(a) <= Len(b) /\ \A i \in 1..Len(a) : a[i] = b[i]
\* received is a prefix of sent, every message identical (length and bytes)
PrefixOK == \A d \in Dirs : IsPrefix(rcvd[d], sent[d])
\* every frame in flight carries a well-formed minimal text header for the message it encodes
HeaderOK == \A d \in Dirs : \A i \in 1..Len(chan[d]) :
              TextHeaderFor(chan[d][i].hdr, sent[d][Len(rcvd[d]) + i].n)
\* masked iff the encoder masks; repo and independent unmasked headers coincide
EncodersAgree == \A n \in Lens : RepoHeader(n) = IndepHeader(n, << >>)
ASSUME EncodersAgree
AllDelivered == <>[](\A d \in Dirs : Len(sent[d]) = MaxMsgs => rcvd[d] = sent[d])
FairSpec == Spec /\ WF_vars(Next)
====
