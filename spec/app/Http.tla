---- MODULE Http ----
(* C20, HTTP part: one request/response exchange between the bundled client
   and the bundled server, and the wire grammar the bundled parser accepts.

   GRAMMAR (protocol/application/http/request.go parse, pkg.go match_until;
   the whole message is taken from ONE receive, so it must fit one TCP segment):

     message  = method SP path SP version CRLF *( name ": " value CRLF ) CRLF body
     method   = "GET" | "HEAD" | "POST" | "PUT"          (anything else answers 400)
     path     = 1*char without SP, CR, LF                (the client's URL regexp needs a leading "/")
     version  = "HTTP/1.1"                                (written by the client)
     name     = 1*char, not containing ": " or CRLF, not starting with CRLF
     value    = 1*char, not containing CRLF               (an EMPTY value ends header parsing: outside the grammar)
     body     = *char                                     (since fix 862880a; before it a body had to avoid ": "
                                                           and arrived with a leading CRLF - finding F10)
   The parser cuts at the FIRST occurrence of a separator string (SP, CRLF,
   ": "), so tokens are constrained by the separator STRINGS, not by single
   characters: a name may contain ':' or ' ', a value may contain ": ", CR or LF.
   Header names are case-sensitive map keys; a repeated name keeps the last value.
   The same parser is applied by the client to the response
   (status-line "HTTP/1.1 SP code SP reason CRLF").

   Part A below states the wire format and an implementation-shaped parser over
   sequences of characters (a character is a string: "a", ":", " ", "CR", "LF"); E1 checks Parse(Encode(r, order)) = r
   for every request of a small alphabet and every header order (Go map
   iteration order is arbitrary).
   Part B is the exchange: ClientSend(r), ServerParse(r2), Dispatch(h) /
   NoRoute, Respond(st, b), ClientRecv(st2, b2), with the C20 statement as state
   predicates over these variables (used as invariants of the closed model and
   as guards by TraceHttp).  Values in part B are opaque. *)
EXTENDS Integers, Sequences, FiniteSets, TLC

\* ======================================================================= Part A
SP == << " " >>
CRLF == << "CR", "LF" >>       \* the characters CR and LF are the opaque symbols "CR", "LF" (cfg files have no string escapes)
COLSP == << ":", " " >>
At(s, sep, i) == i + Len(sep) - 1 <= Len(s) /\ SubSeq(s, i, i + Len(sep) - 1) = sep
Occurs(s, sep) == \E i \in 1..Len(s) : At(s, sep, i)
Index(s, sep) == IF Occurs(s, sep)
                 THEN CHOOSE i \in 1..Len(s) : At(s, sep, i) /\ \A j \in 1..(i - 1) : ~At(s, sep, j)
                 ELSE 0
\* pkg.go match_until: <<before, after>>, both empty when the separator is absent
MatchUntil(s, sep) == LET i == Index(s, sep) IN
                      IF i = 0 THEN << << >>, << >> >>
                      ELSE << SubSeq(s, 1, i - 1), SubSeq(s, i + Len(sep), Len(s)) >>
HasPrefix(s, p) == At(s, p, 1)
Put(f, k, v) == [ x \in (DOMAIN f) \cup {k} |-> IF x = k THEN v ELSE f[x] ]

RECURSIVE HLoop(_, _)
\* request.go: the header loop (with the blank-line test of fix 862880a); result <<headers, body>>
HLoop(p, acc) ==
    IF p = << >> THEN << acc, p >>
    ELSE IF HasPrefix(p, CRLF) THEN << acc, SubSeq(p, 3, Len(p)) >>
    ELSE LET k == MatchUntil(p, COLSP)
             p1 == IF k[1] # << >> THEN k[2] ELSE p
             v == MatchUntil(p1, CRLF)
             p2 == IF v[1] # << >> THEN v[2] ELSE p1
         IN IF k[1] = << >> \/ v[1] = << >> THEN << acc, p2 >>
            ELSE HLoop(p2, Put(acc, k[1], v[1]))
Parse(w) ==
    LET m == MatchUntil(w, SP)
        u == MatchUntil(m[2], SP)
        v == MatchUntil(u[2], CRLF)
        hb == HLoop(v[2], << >>)
    IN [ method |-> m[1], path |-> u[1], version |-> v[1], headers |-> hb[1], body |-> hb[2] ]

RECURSIVE EncHeaders(_, _)
EncHeaders(h, order) == IF order = << >> THEN << >>
                        ELSE Head(order) \o COLSP \o h[Head(order)] \o CRLF \o EncHeaders(h, Tail(order))
Encode(r, order) == r.method \o SP \o r.path \o SP \o r.version \o CRLF \o EncHeaders(r.headers, order) \o CRLF \o r.body

NameOK(s) == s # << >> /\ ~Occurs(s, COLSP) /\ ~Occurs(s, CRLF)
ValueOK(s) == s # << >> /\ ~Occurs(s, CRLF)
WordOK(s) == s # << >> /\ ~Occurs(s, SP) /\ ~Occurs(s, << "CR" >>) /\ ~Occurs(s, << "LF" >>)
InGrammar(r) == /\ WordOK(r.method) /\ WordOK(r.path) /\ WordOK(r.version)
                /\ \A k \in DOMAIN r.headers : NameOK(k) /\ ValueOK(r.headers[k])
Orders(S) == { o \in [ 1..Cardinality(S) -> S ] : \A i, j \in 1..Cardinality(S) : i # j => o[i] # o[j] }
RoundTrip(r) == \A o \in Orders(DOMAIN r.headers) : Parse(Encode(r, o)) = r

\* small-alphabet instance for E1
CONSTANTS Alphabet,      \* set of one-character strings
          TokLen,        \* maximal length of names, values, path
          BodyLen,       \* maximal body length
          MaxHdrs        \* maximal number of headers
Toks(n) == UNION { [ 1..k -> Alphabet ] : k \in 0..n }
Names == { s \in Toks(TokLen) : NameOK(s) }
Values == { s \in Toks(TokLen) : ValueOK(s) }
Words == { s \in Toks(TokLen) : WordOK(s) }

VARIABLE t               \* the request under test (part A model)
TestRequests == { [ method |-> << "G" >>, path |-> p, version |-> << "1" >>, headers |-> h, body |-> b ] :
                    p \in Words, b \in Toks(BodyLen),
                    h \in UNION { [ ks -> Values ] : ks \in { S \in SUBSET Names : Cardinality(S) <= MaxHdrs } } }
AGrammar == InGrammar(t)
ARoundTrip == RoundTrip(t)

\* ======================================================================= Part B
CONSTANTS Methods, Paths, Routes, HdrSets, Bodies, Statuses, RBodies
Requests == [ method : Methods, path : Paths, headers : HdrSets, body : Bodies ]

VARIABLES phase,     \* "idle" | "sent" | "parsed" | "handling" | "responded" | "noroute" | "done"
          req,       \* the request the client sent
          seen,      \* the request as the server's parser produced it
          invoked,   \* set of routes whose handler has been invoked for this exchange
          hresp,     \* what the handler produced: [status, body]
          cres       \* what the client received: [status, body]
bvars == << phase, req, seen, invoked, hresp, cres >>
None == [ none |-> TRUE ]

BInit == phase = "idle" /\ req = None /\ seen = None /\ invoked = {} /\ hresp = None /\ cres = None
ClientSend(r) == /\ phase = "idle"
                 /\ req' = r /\ phase' = "sent"
                 /\ UNCHANGED << seen, invoked, hresp, cres, t >>
ServerParse(r2) == /\ phase = "sent"
                   /\ seen' = r2 /\ phase' = "parsed"
                   /\ UNCHANGED << req, invoked, hresp, cres, t >>
\* the handler registered for route h is invoked
Dispatch(h) == /\ phase = "parsed"
               /\ invoked' = invoked \cup {h} /\ phase' = "handling"
               /\ UNCHANGED << req, seen, hresp, cres, t >>
\* no handler is invoked: the server answers by itself
NoRoute == /\ phase \in {"sent", "parsed"}
           /\ phase' = "noroute"
           /\ UNCHANGED << req, seen, invoked, hresp, cres, t >>
Respond(st, b) == /\ phase = "handling"
                  /\ hresp' = [ status |-> st, body |-> b ] /\ phase' = "responded"
                  /\ UNCHANGED << req, seen, invoked, cres, t >>
ClientRecv(st, b) == /\ phase \in {"responded", "noroute"}
                     /\ cres' = [ status |-> st, body |-> b ] /\ phase' = "done"
                     /\ UNCHANGED << req, seen, invoked, hresp, t >>

\* ---- the C20 statement (KF = set of tolerated known-finding ids, normally {})
CONSTANT KF
SameRequest(a, b) == a.method = b.method /\ a.path = b.path /\ a.headers = b.headers /\ a.body = b.body
ParseFaithful == seen # None => SameRequest(seen, req)
RightHandler == \A h \in invoked : h \in Routes /\ h = req.path
NoHandlerIfUnregistered == (req # None /\ req.path \notin Routes) => invoked = {}
HandlerIffRegistered == phase = "done" => (invoked # {} <=> req.path \in Routes)
StatusOK(hs, cs) == cs = hs \/ ("F11" \in KF /\ hs # 200 /\ cs = 200)
ClientGets == (phase = "done" /\ invoked # {}) => (StatusOK(hresp.status, cres.status) /\ cres.body = hresp.body)
P == ParseFaithful /\ RightHandler /\ NoHandlerIfUnregistered /\ HandlerIffRegistered /\ ClientGets

\* ---- closed model: a faithful channel and a server that follows its route table
BSend == \E r \in Requests : ClientSend(r)
BParse == ServerParse(req)
BDispatch == phase = "parsed" /\ seen.path \in Routes /\ Dispatch(seen.path)
BNoRoute == phase = "parsed" /\ seen.path \notin Routes /\ NoRoute
BRespond == \E st \in Statuses : \E b \in RBodies : Respond(st, b)
BRecv == phase = "responded" /\ ClientRecv(hresp.status, hresp.body)
BRecvDefault == phase = "noroute" /\ \E b \in RBodies : ClientRecv(200, b)
BNext == BSend \/ BParse \/ BDispatch \/ BNoRoute \/ BRespond \/ BRecv \/ BRecvDefault
BSpec == (BInit /\ t = << >>) /\ [][BNext]_<< bvars, t >>
\* part A as a (stuttering) specification: every test request is an initial state
ASpec == (t \in TestRequests /\ BInit) /\ [][UNCHANGED << bvars, t >>]_<< bvars, t >>
====
