---- MODULE TraceWs ----
(* C20 P-spec (WebSocket part) as trace validator.  The connection is Ws.tla's
   pair of FIFO message sequences (sent, rcvd; chan stays empty: the wire is
   not observed except for raw frame headers) and Ws!PrefixOK is required
   after every step; raw frame headers are checked with Ws's layout operators.

     reset
     upg   ckey skey accept ref status       ckey: Sec-WebSocket-Key the client sent, skey: the key the server's handler
                                             saw, accept: Sec-WebSocket-Accept in the reply, ref: RFC 6455 4.2.2 of ckey
                                             computed by the harness with crypto/sha1 + encoding/base64
     send  dir m                             logged BEFORE the message is handed to SendData / Push / the raw encoder
     recv  dir m [raw]                       logged AFTER ReadData / Recv / the raw decoder returned the message
     frame dir hdr [key]                     raw header bytes: of a frame the harness's own encoder wrote (with key, << >> =
                                             unmasked; after its send) or its decoder read from the code under test
                                             (no key; before its recv)
     done  timeout                           every expected message arrived (timeout=FALSE) or a deadline expired
     note                                    diagnostics, ignored

   m = [n, b, h, t, g]: length, full bytes in hex if n <= 256 (else ""), first / last 48 bytes in hex if n > 256,
   SHA-256 of the bytes (computed by the harness). *)
EXTENDS TraceIO, Ws

VARIABLES fr,       \* frame headers checked so far, per direction
          up        \* the upgrade has been seen
tvars == << l, vars, fr, up >>
Zero == [ d \in Dirs |-> 0 ]
TInit == l = 1 /\ Init /\ fr = Zero /\ up = FALSE /\ HWInit
Reset == IsEvent("reset") /\ sent' = [ d \in Dirs |-> << >> ] /\ rcvd' = [ d \in Dirs |-> << >> ]
                          /\ fr' = Zero /\ up' = FALSE /\ UNCHANGED chan
\* the accept key is the RFC 6455 function of the client's key; the server saw the client's key
Upg == /\ IsEvent("upg") /\ ~up
       /\ Ev.ckey # "" /\ Ev.skey = Ev.ckey /\ Ev.accept = Ev.ref /\ Ev.status = "101"
       /\ up' = TRUE /\ UNCHANGED << vars, fr >>
TSend == /\ IsEvent("send") /\ up /\ Ev.dir \in Dirs
         /\ sent' = [ sent EXCEPT ![Ev.dir] = Append(@, Ev.m) ]
         /\ UNCHANGED << chan, rcvd, fr, up >>
\* a frame the harness's own encoder wrote (raw client: dir c2s, raw server: dir s2c; the event carries the key,
\* << >> for an unmasked frame): exactly the independent encoder's header for the message just sent (sanity of the harness)
FrameOut == /\ IsEvent("frame") /\ Has(Ev, "key") /\ Ev.dir \in Dirs
            /\ fr[Ev.dir] = Len(sent[Ev.dir]) - 1
            /\ Ev.hdr = IndepHeader(sent[Ev.dir][Len(sent[Ev.dir])].n, Ev.key)
            /\ fr' = [ fr EXCEPT ![Ev.dir] = @ + 1 ]
            /\ UNCHANGED << vars, up >>
\* a frame the harness's own decoder read from the code under test: a text frame whose header announces, in the
\* minimal form, the length of the message it carries (the next unreceived message of that direction)
FrameIn == /\ IsEvent("frame") /\ ~Has(Ev, "key") /\ Ev.dir \in Dirs
           /\ fr[Ev.dir] = Len(rcvd[Ev.dir]) /\ Len(rcvd[Ev.dir]) < Len(sent[Ev.dir])
           /\ TextHeaderFor(Ev.hdr, sent[Ev.dir][Len(rcvd[Ev.dir]) + 1].n)
           /\ fr' = [ fr EXCEPT ![Ev.dir] = @ + 1 ]
           /\ UNCHANGED << vars, up >>
TRecv == /\ IsEvent("recv") /\ up /\ Ev.dir \in Dirs
         /\ (Has(Ev, "raw") => fr[Ev.dir] = Len(rcvd[Ev.dir]) + 1)
         /\ rcvd' = [ rcvd EXCEPT ![Ev.dir] = Append(@, Ev.m) ]
         /\ UNCHANGED << sent, chan, fr, up >>
\* every text message is received
Done == /\ IsEvent("done") /\ ~Ev.timeout /\ up
        /\ \A d \in Dirs : rcvd[d] = sent[d]
        /\ UNCHANGED << vars, fr, up >>
Skip == IsEvent("note") /\ UNCHANGED << vars, fr, up >>
TNext == (Reset \/ Upg \/ TSend \/ FrameOut \/ FrameIn \/ TRecv \/ Done \/ Skip) /\ PrefixOK'
TSpec == TInit /\ [][TNext]_tvars
====
