---- MODULE TraceWs ----
(* C20 P-spec (WebSocket part) as trace validator.  The connection is Ws.tla's
   pair of FIFO message sequences (sent, rcvd; chan stays empty: the wire is
   not observed except for raw frame headers) and Ws!PrefixOK is required
   after every step; raw frame headers are checked with Ws's layout operators.

     reset
     upg   ckey skey accept ref status       ckey: Sec-WebSocket-Key the client sent, skey: the key the server's handler
                                             saw, accept: Sec-WebSocket-Accept in the reply, ref: RFC 6455 4.2.2 of ckey
                                             computed by the harness with crypto/sha1 + encoding/base64
     send  dir m                             logged BEFORE the message is handed to SendData / Push / the raw encoder
     recv  dir m [raw]                       logged AFTER ReadData / Recv / the raw decoder returned the message
     frame dir hdr [key]                     raw header bytes: of a frame the harness's own client wrote (dir c2s, after
                                             its send) or read from the server (dir s2c, before its recv)
     done  timeout                           every expected message arrived (timeout=FALSE) or a deadline expired
     note                                    diagnostics, ignored

   m = [n, b, h, t, g]: length, full bytes in hex if n <= 256 (else ""), first / last 48 bytes in hex if n > 256,
   SHA-256 of the bytes (computed by the harness). *)
EXTENDS TraceIO, Ws

VARIABLES fr,       \* frame headers checked so far, per direction
          up        \* the upgrade has been seen
tvars == << l, vars, fr, up >>
Zero == [ d \in Dirs |-> 0 ]
TInit == l = 1 /\ Init /\ fr = Zero /\ up = FALSE /\ HWInit
Reset == IsEvent("reset") /\ sent' = [ d \in Dirs |-> << >> ] /\ rcvd' = [ d \in Dirs |-> << >> ]
                          /\ fr' = Zero /\ up' = FALSE /\ UNCHANGED chan
\* the accept key is the RFC 6455 function of the client's key; the server saw the client's key
Upg == /\ IsEvent("upg") /\ ~up
       /\ Ev.ckey # "" /\ Ev.skey = Ev.ckey /\ Ev.accept = Ev.ref /\ Ev.status = "101"
       /\ up' = TRUE /\ UNCHANGED << vars, fr >>
TSend == /\ IsEvent("send") /\ up /\ Ev.dir \in Dirs
         /\ sent' = [ sent EXCEPT ![Ev.dir] = Append(@, Ev.m) ]
         /\ UNCHANGED << chan, rcvd, fr, up >>
\* a frame the harness's own client wrote: exactly the independent encoder's header (sanity of the harness)
FrameOut == /\ IsEvent("frame") /\ Ev.dir = "c2s"
            /\ fr["c2s"] = Len(sent["c2s"]) - 1
            /\ Ev.hdr = IndepHeader(sent["c2s"][Len(sent["c2s"])].n, Ev.key)
            /\ fr' = [ fr EXCEPT !["c2s"] = @ + 1 ]
            /\ UNCHANGED << vars, up >>
\* a frame read from the server: a text frame whose header announces, in the minimal form, the length of the
\* message it carries (the next unreceived message of that direction)
FrameIn == /\ IsEvent("frame") /\ Ev.dir = "s2c"
           /\ fr["s2c"] = Len(rcvd["s2c"]) /\ Len(rcvd["s2c"]) < Len(sent["s2c"])
           /\ TextHeaderFor(Ev.hdr, sent["s2c"][Len(rcvd["s2c"]) + 1].n)
           /\ fr' = [ fr EXCEPT !["s2c"] = @ + 1 ]
           /\ UNCHANGED << vars, up >>
TRecv == /\ IsEvent("recv") /\ up /\ Ev.dir \in Dirs
         /\ (Has(Ev, "raw") => fr[Ev.dir] = Len(rcvd[Ev.dir]) + 1)
         /\ rcvd' = [ rcvd EXCEPT ![Ev.dir] = Append(@, Ev.m) ]
         /\ UNCHANGED << sent, chan, fr, up >>
\* every text message is received
Done == /\ IsEvent("done") /\ ~Ev.timeout /\ up
        /\ \A d \in Dirs : rcvd[d] = sent[d]
        /\ UNCHANGED << vars, fr, up >>
Skip == IsEvent("note") /\ UNCHANGED << vars, fr, up >>
TNext == (Reset \/ Upg \/ TSend \/ FrameOut \/ FrameIn \/ TRecv \/ Done \/ Skip) /\ PrefixOK'
TSpec == TInit /\ [][TNext]_tvars
====
